"""C16 -- TPSA is invariant under rigid translations.

Tier B (bounded run-time contract sweep; deduction not applicable, DESIGN section 8/C16).

Contract on the real ``pp.Tpsa(kw).discretize(sd, data)`` followed by the assembly documented in the class docstring
of ``pp.Tpsa`` (``Tpsa.assemble_matrix_rhs`` itself raises NotImplementedError by design):

    face_discr = [[stress, stress_rotation, stress_total_pressure],
                  [rotation_displacement, rotation_rotation, 0],
                  [solid_mass_displacement, 0, solid_mass_total_pressure]]
    rhs_matrix = [bound_stress; bound_rotation_displacement; bound_mass_displacement]
    div = blockdiag(div_nd, div_rot, div_1);   accum = blockdiag(0, |cell|/mu, |cell|/lambda)
    A = div face_discr - accum,   b = -div rhs_matrix u_b,   x = A^{-1} b = [u, r, p]

requires  sd a valid 2-D/3-D grid (Cartesian, structured simplex, node-perturbed / affine image), constant Lame
          parameters (mu, lambda > 0), every displacement component of every boundary face either Dirichlet or Neumann (a face may
          be entirely Dirichlet, entirely Neumann, or component-wise mixed = 'rolling': Dirichlet in some coordinate directions,
          Neumann in the others, set through BoundaryConditionVectorial.is_dir / is_neu as its docstring prescribes), >= 1 Dirichlet
          component; boundary data consistent with the translation t ("Dirichlet or mixed boundary data consistent with the
          translation" in the statement's quantifier): u_b,i = t_i on every Dirichlet component, zero traction on every Neumann
          component (a translation is strain free, so its traction vanishes in every direction on every face).
ensures   (1)  stress (1 (x) t) + bound_stress u_b = 0 on every face;
          (2a) the state [u = t in every cell, r = 0, p = 0] satisfies A x = b;
          (2b) requires additionally that A is regular (cond < 1e8): the solve returns exactly that state.
               Observation on the unchanged tree: with a *single* Dirichlet face the two-point system is singular (the
               discrete rotation about that face centre is a null mode: 1 zero singular value in 2-D, 3 in 3-D), so "the
               solution" is not defined there; such cases are outside the hypothesis of (2b) (they still must pass (1), (2a))
               and are counted in the evidence (cases_with_singular_system_solve_clause_not_applicable).
          All clauses are linear in t: the basis {e_x, e_y(, e_z)} covers all translations.
          (H)  call histories: "for any grid" holds for every discretize call, not only the first call of a new pp.Tpsa object.  (1), (2a),
               (2b) are evaluated after EVERY call of sequences that share one pp.Tpsa object: grids of equal dimension / cell count /
               face count but different connectivity (n permuted) in both orders, one topology with changed geometry, grids of
               different size / kind / dimension, one grid and data dictionary rediscretized with changed Lame pair and layout, and the
               identical call repeated with the same argument objects.  The oracle is the translation; an all-fresh control run only
               selects the obligation name (history dependence vs. plain clause).

Detection power (scratch copy, one mutant at a time, POREPY_SRC=<copy>): see MUTANTS below.
"""
from __future__ import annotations

META = {
    "level": "exploration",
    "engine": "sweep",
    "technique": "run-time contract sweep (bounded stand-in for deduction): postconditions of the real Tpsa.discretize and of the system "
                 "assembled as documented in the Tpsa class docstring, on enumerated grids x Lame parameters x Dirichlet/mixed layouts "
                 "(face-wise Dirichlet/Neumann mixes and component-wise mixed 'rolling' faces); translation basis covers all "
                 "translations by linearity; the same clauses after every call of call histories that reuse one pp.Tpsa object (grids of equal "
                 "cell/face counts and different connectivity, changed geometry, other sizes/dimensions, rediscretization with changed "
                 "parameters in one data dictionary, repeated call with the same argument objects)",
    "text": "Bounded assurance only on the enumerated family. Deduction not applicable. Mixed boundary data covers face-wise "
            "Dirichlet/Neumann mixes and component-wise mixes in the coordinate basis (Dirichlet in some directions, zero-traction "
            "Neumann in the others on one face); in the quick tier each component-wise layout class runs with one Lame pair per grid "
            "only. Reuse of one Tpsa object over a sequence of grids / parameter sets is covered by enumerated call histories (<= 7 calls per "
            "object, one seeded Lame pair and layout per call); sharing one object between different keywords or threads is not. Robin "
            "conditions, a non-default BoundaryConditionVectorial.basis, Cosserat parameter and heterogeneous Lame parameters are not "
            "covered (outside the statement).",
    "note": "the assembly recipe (block structure, signs, accumulation |cell|/mu, |cell|/lambda) is taken from the Tpsa class docstring / "
            "the TPSA paper and is part of the trusted specification; dense numpy solve",
}

MUTANTS = """
  M1 tpsa.py _vector_laplace_matrices: ``trm_bnd[dir_faces] = trm_nd[dir_faces]`` -> ``0.5 * trm_nd[dir_faces]``
       (Dirichlet boundary coefficient no longer matches the cell coefficient)           caught by (1) and (2a)
  M2 tpsa.py discretize: bound_rotation_displacement ``- filters.dir_pass_nd`` -> ``+ filters.dir_pass_nd``   caught by (2a) (angular momentum rows)
  M3 tpsa.py discretize: bound_mass_displacement ``+ filters.dir_pass_nd`` dropped                              caught by (2a) (solid mass rows)
  M4 tpsa.py discretize: ``rotation_displacement = -Rn_bar @ c2f`` -> ``+Rn_bar @ c2f``                          caught by (2a)
  M5 tpsa.py _create_cell_to_face_maps: rows of c2f zeroed per face (any component Dirichlet -> all nd rows) instead of per component
       (Neumann components of a rolling face lose their cell contribution)   caught by (2a) on comp-one / comp-roll / comp-mix only
  M6 tpsa.py _vector_laplace_matrices: ``trm_bnd[dir_faces] = trm_nd[dir_faces]`` -> only on faces with *all* components Dirichlet
       (Dirichlet component of a rolling face has no bound_stress coefficient)  caught by (1) and (2a) on comp-one / comp-roll / comp-mix only
  M7 tpsa.py discretize: the bookkeeping of _create_numbering kept on the Tpsa object keyed by (dim, num_cells, num_faces) and reused
       (second grid with the same counts gets the connectivity of the first)          caught by (H) on the equal-counts histories only
"""

import warnings

import numpy as np

KW = "mechanics"
O_STRESS = "Tpsa.discretize: uniform displacement with matching boundary data gives zero stress on every face"
O_SOLVE = "Tpsa.discretize: solved system returns the translation with zero rotation and zero solid pressure"
O_RUN = "Tpsa.discretize: terminates without exception on an admissible input"
O_HIST = "Tpsa.discretize: translation clauses on every call of a reused object"  # short: replay file names are cut at 120 characters


def build_grid(pp, spec):
    ctor = {"cart": pp.CartGrid, "tri": pp.StructuredTriangleGrid, "tet": pp.StructuredTetrahedralGrid}[spec["kind"]]
    g = ctor(np.array(spec["n"]), np.array(spec["phys"], dtype=float))
    if spec.get("nodes") is not None:
        g.nodes = np.array(spec["nodes"], dtype=float)
    with warnings.catch_warnings():
        warnings.simplefilter("ignore")
        g.compute_geometry()
    return g


def cells_valid(g):
    if not np.all(g.cell_volumes > 0) or not np.all(g.face_areas > 0):
        return False
    cf = g.cell_faces.tocoo()
    d = g.face_centers[:, cf.row] - g.cell_centers[:, cf.col]
    return bool(np.all(np.sum(d * g.face_normals[:, cf.row], axis=0) * cf.data > 0))


def perturbed(pp, rng, spec, rate):
    g0 = build_grid(pp, spec)
    h = min(p / k for p, k in zip(spec["phys"], spec["n"]))
    for _ in range(20):
        nodes = g0.nodes.copy()
        for i in range(g0.dim):
            nodes[i] += np.array([rng.uniform(-rate, rate) * h for _ in range(g0.num_nodes)])
        s = dict(spec, nodes=np.round(nodes, 12).tolist(), pert=rate)
        if cells_valid(build_grid(pp, s)):
            return s
    return None


def sheared(pp, spec, A):
    g0 = build_grid(pp, spec)
    return dict(spec, nodes=np.round(np.array(A, dtype=float) @ g0.nodes, 12).tolist(), pert="affine")


def grid_specs(pp, rng, quick):
    base = [("cart", [2, 2], [2.0, 2.0]), ("cart", [3, 2], [1.5, 1.0]), ("cart", [1, 1], [1.0, 2.0]), ("tri", [2, 2], [1.0, 1.0]),
            ("tri", [3, 2], [3.0, 1.0]), ("cart", [2, 2, 2], [1.0, 2.0, 1.5]), ("tet", [1, 1, 1], [1.0, 1.0, 1.0]),
            ("tet", [2, 1, 1], [2.0, 1.0, 1.5])]
    if not quick:
        base += [("cart", [3, 3], [3.0, 1.5]), ("cart", [5, 4], [1.0, 1.0]), ("tri", [1, 1], [1.0, 1.0]), ("tri", [4, 3], [1.0, 2.0]),
                 ("cart", [3, 2, 2], [1.0, 1.0, 1.0]), ("cart", [1, 1, 1], [1.0, 1.0, 1.0]), ("tet", [2, 2, 2], [1.0, 1.0, 1.0])]
    out = []
    for kind, n, phys in base:
        s = {"kind": kind, "n": n, "phys": phys, "nodes": None, "pert": 0}
        out.append(s)
        for rate in ((0.1, 0.2) if quick else (0.05, 0.1, 0.2, 0.25)):
            p = perturbed(pp, rng, s, rate)
            if p is not None:
                out.append(p)
        out.append(sheared(pp, s, [[1, 0.3, 0.1], [0, 1, 0.2], [0.1, 0, 1.2]] if len(n) == 3 else [[1, 0.4, 0], [0.2, 1.1, 0], [0, 0, 1]]))
    return out


LAME = [("mu1-lam1", 1.0, 1.0), ("mu2.5-lam0.3", 2.5, 0.3), ("mu0.7-lam10", 0.7, 10.0)]


def bc_layouts(rng, nb, n_random, nd=None, comp_only=None, n_comp_random=1):
    """Face-wise layouts: a string with one letter (d/n) per boundary face. Component-wise layouts (only when ``nd`` is given):
    a ','-separated string with one nd-letter code per boundary face, letter i = condition of displacement component i;
    ``comp_only=j`` keeps only the j-th (cyclically) of the component-wise layouts (a), (b), (c)."""
    out = [("all-dir", "d" * nb)]
    k = rng.randrange(nb)
    out.append(("one-neu", "d" * k + "n" + "d" * (nb - k - 1)))
    if nb > 1:
        k = rng.randrange(nb)
        out.append(("one-dir", "n" * k + "d" + "n" * (nb - k - 1)))
    for _ in range(n_random):
        s = "".join(rng.choice("dn") for _ in range(nb))
        if "d" not in s:
            k = rng.randrange(nb)
            s = s[:k] + "d" + s[k + 1:]
        out.append(("mix", s))
    if nd is None:
        return out
    # component-wise mixed ('rolling') faces: Dirichlet in some directions and zero-traction Neumann in the others on one face
    proper = ["".join("d" if (m >> i) & 1 else "n" for i in range(nd)) for m in range(1, 2 ** nd - 1)]
    # (a) a single rolling face (seeded face and code), all other boundary faces fully Dirichlet
    codes = ["d" * nd] * nb
    codes[rng.randrange(nb)] = rng.choice(proper)
    comp = [("comp-one", ",".join(codes))]
    # (b) a seeded subset (each face with probability 1/2, >= 1 face) carries the same rolling code: Dirichlet in exactly one
    #     seeded direction k, Neumann in the others; the remaining boundary faces fully Dirichlet
    k = rng.randrange(nd)
    code = "".join("d" if i == k else "n" for i in range(nd))
    sel = [rng.random() < 0.5 for _ in range(nb)]
    sel[rng.randrange(nb)] = True
    comp.append(("comp-roll", ",".join(code if s else "d" * nd for s in sel)))
    # (c) every component of every boundary face seeded independently (fully Dirichlet / fully Neumann faces occur as well);
    #     >= 1 Dirichlet component and >= 1 rolling face enforced
    for _ in range(n_comp_random):
        codes = ["".join(rng.choice("dn") for _ in range(nd)) for _ in range(nb)]
        if not any(c in proper for c in codes):
            codes[rng.randrange(nb)] = rng.choice(proper)
        comp.append(("comp-mix", ",".join(codes)))
    return out + (comp if comp_only is None else [comp[comp_only % len(comp)]])


def parse_layout(layout, nd):
    """-> boolean (nd, nb): component i of boundary face j is Dirichlet (else zero-traction Neumann), and the component-wise flag."""
    if "," in layout:
        codes = layout.split(",")
        comp = True
    else:
        codes = [c * nd for c in layout]
        comp = False
    return np.array([[c[i] == "d" for c in codes] for i in range(nd)], dtype=bool).reshape(nd, len(codes)), comp


def evaluate(pp, spec, mu, lam, layout, info=None, discr=None, g=None, data=None, args=None):
    """Clauses (1), (2a), (2b) for one case.  By default everything is built afresh (new grid, new pp.Tpsa object, new data dictionary,
    new parameter objects).  The call-history sweep passes objects of an earlier call instead: ``discr`` (a pp.Tpsa object that has
    discretized other grids before), ``g`` / ``data`` (grid object and data dictionary of the previous call: rediscretization with
    changed parameters) and ``args`` (the boundary-condition and stiffness objects of the previous call).  The objects used are
    returned in ``info`` ('g', 'data', 'args')."""
    info = {} if info is None else info
    import scipy.sparse as sps

    g = build_grid(pp, spec) if g is None else g
    nd, nf, nc = g.dim, g.num_faces, g.num_cells
    bf = g.get_all_boundary_faces()
    is_dir_b, comp = parse_layout(layout, nd)  # (nd, nb)
    if args is not None:
        bc, C = args
    else:
        if comp:
            # component-wise conditions are set the way the BoundaryConditionVectorial docstring prescribes: through is_dir / is_neu
            bc = pp.BoundaryConditionVectorial(g, bf, ["dir"] * bf.size)
            bc.is_dir[:, bf] = is_dir_b
            bc.is_neu[:, bf] = ~is_dir_b
        else:
            bc = pp.BoundaryConditionVectorial(g, bf, ["dir" if d else "neu" for d in is_dir_b[0]])
        C = pp.FourthOrderTensor(mu * np.ones(nc), lam * np.ones(nc))
    if data is None:
        data = {pp.PARAMETERS: {KW: {"fourth_order_tensor": C, "bc": bc}}, pp.DISCRETIZATION_MATRICES: {KW: {}}}
    else:  # rediscretization: the parameters of the existing dictionary are replaced, the matrices of the earlier call are still there
        data[pp.PARAMETERS][KW].update({"fourth_order_tensor": C, "bc": bc})
    discr = pp.Tpsa(KW) if discr is None else discr
    info.update({"g": g, "data": data, "args": (bc, C)})
    try:
        with warnings.catch_warnings():
            warnings.simplefilter("ignore")
            discr.discretize(g, data)
    except Exception as e:
        return [(O_RUN, f"{type(e).__name__}: {e}")]
    M = data[pp.DISCRETIZATION_MATRICES][KW]
    m = lambda attr: M[getattr(discr, attr)]  # noqa: E731
    rot_dim = 3 if nd == 3 else 1
    n_rot_f, n_rot_c = nf * rot_dim, nc * rot_dim
    try:
        face = sps.bmat([
            [m("stress_displacement_matrix_key"), m("stress_rotation_matrix_key"), m("stress_total_pressure_matrix_key")],
            [m("rotation_displacement_matrix_key"), m("rotation_rotation_matrix_key"), sps.csr_matrix((n_rot_f, nc))],
            [m("mass_displacement_matrix_key"), sps.csr_matrix((nf, n_rot_c)), m("mass_total_pressure_matrix_key")],
        ]).tocsr()
        rhsm = sps.vstack([m("bound_stress_matrix_key"), m("bound_rotation_displacement_matrix_key"),
                           m("bound_mass_displacement_matrix_key")]).tocsr()
    except Exception as e:
        return [(O_RUN, f"documented assembly impossible: {type(e).__name__}: {e}")]
    div = sps.block_diag([g.divergence(dim=nd), g.divergence(dim=rot_dim), g.divergence(dim=1)], format="csr")
    accum = sps.block_diag([sps.csr_matrix((nc * nd, nc * nd)),
                            sps.diags(np.repeat(g.cell_volumes / mu, rot_dim)), sps.diags(g.cell_volumes / lam)], format="csr")
    A = (div @ face - accum).toarray()
    S, BS = m("stress_displacement_matrix_key").toarray(), m("bound_stress_matrix_key").toarray()
    is_dir = np.zeros((nd, nf), dtype=bool)  # per displacement component
    is_dir[:, bf] = is_dir_b
    cf = g.cell_faces.tocoo()
    hmin = np.linalg.norm(g.face_centers[:, cf.row] - g.cell_centers[:, cf.col], axis=0).min()
    sscale = 2 * (mu + lam) * g.face_areas.max() / hmin
    bad = []
    sv = np.linalg.svd(A, compute_uv=False)
    cond = sv[0] / max(sv[-1], 1e-300)
    regular = cond < 1e8
    info["regular"] = bool(regular)
    for i in range(nd):
        t = np.eye(nd)[i]
        ub = np.zeros((nd, nf))
        # boundary data of the translation: t_j on every Dirichlet component, zero traction on every Neumann component
        for j in range(nd):
            ub[j, is_dir[j]] = t[j]
        uc = np.tile(t, nc)
        s = S @ uc + BS @ ub.ravel("F")
        if np.abs(s).max() > 1e-10 * sscale:
            k = int(np.abs(s).argmax())
            f = k // nd
            kind = "interior" if f not in set(bf.tolist()) else (
                "Dirichlet" if is_dir[:, f].all() else ("Neumann" if not is_dir[:, f].any() else
                                                        "rolling " + "".join("d" if d else "n" for d in is_dir[:, f])))
            bad.append((O_STRESS, f"t=e_{i}: face {f} ({kind}) component {k % nd}: stress {s[k]!r} (scale {sscale:.2e})"))
        b = -(div @ (rhsm @ ub.ravel("F")))
        exp = np.concatenate([uc, np.zeros(n_rot_c + nc)])
        # (2a) the translation state solves the assembled system (meaningful also when A is singular)
        res = np.abs(A @ exp - b)
        if res.max() > 1e-10 * max(sscale, np.abs(A).max()):
            k = int(res.argmax())
            what = "momentum" if k < nd * nc else ("angular momentum" if k < nd * nc + n_rot_c else "solid mass")
            bad.append((O_SOLVE, f"t=e_{i}: [t,0,0] does not satisfy the system: residual {res[k]!r} in {what} equation {k}"))
            continue
        # (2b) requires: the system is regular (a single Dirichlet face leaves the discrete rotation about that face free: the
        # two-point system is then singular and 'the solution' is not defined) -> unique solution must be [t,0,0]
        if not regular:
            continue
        x = np.linalg.solve(A, b)
        err = np.abs(x - exp)
        if not np.all(np.isfinite(x)) or err.max() > 1e-12 * cond * 10 + 1e-10:
            k = int(np.nanargmax(err))
            what = "displacement" if k < nd * nc else ("rotation" if k < nd * nc + n_rot_c else "solid pressure")
            bad.append((O_SOLVE, f"t=e_{i}: unknown {k} ({what}) = {x[k]!r}, expected {exp[k]!r} (cond {cond:.1e})"))
    return bad


def _signature(spec, lname):
    pert = "regular" if spec["pert"] == 0 else ("affine" if spec["pert"] == "affine" else "perturbed")
    return f"{len(spec['n'])}d {spec['kind']} {pert} bc={lname}"


# ---------------------------------------------------------------------------------------------------------------- call histories
# "For any grid": the property is a statement about every discretize call, not only about the first call of a new pp.Tpsa object.  A
# discretization object is routinely used for several subdomains / a sequence of meshes / a rediscretization with changed parameters,
# so the clauses are also evaluated on every grid of a call sequence that shares ONE pp.Tpsa object.
_A2 = [[1, 0.4, 0], [0.2, 1.1, 0], [0, 0, 1]]
_A3 = [[1, 0.3, 0.1], [0, 1, 0.2], [0.1, 0, 1.2]]


def history_specs(pp, rng, quick):
    """-> list of (class name, reuse mode, [grid spec, ...]).  Classes:
    equal-counts    grids of equal dimension, cell count and face count but different connectivity (n permuted), in both orders and
                    returning to the first grid; every grid unperturbed / node-perturbed / affine image (seeded)
    same-topology   one topology with different geometry (other extent, perturbed, affine image)
    sizes-dims      grids of different size, kind and dimension (2-D -> 3-D -> 2-D)
    rediscretize    one grid object and one data dictionary, Lame parameters and boundary layout changed between the calls
    same-arguments  the identical call repeated with the same grid, data dictionary, boundary-condition and stiffness objects"""
    def S(kind, n, phys=None):
        phys = [rng.choice((1.0, 1.5, 2.0)) for _ in n] if phys is None else phys
        return {"kind": kind, "n": list(n), "phys": [float(p) for p in phys], "nodes": None, "pert": 0}

    def V(s):  # seeded geometric variant of the same topology
        r = rng.random()
        if r < 0.4:
            return s
        if r < 0.8:
            return perturbed(pp, rng, s, rng.choice((0.1, 0.2))) or s
        return sheared(pp, s, _A3 if len(s["n"]) == 3 else _A2)

    pairs = [("cart", [2, 3], [3, 2]), ("tri", [2, 3], [3, 2]), ("cart", [1, 2, 3], [3, 1, 2]), ("tet", [1, 1, 2], [2, 1, 1])]
    if not quick:
        pairs += [("cart", [1, 4], [4, 1]), ("cart", [2, 5], [5, 2]), ("cart", [3, 4], [4, 3]), ("tri", [1, 3], [3, 1]),
                  ("tri", [2, 4], [4, 2]), ("cart", [2, 2, 3], [3, 2, 2]), ("cart", [1, 2, 3], [2, 3, 1]), ("cart", [1, 1, 2], [2, 1, 1]),
                  ("tet", [1, 2, 2], [2, 2, 1]), ("tet", [1, 2, 1], [1, 1, 2])]
    out = []
    for ip, (kind, na, nb) in enumerate(pairs):
        A, B = S(kind, na), S(kind, nb)
        if quick:  # alternating: A -> B (unperturbed) / B -> A -> B (seeded variants)
            out.append(("equal-counts", "none", [A, B] if ip % 2 == 0 else [V(B), V(A), V(B)]))
        else:
            out += [("equal-counts", "none", [A, B]), ("equal-counts", "none", [B, A]), ("equal-counts", "none", [V(A), V(B), V(A)]),
                    ("equal-counts", "none", [V(B), V(A), V(B), V(A)])]
    topo = [("cart", [3, 2]), ("tet", [1, 1, 2])] if quick else [("cart", [3, 2]), ("cart", [4, 4]), ("tri", [2, 2]), ("tri", [3, 2]),
                                                                 ("cart", [2, 2, 2]), ("tet", [1, 1, 2]), ("tet", [2, 1, 1])]
    for kind, n in topo:
        s = S(kind, n)
        out.append(("same-topology", "none", [s, perturbed(pp, rng, s, 0.2) or s, sheared(pp, s, _A3 if len(n) == 3 else _A2),
                                             S(kind, n, [2.0 * p for p in s["phys"][::-1]])]))
    out.append(("sizes-dims", "none", [S("cart", [3, 3]), V(S("cart", [4, 2])), S("cart", [2, 2, 2]), V(S("tri", [2, 2])), S("cart", [3, 3])]))
    if not quick:
        out.append(("sizes-dims", "none", [V(S("tet", [1, 1, 1])), S("cart", [1, 1]), V(S("tri", [3, 2])), V(S("cart", [2, 1, 2])),
                                          V(S("tet", [2, 1, 1])), S("cart", [5, 4]), S("tet", [1, 1, 1])]))
        out.append(("sizes-dims", "none", [S("cart", [5, 4]), S("cart", [2, 2]), V(S("cart", [3, 2, 2])), V(S("cart", [1, 1, 1])),
                                          V(S("tri", [1, 1])), V(S("tri", [4, 3]))]))
    for kind, n in ([("tri", [2, 2]), ("cart", [2, 1, 2])] if quick else [("cart", [3, 2]), ("tri", [2, 2]), ("tri", [3, 2]),
                                                                         ("cart", [2, 1, 2]), ("tet", [1, 1, 2])]):
        s = V(S(kind, n))
        out.append(("rediscretize", "data", [s] * (3 if quick else 5)))
        out.append(("same-arguments", "args", [s] * 2))
    return out


def history_steps(pp, rng, reuse, specs):
    """Seeded Lame pair and boundary layout (any of the face-wise / component-wise classes of bc_layouts) for every call."""
    steps = []
    for k, s in enumerate(specs):
        g = build_grid(pp, s)
        if not cells_valid(g):
            return None
        if reuse == "args" and steps:
            steps.append(dict(steps[-1], reuse="args"))
            continue
        lname, layout = rng.choice(bc_layouts(rng, g.get_all_boundary_faces().size, 1, nd=g.dim))
        _, mu, lam = rng.choice(LAME)
        steps.append({"grid": s, "mu": mu, "lam": lam, "layout": layout, "lname": lname, "reuse": reuse if k else "none"})
    return steps


def evaluate_history(pp, steps):
    """All calls of ``steps`` with ONE pp.Tpsa object, in this order; clauses (1), (2a), (2b) after every call.
    -> per step (list of (obligation, detail), info)."""
    discr = pp.Tpsa(KW)
    prev, out = None, []
    for st in steps:
        kw, info = {}, {}
        if st["reuse"] in ("data", "args") and prev is not None and prev[0]["grid"] == st["grid"] and "g" in prev[1]:
            kw = {"g": prev[1]["g"], "data": prev[1]["data"]}
            if st["reuse"] == "args" and all(prev[0][k] == st[k] for k in ("mu", "lam", "layout")):
                kw["args"] = prev[1]["args"]
        res = evaluate(pp, st["grid"], st["mu"], st["lam"], st["layout"], info, discr=discr, **kw)
        out.append((res, info))
        prev = (st, info)
    return out


def _grid_name(spec):
    pert = "" if spec["pert"] == 0 else (" affine" if spec["pert"] == "affine" else f" perturbed {spec['pert']}")
    return f"{spec['kind']}{spec['n']}x{spec['phys']}{pert}"


def history_violations(pp, steps, i, res):
    """Violated clauses ``res`` of call ``i`` of the history -> (obligation, detail) list.  The oracle is the translation in both runs; the
    all-fresh control run only decides under which obligation the failure is reported (history dependence or the plain clause)."""
    st = steps[i]
    fresh = evaluate(pp, st["grid"], st["mu"], st["lam"], st["layout"])
    if fresh:
        return res  # fails without any history as well: the plain clauses
    before = " -> ".join(_grid_name(s["grid"]) for s in steps[:i]) or "-"
    how = {"none": "new grid object, new data dictionary", "data": "grid object and data dictionary of the previous call, parameters replaced",
           "args": "grid object, data dictionary, bc and stiffness objects of the previous call"}[st["reuse"]]
    return [(O_HIST, f"call {i + 1} of one pp.Tpsa object on {_grid_name(st['grid'])} ({how}; earlier calls: {before}) violates '{ob}': "
                     f"{detail}; the same case with a fresh pp.Tpsa object and fresh arguments satisfies all clauses")
            for ob, detail in res]


def run(rep):
    import os

    os.environ.setdefault("NUMBA_NUM_THREADS", "4")
    import porepy as pp

    rep.under_contract("pp.Tpsa.discretize")
    rep.trust("assembly recipe of the Tpsa class docstring (block layout, A = div*face - accum, b = -div*rhs*u_b)",
              "grid geometry / divergence operators (C19/C21)", "numpy.linalg.solve")
    rep.assume("Neumann data for a translation is zero traction (per component on component-wise mixed faces); at least one Dirichlet "
               "component; the solve clause additionally requires a regular system (cond < 1e8)")
    quick = rep.tier == "quick"
    rng = rep.rng
    with rep.sweep(
        "tpsa translation invariance",
        rule="grids {Cartesian, structured triangle/tetrahedral} x {unperturbed, seeded perturbation of all nodes at several rates, affine "
             "image} x Lame {(1,1),(2.5,0.3),(0.7,10)} x layouts {all Dirichlet, one Neumann face, one Dirichlet face, seeded per-face mixes "
             "with >=1 Dirichlet, component-wise mixed: one seeded rolling face (rest Dirichlet) / a seeded subset of faces Dirichlet in one "
             "seeded direction only (rest Dirichlet) / every component of every boundary face seeded independently}; per case the "
             "translation basis e_x,e_y(,e_z) = all translations by linearity; distinct by (grid, Lame, layout); non-trivial = "
             "perturbed/simplex grid or a Neumann face / component present",
        bound="2-D <= 5x4 cells, 3-D <= 3x2x2 hexahedra / 48 tetrahedra; perturbation <= 0.25 h; " + ("2" if quick else "5") + " random "
              "face-wise layouts; component-wise: " + ("per grid each of the 3 layout classes once, each with a different Lame pair"
                                                       if quick else "single rolling face, subset and 4 random layouts for every Lame pair"),
        exhaustive=False,
    ) as sw:
        n_singular = n_comp = n_comp_regular = 0
        for ig, spec in enumerate(grid_specs(pp, rng, quick)):
            g = build_grid(pp, spec)
            if not cells_valid(g):
                sw.skip()
                continue
            nb = g.get_all_boundary_faces().size
            for il, (tname, mu, lam) in enumerate(LAME):
                # quick: per grid each of the three component-wise layout classes once, each with a different Lame pair (rotating
                # with the grid index); thorough: all component-wise layouts for every Lame pair
                for lname, layout in bc_layouts(rng, nb, 2 if quick else 5, nd=g.dim, comp_only=(il + ig) if quick else None,
                                                n_comp_random=1 if quick else 4):
                    key = (spec["kind"], tuple(spec["n"]), str(spec["pert"]), hash(str(spec["nodes"])), tname, layout)
                    trivial = spec["kind"] == "cart" and spec["pert"] == 0 and lname == "all-dir"
                    info = {}
                    res = evaluate(pp, spec, mu, lam, layout, info)
                    if not info.get("regular", True):
                        n_singular += 1
                    if lname.startswith("comp-"):
                        n_comp += 1
                        n_comp_regular += bool(info.get("regular", False))
                    sw.case(key, nontrivial=not trivial,
                            sample={"grid": {k: v for k, v in spec.items() if k != "nodes"}, "lame": [mu, lam], "layout": layout,
                                    "system_regular": info.get("regular")})
                    for ob, detail in res:
                        rep.violation(ob, _signature(spec, lname), inputs={"grid": spec, "mu": mu, "lam": lam, "layout": layout},
                                      detail=detail, confirmed=True)
        rep.extra["cases_with_singular_system_solve_clause_not_applicable"] = n_singular
        rep.extra["cases_with_component_wise_mixed_faces"] = n_comp
        rep.extra["cases_with_component_wise_mixed_faces_and_regular_system"] = n_comp_regular

    with rep.sweep(
        "tpsa translation invariance on every call of a reused Tpsa object",
        rule="call histories of ONE pp.Tpsa object, clauses (1), (2a), (2b) evaluated after every call against the translation: "
             "{equal-counts: grids of equal dimension / cell count / face count and different connectivity (Cartesian, triangle, hexahedral, "
             "tetrahedral with permuted n) in both orders and returning to the first grid | same-topology: one topology, extent changed / "
             "nodes perturbed / affine image | sizes-dims: grids of different size, kind and dimension (2-D -> 3-D -> 2-D) | rediscretize: one "
             "grid object and data dictionary, Lame pair and boundary layout replaced between the calls | same-arguments: identical call "
             "repeated with the same grid, dictionary, bc and stiffness objects}; per call a seeded Lame pair and a seeded layout from all "
             "face-wise / component-wise layout classes; non-trivial = second or later call",
        bound=("4 equal-count pairs, 2 topologies, 1 size sequence, 2 rediscretized grids; <= 5 calls per object" if quick else
               "14 equal-count pairs x 4 orders, 7 topologies, 3 size sequences, 5 rediscretized grids, each history with 3 seeded "
               "parameter draws; <= 7 calls per object") + "; grids <= 5x4 cells / 3x2x2 hexahedra / 24 tetrahedra",
        exhaustive=False,
    ) as sw:
        n_hist = n_later = 0
        for ih, (hname, reuse, specs) in enumerate(history_specs(pp, rng, quick)):
            for rep_i in range(1 if quick else 3):
                steps = history_steps(pp, rng, reuse, specs)
                if steps is None:
                    sw.skip()
                    continue
                n_hist += 1
                clean = [{k: v for k, v in st.items() if k != "lname"} for st in steps]
                for i, (res, info) in enumerate(evaluate_history(pp, clean)):
                    st = steps[i]
                    n_later += i > 0
                    sw.case((hname, ih, rep_i, i, st["mu"], st["lam"], st["layout"]), nontrivial=i > 0,
                            sample={"history": hname, "call": i + 1, "grids": [_grid_name(s["grid"]) for s in steps[:i + 1]],
                                    "lame": [st["mu"], st["lam"]], "layout": st["layout"], "reuse": st["reuse"],
                                    "system_regular": info.get("regular")})
                    if res:
                        for ob, detail in history_violations(pp, clean, i, res):
                            rep.violation(ob, f"{hname} call {i + 1}: " + _signature(st["grid"], st["lname"]),
                                          inputs={"history": clean[:i + 1]}, detail=detail, confirmed=True)
        rep.extra["call_histories_of_one_tpsa_object"] = n_hist
        rep.extra["cases_on_second_or_later_call_of_a_tpsa_object"] = n_later


def replay(data):
    import porepy as pp

    inp = data["inputs"]
    if "history" in inp:
        steps = inp["history"]
        res = evaluate_history(pp, steps)[-1][0]
        bad = history_violations(pp, steps, len(steps) - 1, res) if res else []
        for b in bad:
            print("replay:", b)
        return bool(bad)
    bad = evaluate(pp, inp["grid"], inp["mu"], inp["lam"], inp["layout"])
    for b in bad:
        print("replay:", b)
    return bool(bad)
