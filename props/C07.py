"""C07 — Schur complement reduction reproduces the full solution.

Tier P : matrix-algebra level.  The real assemble_schur_complement_system and expand_schur_complement_solution run on
         *abstract* operators (non-commutative symbols: no entry and no size is ever inspected, so the argument holds for
         every block size).  The assembly of single equations, the equation parsing and the projections are modular stubs
         (their contracts are C05/C06); the inverter is a stub with A_ss * X = I.  Postcondition from the statement: for any
         x_p with S x_p = rhs_S, the expanded vector X satisfies A_p X = b_p and A_s X = b_s, i.e. the full linearised
         system (decided by non-commutative expansion in sympy).
Tier B : seeded linear and nonlinear systems on small md-grids with admissible primary/secondary splits (whole equations
         and grid-restricted primary equations, permuted block-diagonal secondary blocks through the default inverter and a
         dense inverter): reduced solve + expansion equals the solve of the full linearised system.
"""
from __future__ import annotations

META = {
    "level": "other",
    "engine": "pse",
    "technique": "contract-based deductive verification at matrix-algebra level: the real Schur-complement assembly and expansion executed on abstract non-commutative operators, the full-system equations derived by symbolic expansion (sympy); numeric sweep through the real sparse code and default inverter as bounded stand-in",
    "text": "Tier P: for all block sizes, with the secondary block invertible, the reduced system and the expansion formula reproduce a solution of the "
            "full linearised system (algebraic identity over abstract operators; equation parsing, single-equation assembly and projections are stubs whose "
            "contracts are C05/C06). Tier B: numeric systems incl. grid-restricted primary equations and the default block-diagonal inverter. Mixed tiers -> 'other'.",
    "note": "non-commutative ring axioms as implemented by sympy's expand; projections satisfy P_p^T / P_s^T column selection (C05); inverter numerics are C37; "
            "the sweep takes all splits of a generated system one after the other on the same EquationSystem, over two rounds (stored iterate / explicit "
            "state), assembling and expanding twice each, so that state left behind by one reduction (cached permutation of the default inverter, stored "
            "reduction) is exercised",
}

import itertools
import warnings

import numpy as np
import scipy.sparse as sps


# ----------------------------------------------------------------------------- tier P: abstract operators


def _algebra_case(pp, restricted):
    """returns list of (name, ok: bool, detail)"""
    import sympy as sp

    class Op:
        """abstract matrix / vector: supports only the ring operations, transpose and a square 'shape' query"""

        def __init__(self, e):
            self.e = e

        def __mul__(self, o):
            return Op(self.e * (o.e if isinstance(o, Op) else o))

        __matmul__ = __mul__

        def __rmul__(self, o):
            return Op((o.e if isinstance(o, Op) else o) * self.e)

        def __add__(self, o):
            return Op(self.e + o.e)

        def __sub__(self, o):
            return Op(self.e - o.e)

        def __neg__(self):
            return Op(-self.e)

        # in-place operators mutate the operand, as they do for numpy arrays and scipy matrices
        def __isub__(self, o):
            self.e = self.e - o.e
            return self

        def __iadd__(self, o):
            self.e = self.e + o.e
            return self

        def __imul__(self, o):
            self.e = self.e * (o.e if isinstance(o, Op) else o)
            return self

        def transpose(self):
            return Op(sp.Symbol(str(self.e) + "T", commutative=False))

        @property
        def shape(self):
            return (1, 1)  # only compared for squareness of A_ss (the statement's hypothesis)

        def __getitem__(self, k):
            return Op(sp.Symbol(f"{self.e}[{k}]", commutative=False))

        @property
        def size(self):
            return 0

    nc = lambda n: sp.Symbol(n, commutative=False)
    es = pp.ad.EquationSystem.__new__(pp.ad.EquationSystem)
    A = {"p": Op(nc("A_p")), "s": Op(nc("A_s")), "px": Op(nc("A_px"))}
    b = {"p": Op(nc("b_p")), "s": Op(nc("b_s")), "px": Op(nc("b_px"))}
    es._equations = {"p": None, "s": None}
    es._variables = {1: "vp", 2: "vs"}
    es._Schur_complement = None
    es._secondary_block_permutation = {}
    idx_p = "rows" if restricted else None
    es._parse_equations = lambda eqs: {"p": idx_p}
    es._gridbased_equation_complement = lambda rows: {"p": "rest" if restricted else None}
    es._parse_variable_type = lambda v: ["vp"]
    PP, PS = Op(nc("P_p")), Op(nc("P_s"))

    def projection_to(vs):
        P = PP if list(vs) == ["vp"] else PS

        class Proj:
            shape = (1, 1)

            def transpose(self_inner):
                return Op(nc(str(P.e) + "T"))

        return Proj()

    es.projection_to = projection_to
    calls = []
    states = []
    STATE = object()

    def assemble(equations=None, state=None, **k):
        calls.append(tuple(equations))
        states.append(state)
        key = equations[0]

        class Sliceable(Op):
            def __getitem__(self_inner, kk):
                return A["p"] if kk == "rows" else A["px"]

        class SliceV(Op):
            def __getitem__(self_inner, kk):
                return b["p"] if kk == "rows" else b["px"]

        if key == "p" and restricted:
            return Sliceable(nc("A_p_all")), SliceV(nc("b_p_all"))
        return A[key], b[key]

    es.assemble = assemble
    inv = Op(nc("Inv"))
    stacked = {}

    def vstack(mats, format=None):
        if len(mats) == 1:
            return mats[0]
        o = Op(nc("vstack(" + ",".join(str(m.e) for m in mats) + ")"))
        stacked[str(o.e)] = mats
        return o

    def concat(vs, *a, **k):
        if len(vs) == 1:
            return vs[0]
        o = Op(nc("concat(" + ",".join(str(v.e) for v in vs) + ")"))
        stacked[str(o.e)] = vs
        return o

    import porepy.numerics.ad.equation_system as esmod

    old_vs, old_cc, old_ar = esmod.sps.vstack, esmod.np.concatenate, esmod.np.arange
    esmod.sps.vstack, esmod.np.concatenate = vstack, concat
    esmod.np.arange = lambda *a, **k: _Idx()
    try:
        S, rhs = pp.ad.EquationSystem.assemble_schur_complement_system(es, ["p"], ["vp"], inverter=lambda M: inv, state=STATE)
        xp = Op(nc("x_p"))
        stored = [(o, o.e) for o in es._Schur_complement if isinstance(o, Op)]
        given = [(o, o.e) for o in list(A.values()) + list(b.values()) + [inv, S, rhs, xp]]
        X = pp.ad.EquationSystem.expand_schur_complement_solution(es, xp)
        frame_ok = all(o.e == e0 for o, e0 in stored + given)
        X2 = pp.ad.EquationSystem.expand_schur_complement_solution(es, xp)
    finally:
        esmod.sps.vstack, esmod.np.concatenate, esmod.np.arange = old_vs, old_cc, old_ar
    out = []
    PpT, PsT = nc("P_pT"), nc("P_sT")
    if not restricted:
        Ap, As, bp, bs = A["p"].e, A["s"].e, b["p"].e, b["s"].e
        sec_rows = [(As, bs)]
    else:
        Ap, bp = A["p"].e, b["p"].e
        # secondary rows: the excluded rows of the primary equation, then the secondary equation (stacked)
        sec_rows = [(A["px"].e, b["px"].e), (A["s"].e, b["s"].e)]
    # hypothesis of the statement: A_ss * Inv = I for the (stacked) secondary block; S x_p = rhs_S
    res_p = sp.expand(Ap * X.e - bp)
    hyp = sp.expand(S.e * xp.e - rhs.e)
    out.append(("primary rows of the full system hold for the expanded solution: A_p X - b_p == S x_p - rhs_S (== 0)", sp.expand(res_p - hyp) == 0, str(sp.expand(res_p - hyp))[:300]))
    if not restricted:
        As, bs = sec_rows[0]
        res_s = sp.expand(As * X.e - bs)
        res_s = res_s.subs(As * PsT * inv.e, 1)
        out.append(("secondary rows of the full system hold for the expanded solution (using A_ss Inv = I)", sp.expand(res_s) == 0, str(sp.expand(res_s))[:300]))
    else:
        # with stacked secondary rows the code's A_s is the abstract vstack; its use is checked structurally:
        names = [k for k in stacked]
        ok = any(("A_px" in k and "A_s" in k and k.index("A_px") < k.index("A_s")) for k in names) and any(("b_px" in k and "b_s" in k) for k in names)
        out.append(("grid-restricted primary equation: the excluded rows join the secondary block (before the secondary equations), with their right-hand side", ok, str(names)))
        Asn = [k for k in names if k.startswith("vstack")]
        if Asn:
            Ass = nc(Asn[0])
            bsn = [k for k in names if k.startswith("concat")]
            res_s = sp.expand(Ass * X.e - nc(bsn[0])).subs(Ass * PsT * inv.e, 1) if bsn else None
            out.append(("secondary rows (stacked) hold for the expanded solution (using A_ss Inv = I)", res_s is not None and sp.expand(res_s) == 0, str(res_s)[:300]))
    out.append(("every equation is assembled exactly once, one equation per call", sorted(calls) == sorted([("p",), ("s",)]), str(calls)))
    out.append(("every single-equation assembly is evaluated at the state given by the caller", len(states) > 0 and all(st is STATE for st in states), str(states)))
    out.append(("frame: expand_schur_complement_solution leaves the stored reduction (inverse, b_s, A_sp, prolongations), the reduced system and its argument unchanged",
                frame_ok, "an operand was modified in place"))
    out.append(("expand_schur_complement_solution is repeatable: a second expansion of the same reduced solution gives the same vector", sp.expand(X2.e - X.e) == 0,
                str(sp.expand(X2.e - X.e))[:300]))
    # canary: with a wrong sign in the expansion the primary identity must fail
    Xbad = sp.expand(PpT * xp.e - PsT * inv.e * (b["s"].e - A["s"].e * PpT * xp.e)) if not restricted else None
    if Xbad is not None:
        out.append(("CANARY", sp.expand(sp.expand(A["p"].e * Xbad - b["p"].e) - hyp) == 0, ""))
    return out


class _Idx:
    """stand-in for np.arange(size) row-index arrays in the abstract run (only sizes/offsets are computed from them)"""

    size = 0

    def __add__(self, o):
        return self

    __radd__ = __add__


# ----------------------------------------------------------------------------- tier B


def _build(pp, rng, which, nonlinear):
    fr = [np.array([[0.5, 0.5], [0.0, 1.0]]), np.array([[0.0, 1.0], [0.5, 0.5]])][:which]
    if which == 0:
        g = pp.CartGrid([3, 2])
        g.compute_geometry()
        mdg = pp.MixedDimensionalGrid()
        mdg.add_subdomains(g)
    else:
        mdg = pp.meshing.cart_grid(fr, np.array([2, 2]), physdims=np.array([1.0, 1.0]))
        mdg.compute_geometry()
    es = pp.ad.EquationSystem(mdg)
    sds = mdg.subdomains()
    p = es.create_variables("p", subdomains=sds)
    s = es.create_variables("s", subdomains=sds)
    t = es.create_variables("t", subdomains=sds)
    N = es.num_dofs()
    n = es.dofs_of([p]).size
    es.set_variable_values(np.array([rng.uniform(0.5, 1.5) for _ in range(N)]), iterate_index=0)

    def dense(nrows, ncols, diag=0.0):
        M = np.array([[rng.choice([0, 0, 0.3, -0.4]) for _ in range(ncols)] for _ in range(nrows)])
        if diag:
            M = M + diag * np.eye(nrows, ncols)
        return pp.ad.SparseArray(sps.csr_matrix(M))

    def vec():
        return pp.ad.DenseArray(np.array([rng.uniform(-1, 1) for _ in range(n)]))

    # primary equation: couples everything; secondary equations: local in s and t (diagonal blocks) but coupled to p
    eq_p = dense(n, n, 4.0) @ p + dense(n, n) @ s + dense(n, n) @ t - vec()
    d1 = pp.ad.DenseArray(np.array([rng.uniform(2, 3) for _ in range(n)]))
    d2 = pp.ad.DenseArray(np.array([rng.uniform(2, 3) for _ in range(n)]))
    c = pp.ad.DenseArray(np.array([rng.uniform(-0.3, 0.3) for _ in range(n)]))
    eq_s = d1 * s + c * t + dense(n, n) @ p - vec()
    eq_t = d2 * t - c * s + dense(n, n) @ p - vec()
    if nonlinear:
        # the s-t coupling of the secondary equations is bilinear and vanishes at the start values s = t = 0: the secondary block is
        # diagonal at the stored iterate and has 2x2 cell blocks at any later state
        vals = es.get_variable_values(iterate_index=0)
        vals[es.dofs_of([s, t])] = 0.0
        es.set_variable_values(vals, iterate_index=0)
        eq_p = eq_p + pp.ad.Scalar(0.1) * p * p
        eq_s = d1 * s + pp.ad.Scalar(0.3) * s * t + dense(n, n) @ p - vec() + pp.ad.Scalar(0.05) * s * s
        eq_t = d2 * t - pp.ad.Scalar(0.3) * s * t + dense(n, n) @ p - vec()
    for nm, e in (("eq_t", eq_t), ("eq_p", eq_p), ("eq_s", eq_s)):
        e.set_name(nm)
        es.set_equation(e, list(sds), {"cells": 1})
    return mdg, es, (p, s, t)


def _sweep(rep, pp):
    rng = rep.rng
    quick = rep.tier == "quick"
    with rep.sweep("Schur reduction vs full solve",
                   rule="md-grids with 0-2 fractures x linear / nonlinear seeded systems (3 variables, 3 equations set in mixed order) x splits: primary = {eq_p} with "
                        "{p}; primary = {eq_p, eq_s} with {p, s}; primary equation restricted to a subset of its grids with the primary variable on the same "
                        "grids; inverters: default (permuted block-diagonal) and dense; expanded solution compared with spsolve of the full system at 1e-9; "
                        "nontrivial = secondary block non-empty; distinct by (grid, system, split, inverter)", bound="2 (quick) / 20 (thorough) systems per grid and kind, each: 2 rounds x all splits x 2 inverters x 2 assemblies x 2 expansions on one EquationSystem",
                   exhaustive=False) as sw:
        import scipy.sparse.linalg as spla

        # The splits of one generated system are taken one after the other on the SAME EquationSystem object, over two Newton-like rounds
        # (round 0: stored iterate, with the s-t coupling of the nonlinear systems vanishing at the start values; round 1: an explicit
        # `state` different from the stored iterate); every assembly and every expansion is done twice.  Nothing is reset in between:
        # what a split leaves behind (cached permutation of the default inverter, stored reduction) must not affect the next one.
        for which in (0, 1, 2):
            for it in range(2 if quick else 20):
                for nonlinear in (False, True):
                    with warnings.catch_warnings():
                        warnings.simplefilter("ignore")
                        mdg, es, (p, s, t) = _build(pp, rng, which, nonlinear)
                    sds = mdg.subdomains()
                    N = es.num_dofs()
                    splits = [("eq_p | p", ["eq_p"], [p]), ("eq_p,eq_s | p,s", ["eq_p", "eq_s"], [p, s]), ("eq_s,eq_p | s,p (other order)", ["eq_s", "eq_p"], [s, p])]
                    if len(sds) > 1:
                        sub = sds[:1]
                        splits.append(("eq_p on the first subdomain | p on the first subdomain", {"eq_p": sub}, [v for v in p.sub_vars if v.domain in sub]))
                        sub2 = sds[1:]
                        splits.append(("eq_p on all but the first subdomain | p on the same subdomains", {"eq_p": sub2}, [v for v in p.sub_vars if v.domain in sub2]))
                    for rnd in (0, 1):
                        state = None if rnd == 0 else np.array([rng.uniform(0.5, 1.5) for _ in range(N)])
                        with warnings.catch_warnings():
                            warnings.simplefilter("ignore")
                            J, r = es.assemble(state=state)
                            xfull = spla.spsolve(sps.csc_matrix(J), r)
                        scale = 1 + np.max(np.abs(xfull))
                        for desc, peq, pvar in splits:
                            for invname in ("default", "dense"):
                                inv = None if invname == "default" else (lambda M: sps.csr_matrix(np.linalg.inv(M.toarray())))
                                sw.case((which, it, nonlinear, rnd, desc, invname), True,
                                        sample={"grid": which, "nonlinear": nonlinear, "round": rnd, "split": desc, "inverter": invname})
                                inp = {"grid": which, "nonlinear": nonlinear, "round": rnd, "explicit_state": state is not None, "split": desc, "inverter": invname,
                                       "seed": rep.seed, "history": "all earlier splits / rounds on the same EquationSystem"}
                                sig = desc.split("|")[0].strip() + ("" if rnd == 0 else " (explicit state, after earlier assemblies)")
                                for rep_no in (0, 1):
                                    try:
                                        with warnings.catch_warnings():
                                            warnings.simplefilter("ignore")
                                            kw = {"state": state} if state is not None else {}
                                            if inv:
                                                kw["inverter"] = inv
                                            S, rhs = es.assemble_schur_complement_system(peq, pvar, **kw)
                                            xp = spla.spsolve(sps.csc_matrix(S), rhs) if S.shape[0] > 1 else np.atleast_1d(rhs / S.toarray()[0, 0])
                                            X = es.expand_schur_complement_solution(np.atleast_1d(xp).copy())
                                            X_again = es.expand_schur_complement_solution(np.atleast_1d(xp).copy())
                                    except Exception as e:  # noqa
                                        rep.violation("Schur reduction: admissible splits assemble, solve and expand",
                                                      f"{sig}{' [repeated assembly]' if rep_no else ''}: raises {type(e).__name__}", inputs=inp, detail=str(e)[:200])
                                        break
                                    for XX, what in ((X, ""), (X_again, " [second expansion of the same reduced solution]")):
                                        if XX.shape != xfull.shape or not np.allclose(XX, xfull, rtol=1e-8, atol=1e-9 * scale):
                                            rep.violation("Schur reduction: expanded reduced solution equals the solution of the full linearised system",
                                                          sig + (" [repeated assembly]" if rep_no else "") + what, inputs=inp,
                                                          detail=f"max diff {np.max(np.abs(XX - xfull)) if XX.shape == xfull.shape else 'shape'}")
                            # NOTE: assembled_equation_indices after the Schur assembly is not part of the statement (it is overwritten by the
                            # assembly of the secondary equations in the current code) and is deliberately not constrained here.


def replay(data):
    return False


def run(rep):
    import porepy as pp

    rep.under_contract("EquationSystem.assemble_schur_complement_system", "EquationSystem.expand_schur_complement_solution", "EquationSystem.default_schur_complement_inverter (tier B)",
                       "EquationSystem._gridbased_equation_complement (tier B)")
    rep.assume("requires: the secondary block is square and invertible (the statement's hypothesis); stubs in tier P: _parse_equations, _parse_variable_type, "
               "projection_to (C05 contract: column selections P_p^T, P_s^T), assemble of a single equation (C06 contract), sps.vstack / np.concatenate as abstract stacking")
    import time

    for restricted in (False, True):
        t0 = time.time()
        try:
            res = _algebra_case(pp, restricted)
        except Exception as e:  # noqa
            rep.fallbacks.append({"case": f"algebra restricted={restricted}", "reason": f"{type(e).__name__}: {e}"})
            rep.note(f"proof not re-established for the matrix-algebra case (restricted={restricted}): {type(e).__name__}: {str(e)[:200]}")
            continue
        dt = time.time() - t0
        for name, ok, detail in res:
            label = f"schur algebra ({'grid-restricted primary equation' if restricted else 'whole equations'}): {name}"
            if name == "CANARY":
                rep.canary(label, not ok)
                continue
            rep.obligation(label, "discharged" if ok else "refuted", "P", "sympy-noncommutative-expand", dt / max(1, len(res)), detail=None if ok else detail)
            if not ok:
                rep.violation(label, "matrix algebra", inputs=None, detail=f"residual does not vanish: {detail}", confirmed=False, solver_output=detail)
    _sweep(rep, pp)
