"""C24 -- the mixed-dimensional grid container stays consistent under any history.

Tier B, exhaustive small scope.  The real ``pp.MixedDimensionalGrid`` is driven through every admissible
operation sequence (``add_subdomains`` / ``add_interface`` / ``remove_subdomain`` /
``replace_subdomains_and_interfaces``) up to length 5 (quick) / 6 (thorough) over a pool of real tiny grids
(two 2-D, two 1-D, two 0-D ``PointGrid``; twelve real ``pp.MortarGrid`` interfaces, one per admissible pair,
co-dimension 1 and 2; the real mortar updates run on every replacement).  After EVERY operation the complete observable view of the container (all listings with
all filters, both pair maps, boundary-grid map, membership, neighbour queries, counters; plus the internal-map
invariant when the private dictionaries exist) is compared with an independent set/dict model that is updated from
the property statement only.

Pruning (stated in the evidence): only admissible operations are generated in each state; an operation that
provably leaves the container untouched (mortar-only replacement) is checked but not descended through; and two
histories that lead to the same *concrete* state (same objects, same insertion orders, same interface->pair
assignment) share their continuation, i.e. every distinct (concrete state, operation) transition is executed and
checked exactly once (breadth first, so at the largest remaining depth).  The number of histories represented is
counted from the model.  A seeded sample of full-length histories is additionally replayed on one single
container object (no ``copy()`` in between) as a cross-check of that sharing.

Detection power (scratch copy of /repo/src with the four candidate defects below repaired so that the baseline exits 0,
POREPY_SRC=<copy>, quick tier; every mutant run exited 1 with VIOLATION lines):
  M1 md_grid.argsort_grids: ``np.argsort(ids_dim)`` -> ``np.arange(len(ids_dim))`` (no sorting by id)
       caught by "listing: subdomains() sorted by (-dim, id), each present object once" (+ 30 dependent clauses)
  M2 md_grid.remove_subdomain: ``sd_pair[0] == sd or sd_pair[1] == sd`` -> ``sd_pair[0] == sd`` (interfaces whose lower-
       dimensional side is removed survive)
       caught by "remove_subdomain: removes exactly sd, its interfaces, its boundary grid", "listing: interfaces() ...", counters
  M3 md_grid.replace_subdomains_and_interfaces: secondary branch stores ``(sd_new, sd_pair[0])`` (pair stored lower-first)
       caught only by "class invariant: internal maps consistent" (the public pair query re-sorts the pair)
  M4 md_grid.add_subdomains: boundary grid created for ``sd.dim > 1`` only
       caught by "boundary grids: exactly one per positive-dimensional subdomain"
  M5 md_grid.replace_subdomains_and_interfaces: ``del self._boundary_grid_data[bg_old]`` dropped
       caught by "listing: boundaries() sorted, each present boundary grid once", membership, class invariant
  M6 md_grid.replace_subdomains_and_interfaces: primary branch stores ``(sd_old, sd_pair[1])`` (pair not updated)
       caught by "interface_to_subdomain_pair: (higher, lower) pair of every present interface",
       "subdomain_pair_to_interface: inverse of interface_to_subdomain_pair", neighbour queries

Candidate defects of the unchanged tree found by this check (kept strict; reported to the lead):
  * remove_subdomain(0-d grid) raises KeyError (no boundary-grid entry)            signature "remove 0-d subdomain"
  * replace_subdomains_and_interfaces({0-d: 0-d}) raises KeyError likewise         signature "replace 0-d subdomain"
    (in both cases the container is left in the correct post-state; only "raises nothing" fails)
  * add_interface with a co-dimension-3 pair raises ValueError AFTER registering the interface: it stays listed without a pair
  * add_subdomains(one-shot iterator) silently adds nothing (the iterable is consumed by the duplicate check)
"""
from __future__ import annotations

META = {
    "level": "exploration",
    "engine": "sweep",
    "technique": "run-time contract sweep (bounded stand-in for deduction): exhaustive small-scope exploration of operation "
                 "histories of the real MixedDimensionalGrid against an independent set/dict model; class invariant and "
                 "per-operation postconditions evaluated on the full observable view after every operation",
    "text": "Bounded (tier B): all admissible histories of add_subdomains/add_interface/remove_subdomain/"
            "replace_subdomains_and_interfaces up to length 5 (quick) / 6 (thorough) over a pool of six real grids (2x2-D, 2x1-D, "
            "2x0-D) and twelve real MortarGrid interfaces (co-dimension 1 and 2) are covered through every distinct (concrete "
            "state, operation) transition; after each one the whole observable view is compared with a model written from the "
            "statement. Not covered: 3-D subdomains in histories (only in the rejected-operation cases), same-dimension "
            "(co-dimension 0) interfaces, replacing the higher-dimensional side of a co-dimension-2 interface (unsupported by "
            "MortarGrid), histories longer than the bound. No claim for all histories: exploration level.",
    "note": "assumes the container's behaviour is a function of its concrete state (objects, insertion orders, pair "
            "assignment) when sharing continuations between histories; cross-checked by replaying a seeded sample of full "
            "histories on one container without copy(); MixedDimensionalGrid.copy() (shallow) is used to branch; all same-"
            "dimensional pool grids are geometric copies so that the real mortar updates triggered by replacement are valid",
}

import itertools

# ----------------------------------------------------------------------------- the pool

LABELS = ("A", "B", "a", "b", "p", "q")
DIM = {"A": 2, "B": 2, "a": 1, "b": 1, "p": 0, "q": 0}
PAIRS = tuple((h, l) for h in LABELS for l in LABELS if DIM[h] > DIM[l])  # 12 admissible (higher, lower) pairs
LISTS = (("A", "a", "p"), ("q", "b", "B"))  # list-form additions: a list and a tuple, mixed dimensions, incl. 0-d


class Pool:
    """Real porepy objects.  Same-dimensional grids are geometric copies of each other (so every replacement is
    geometrically valid for the real mortar updates); ids are deliberately not aligned with the label order."""

    def __init__(self, pp):
        import numpy as np
        import scipy.sparse as sps

        MS = pp.grids.mortar_grid.MortarSides
        self.pp = pp
        # 2x2 Cartesian grid with one fracture from the boundary (0,1) to the interior tip (1,1)
        mdg0 = pp.meshing.cart_grid([np.array([[0.0, 1.0], [1.0, 1.0]])], np.array([2, 2]))
        A = mdg0.subdomains(dim=2)[0]
        a = mdg0.subdomains(dim=1)[0]
        fc_2_1 = mdg0.interface_data(mdg0.interfaces()[0])["face_cells"].copy()
        pt = np.array([1.0, 1.0, 0.0])
        q = pp.PointGrid(pt.copy())
        q.compute_geometry()
        b = a.copy()
        p = pp.PointGrid(pt.copy())
        p.compute_geometry()
        B = A.copy()
        self.g = {"A": A, "B": B, "a": a, "b": b, "p": p, "q": q}
        self.label_of = {id(v): k for k, v in self.g.items()}
        tip = int(np.where(a.tags["tip_faces"])[0][0])
        fc_1_0 = sps.csc_matrix((np.ones(1, dtype=bool), ([0], [tip])), shape=(1, a.num_faces))
        cell = int(np.argmin(np.sum((A.cell_centers - pt.reshape((3, 1))) ** 2, axis=0)))
        fc_2_0 = sps.csc_matrix((np.ones(1, dtype=bool), ([0], [cell])), shape=(1, A.num_cells))
        self.intf = {}
        self.fc = {}
        self.sides = {}
        self.flip = {}
        # creation order scrambled so that interface ids are not aligned with PAIRS order
        order = [PAIRS[i] for i in (7, 2, 11, 0, 5, 9, 4, 1, 10, 3, 8, 6)]
        for n, pr in enumerate(order):
            h, l = pr
            if DIM[h] == 2 and DIM[l] == 1:
                sides = {MS.LEFT_SIDE: self.g[l].copy(), MS.RIGHT_SIDE: self.g[l].copy()}
                mg = pp.MortarGrid(1, sides, fc_2_1)
                fc = fc_2_1
            elif DIM[h] == 1:
                sides = {MS.LEFT_SIDE: self.g[l].copy()}
                mg = pp.MortarGrid(0, sides, fc_1_0)
                fc = fc_1_0
            else:
                sides = {MS.LEFT_SIDE: self.g[l].copy()}
                mg = pp.MortarGrid(0, sides, fc_2_0, codim=2)
                fc = fc_2_0
            self.intf[pr] = mg
            self.fc[pr] = fc
            # replacement side grids: dict form for even, a ready MortarGrid for odd creation index
            new_sides = {k: v.copy() for k, v in sides.items()}
            self.sides[pr] = new_sides if n % 2 == 0 else pp.MortarGrid(mg.dim, new_sides, codim=mg.codim)
            self.flip[pr] = n % 2 == 1  # pair handed to add_interface as (lower, higher) for odd ones
        self.ilabel_of = {id(v): k for k, v in self.intf.items()}

    def gid(self, l):
        return self.g[l].id

    def name(self, obj):
        if id(obj) in self.label_of:
            return self.label_of[id(obj)]
        if id(obj) in self.ilabel_of:
            return "I" + "".join(self.ilabel_of[id(obj)])
        return type(obj).__name__ + "#" + str(getattr(obj, "id", "?"))


# ----------------------------------------------------------------------------- the model (oracle, from the statement)


class Model:
    """Which subdomains / interfaces / boundary grids should be present.  Insertion orders are kept only to
    identify concrete states; the expected *answers* never depend on them."""

    def __init__(self):
        self.S = ()  # labels in insertion order
        self.I = ()  # (interface label, (higher, lower)) in insertion order
        self.BG = {}  # label -> boundary grid object (observed when it first appears)
        self.dead_bg = ()
        self.data = {}  # label -> data dict object observed at insertion

    def copy(self):
        m = Model()
        m.S, m.I, m.dead_bg = self.S, self.I, self.dead_bg
        m.BG = dict(self.BG)
        m.data = dict(self.data)
        return m

    def key(self):
        return (self.S, self.I)

    def pairs(self):
        return {v for _, v in self.I}

    def admissible(self, combined=True):
        """``combined``: also generate the call form that replaces a grid and a mortar grid in one call.  requires of each operation, from the docstrings: new grids absent; interface absent, both grids present,
        pair not yet coupled; removed/replaced grid present, replacement absent and of the same dimension; the
        higher-dimensional side of a co-dimension-2 interface cannot be replaced (MortarGrid supports updates for
        co-dimension 1 only)."""
        S, out = set(self.S), []
        names = {k for k, _ in self.I}
        cur = self.pairs()
        for g in LABELS:
            if g not in S:
                out.append(("add", g))
        for n, L in enumerate(LISTS):
            if not any(g in S for g in L):
                out.append(("addl", n))
        for pr in PAIRS:
            if pr not in names and pr[0] in S and pr[1] in S and pr not in cur:
                out.append(("addi", pr))
        for g in self.S:
            out.append(("rm", g))
        reps = []
        for g in self.S:
            for h in LABELS:
                if h not in S and h != g and DIM[h] == DIM[g]:
                    if any(c[0] == g and DIM[c[0]] - DIM[c[1]] == 2 for c in cur):
                        continue
                    reps.append((g, h))
                    out.append(("rep", g, h))
        # simultaneous replacement of a 2-d and a 1-d grid in one call
        for (g, h), (u, v) in itertools.combinations(reps, 2):
            if DIM[g] == 2 and DIM[u] == 1:
                out.append(("repm", g, h, u, v))
        # subdomain and mortar replaced in the same call
        for g, h in reps if combined else ():
            if DIM[g] == 2:
                inc = sorted(k for k, v in self.I if v[0] == g and DIM[v[1]] == 1)
                if inc:
                    out.append(("repc", g, h, inc[0]))
        for k, _ in self.I:
            out.append(("repi", k))
        return out

    def apply(self, op):
        """Post-state demanded by the statement."""
        k = op[0]
        if k == "add":
            self.S = self.S + (op[1],)
        elif k == "addl":
            self.S = self.S + LISTS[op[1]]
        elif k == "addi":
            self.I = self.I + ((op[1], op[1]),)
        elif k == "rm":
            self._drop(op[1])
            self.I = tuple((n, v) for n, v in self.I if op[1] not in v)
        elif k in ("rep", "repc"):
            self._replace(op[1], op[2])
        elif k == "repm":
            self._replace(op[1], op[2])
            self._replace(op[3], op[4])
        elif k == "repi":
            pass
        else:
            raise AssertionError(op)

    def _drop(self, g):
        self.S = tuple(x for x in self.S if x != g)
        if g in self.BG:
            self.dead_bg = self.dead_bg + (self.BG.pop(g),)
        self.data.pop(g, None)

    def _replace(self, g, h):
        self._drop(g)
        self.S = self.S + (h,)
        self.I = tuple((n, tuple(h if x == g else x for x in v)) for n, v in self.I)


def count_histories(depth, combined=True):
    """Number of admissible operation sequences of length 1..depth (model only, no sharing)."""
    memo = {}

    def cnt(m, r):
        key = (m.key(), r)
        if key in memo:
            return memo[key]
        tot = 0
        for op in m.admissible(combined):
            tot += 1
            if r > 1 and op[0] != "repi":
                c = Model()
                c.S, c.I = m.S, m.I
                c.apply(op)
                tot += cnt(c, r - 1)
        memo[key] = tot
        return tot

    return cnt(Model(), depth)


# ----------------------------------------------------------------------------- driving the real container

FN = {"add": "add_subdomains", "addl": "add_subdomains", "addi": "add_interface", "rm": "remove_subdomain",
      "rep": "replace_subdomains_and_interfaces", "repm": "replace_subdomains_and_interfaces",
      "repc": "replace_subdomains_and_interfaces", "repi": "replace_subdomains_and_interfaces"}


def signature(op):
    k = op[0]
    if k == "add":
        return f"add {DIM[op[1]]}-d subdomain"
    if k == "addl":
        return "add list of subdomains"
    if k == "addi":
        h, l = op[1]
        return f"add co-dimension {DIM[h] - DIM[l]} interface of dimension {DIM[l]}"
    if k == "rm":
        return f"remove {DIM[op[1]]}-d subdomain"
    if k == "rep":
        return f"replace {DIM[op[1]]}-d subdomain"
    if k == "repm":
        return "replace 2-d and 1-d subdomain in one call"
    if k == "repc":
        return "replace 2-d subdomain and mortar in one call"
    return f"replace mortar of {DIM[op[1][1]]}-d interface"


def apply_real(pool, mdg, op):
    g, k = pool.g, op[0]
    if k == "add":
        mdg.add_subdomains(g[op[1]])
    elif k == "addl":
        L = [g[x] for x in LISTS[op[1]]]
        mdg.add_subdomains(L if op[1] == 0 else tuple(L))
    elif k == "addi":
        h, l = op[1]
        pair = (g[l], g[h]) if pool.flip[op[1]] else (g[h], g[l])
        mdg.add_interface(pool.intf[op[1]], pair, pool.fc[op[1]])
    elif k == "rm":
        mdg.remove_subdomain(g[op[1]])
    elif k == "rep":
        mdg.replace_subdomains_and_interfaces({g[op[1]]: g[op[2]]})
    elif k == "repm":
        mdg.replace_subdomains_and_interfaces(sd_map={g[op[1]]: g[op[2]], g[op[3]]: g[op[4]]})
    elif k == "repc":
        mdg.replace_subdomains_and_interfaces({g[op[1]]: g[op[2]]}, {pool.intf[op[3]]: pool.sides[op[3]]})
    elif k == "repi":
        mdg.replace_subdomains_and_interfaces(interface_map={pool.intf[op[1]]: pool.sides[op[1]]})
    else:
        raise AssertionError(op)


def _same(xs, ys):
    return len(xs) == len(ys) and all(x is y for x, y in zip(xs, ys))


def observe_new(pool, mdg, model, fails):
    """Record the boundary grid / data dictionary of subdomains that just appeared (their identity is not
    predictable, their properties are)."""
    pp = pool.pp
    for l in model.S:
        sd = pool.g[l]
        if l not in model.data:
            try:
                model.data[l] = mdg.subdomain_data(sd)
            except Exception as e:  # noqa: BLE001
                fails.append(("subdomain_data: defined for every present subdomain", f"{l}: {type(e).__name__}: {e}"))
        if DIM[l] > 0 and l not in model.BG:
            bg = mdg.subdomain_to_boundary_grid(sd)
            ok = isinstance(bg, pp.BoundaryGrid) and bg.parent is sd and bg.dim == sd.dim - 1
            fresh = all(bg is not o for o in model.BG.values()) and all(bg is not o for o in model.dead_bg)
            if not (ok and fresh):
                fails.append(("boundary grids: exactly one per positive-dimensional subdomain",
                              f"subdomain {l}: subdomain_to_boundary_grid gave {bg!r:.80} (parent ok/fresh: {ok}/{fresh})"))
            if bg is not None:
                model.BG[l] = bg


def check_view(pool, mdg, model, derived=True):
    """Compare the complete observable view with the model.  Returns a list of (clause, detail).

    The *abstract view* (which subdomains / interfaces / boundary grids are present, the interface <-> pair maps, the
    subdomain -> boundary grid map, membership, counters, internal-map invariant) is always checked.  ``derived``
    adds the queries that are pure functions of that view (listings filtered by dim/codim, return_data listings,
    subdomain_to_interfaces, neighboring_subdomains); the exploration evaluates them once per distinct concrete state."""
    pp, g = pool.pp, pool.g
    fails = []
    nm = pool.name

    def names(xs):
        return [nm(x) for x in xs]

    skey = lambda l: (-DIM[l], g[l].id)  # noqa: E731
    exp_S = [g[l] for l in sorted(model.S, key=skey)]
    present = set(model.S)
    # --- subdomain listing
    got = mdg.subdomains()
    if not _same(got, exp_S):
        fails.append(("listing: subdomains() sorted by (-dim, id), each present object once",
                      f"expected {names(exp_S)} got {names(got)}"))
    for d in (0, 1, 2, 3) if derived else ():
        got = mdg.subdomains(dim=d)
        exp = [x for x in exp_S if x.dim == d]
        if not _same(got, exp):
            fails.append(("listing: subdomains(dim=d) is the sorted listing filtered",
                          f"dim={d}: expected {names(exp)} got {names(got)}"))
    got = mdg.subdomains(return_data=True) if derived else []
    if derived and not (_same([x[0] for x in got], exp_S) and all(x[1] is model.data.get(pool.label_of[id(x[0])]) for x in got if id(x[0]) in pool.label_of)):
        fails.append(("listing: subdomains(return_data=True) carries each grid's own data", names([x[0] for x in got])))
    # --- interface listing
    imap = dict(model.I)
    ikey = lambda k: (-pool.intf[k].dim, pool.intf[k].id)  # noqa: E731
    exp_I = [pool.intf[k] for k in sorted(imap, key=ikey)]
    got = mdg.interfaces()
    if not _same(got, exp_I):
        fails.append(("listing: interfaces() sorted by (-dim, id), each present object once",
                      f"expected {names(exp_I)} got {names(got)}"))
    for d, c in ((0, None), (1, None), (2, None), (None, 1), (None, 2), (0, 1), (0, 2), (1, 2)) if derived else ():
        got = mdg.interfaces(dim=d, codim=c)
        exp = [x for x in exp_I if (d is None or x.dim == d) and (c is None or x.codim == c)]
        if not _same(got, exp):
            fails.append(("listing: interfaces(dim, codim) is the sorted listing filtered",
                          f"dim={d} codim={c}: expected {names(exp)} got {names(got)}"))
    # --- boundary grids
    exp_B = sorted(model.BG.values(), key=lambda b: (-b.dim, b.id))
    only_0d = bool(model.S) and not any(DIM[l] > 0 for l in model.S)
    if not only_0d:  # documented: boundaries() raises ValueError when only 0-d subdomains are present
        got = mdg.boundaries()
        if not _same(got, exp_B):
            fails.append(("listing: boundaries() sorted, each present boundary grid once",
                          f"expected {[(b.dim, b.id) for b in exp_B]} got {[(b.dim, b.id) for b in got]}"))
        for d in (0, 1) if derived else ():
            got = mdg.boundaries(dim=d)
            if not _same(got, [b for b in exp_B if b.dim == d]):
                fails.append(("listing: boundaries(dim=d) is the sorted listing filtered", f"dim={d}"))
    if set(model.BG) != {l for l in model.S if DIM[l] > 0}:
        fails.append(("boundary grids: exactly one per positive-dimensional subdomain",
                      f"boundary grids known for {sorted(model.BG)}, positive-dimensional subdomains {sorted(l for l in model.S if DIM[l] > 0)}"))
    for l in LABELS:
        sd = g[l]
        if (sd in mdg) != (l in present):
            fails.append(("membership: 'in' is true exactly for present objects", f"subdomain {l}: {sd in mdg}"))
        bg = mdg.subdomain_to_boundary_grid(sd)
        exp = model.BG.get(l) if l in present else None
        if bg is not exp:
            fails.append(("boundary grids: exactly one per positive-dimensional subdomain",
                          f"subdomain_to_boundary_grid({l}) expected {'its boundary grid' if exp is not None else None} got {bg!r:.60}"))
        if l in present and l in model.data and mdg.subdomain_data(sd) is not model.data[l]:
            fails.append(("subdomain_data: unchanged for untouched subdomains", l))
    for b in model.BG.values():
        if b not in mdg:
            fails.append(("membership: 'in' is true exactly for present objects", "present boundary grid reported absent"))
    for b in model.dead_bg:
        if b in mdg:
            fails.append(("membership: 'in' is true exactly for present objects", "removed boundary grid still present"))
    # --- pair maps
    coupled = {}
    for k in PAIRS:
        it = pool.intf[k]
        if (it in mdg) != (k in imap):
            fails.append(("membership: 'in' is true exactly for present objects", f"interface {nm(it)}: {it in mdg}"))
        if k not in imap:
            continue
        h, l = imap[k]
        coupled[(h, l)] = it
        try:
            got = mdg.interface_to_subdomain_pair(it)
        except Exception as e:  # noqa: BLE001
            fails.append(("interface_to_subdomain_pair: (higher, lower) pair of every present interface", f"{nm(it)}: {type(e).__name__}"))
            continue
        if not (len(got) == 2 and got[0] is g[h] and got[1] is g[l] and got[0].dim > got[1].dim):
            fails.append(("interface_to_subdomain_pair: (higher, lower) pair of every present interface",
                          f"{nm(it)}: expected ({h},{l}) got {names(got)}"))
    for h in model.S:
        for l in model.S:
            if h == l:
                continue
            exp = coupled.get((h, l), coupled.get((l, h)))
            try:
                got = mdg.subdomain_pair_to_interface((g[h], g[l]))
            except KeyError:
                got = None
            if got is not exp:
                fails.append(("subdomain_pair_to_interface: inverse of interface_to_subdomain_pair",
                              f"({h},{l}): expected {nm(exp) if exp is not None else 'KeyError'} got {nm(got) if got is not None else 'KeyError'}"))
    # --- derived graph queries
    for s in model.S if derived else ():
        inc = [pool.intf[k] for k in sorted((k for k, v in imap.items() if s in v), key=ikey)]
        got = mdg.subdomain_to_interfaces(g[s])
        if not _same(got, inc):
            fails.append(("subdomain_to_interfaces: sorted incident interfaces", f"{s}: expected {names(inc)} got {names(got)}"))
        nb = [v[0] if v[1] == s else v[1] for v in imap.values() if s in v]
        for kw, sel in (({}, nb), ({"only_higher": True}, [x for x in nb if DIM[x] > DIM[s]]), ({"only_lower": True}, [x for x in nb if DIM[x] < DIM[s]])):
            exp = [g[x] for x in sorted(sel, key=skey)]
            got = mdg.neighboring_subdomains(g[s], **kw)
            if not _same(got, exp):
                fails.append(("neighboring_subdomains: sorted neighbours through interfaces", f"{s} {kw}: expected {names(exp)} got {names(got)}"))
    if mdg.num_subdomains() != len(model.S) or mdg.num_interfaces() != len(model.I):
        fails.append(("counters: num_subdomains / num_interfaces", f"{mdg.num_subdomains()}, {mdg.num_interfaces()} expected {len(model.S)}, {len(model.I)}"))
    # --- class invariant on the internal maps (only if this representation still exists)
    try:
        sdd, ifd, i2s = mdg._subdomain_data, mdg._interface_data, mdg._interface_to_subdomains
        s2b, bgd = mdg._subdomain_to_boundary_grid, mdg._boundary_grid_data
    except AttributeError:
        sdd = None
    if sdd is not None:
        bad = []
        if set(ifd) != set(i2s):
            bad.append("keys(_interface_data) != keys(_interface_to_subdomains)")
        for it, pr in i2s.items():
            if not (len(pr) == 2 and pr[0] in sdd and pr[1] in sdd):
                bad.append("interface pair not among the subdomains")
            elif not pr[0].dim >= pr[1].dim:
                bad.append("interface pair not ordered (higher, lower)")
        if set(s2b) != {s for s in sdd if s.dim > 0}:
            bad.append("keys(_subdomain_to_boundary_grid) != positive-dimensional subdomains")
        if set(s2b.values()) != set(bgd) or len(set(map(id, s2b.values()))) != len(s2b):
            bad.append("_subdomain_to_boundary_grid is not a bijection onto keys(_boundary_grid_data)")
        if any(b.parent is not s for s, b in s2b.items()):
            bad.append("boundary grid parent mismatch")
        if bad:
            fails.append(("class invariant: internal maps consistent", "; ".join(sorted(set(bad)))))
    return fails


def step(pool, mdg, model, op, derived_done=None):
    """Apply ``op`` to the real container and to the model; return the list of violated clauses.  ``derived_done``:
    set of concrete states whose derived queries were already evaluated (None: always evaluate them)."""
    fails = []
    try:
        apply_real(pool, mdg, op)
    except Exception as e:  # noqa: BLE001
        fails.append((f"{FN[op[0]]}: raises nothing", f"{type(e).__name__}: {str(e)[:120]}"))
    model.apply(op)
    try:
        observe_new(pool, mdg, model, fails)
        derived = derived_done is None or model.key() not in derived_done
        view = check_view(pool, mdg, model, derived)
        if derived_done is not None and not view:
            derived_done.add(model.key())
    except Exception as e:  # noqa: BLE001
        view = [("listing: queries on the container do not raise", f"{type(e).__name__}: {str(e)[:160]}")]
    post = {"add": "add_subdomains: adds exactly the new grids and their boundary grids",
            "addl": "add_subdomains: adds exactly the new grids and their boundary grids",
            "addi": "add_interface: adds exactly the new interface with its (higher, lower) pair",
            "rm": "remove_subdomain: removes exactly sd, its interfaces, its boundary grid",
            "rep": "replace_subdomains_and_interfaces: exact replacement, nothing else changes",
            "repm": "replace_subdomains_and_interfaces: exact replacement, nothing else changes",
            "repc": "replace_subdomains_and_interfaces: exact replacement, nothing else changes",
            "repi": "replace_subdomains_and_interfaces: mortar replacement leaves container unchanged"}[op[0]]
    if view:
        fails.append((post, f"{len(view)} view clauses differ from the model, first: {view[0][0]}: {view[0][1]}"))
    return fails + view


def run_history(pool, history):
    """Replay a history on ONE container (no copy()).  Returns (violations, model)."""
    pp = pool.pp
    mdg, model = pp.MixedDimensionalGrid(), Model()
    out = []
    for op in history:
        op = _tuple(op)
        if op not in model.admissible():
            return out, model, False
        f = step(pool, mdg, model, op)
        out.extend((op, c, d) for c, d in f)
        if any(not c.endswith("raises nothing") for c, _ in f):
            break
    return out, model, True


def _tuple(x):
    return tuple(_tuple(y) for y in x) if isinstance(x, (list, tuple)) else x


# ----------------------------------------------------------------------------- rejected operations / argument forms


def special_cases(pp):
    """Small fixed cases outside the history pool.  Yields (key, obligation, signature, inputs, ok, detail)."""
    import numpy as np
    import scipy.sparse as sps

    MS = pp.grids.mortar_grid.MortarSides

    def view(m):
        subs, intfs = m.subdomains(), m.interfaces()
        pairs = []
        for i in intfs:
            try:
                pairs.append(tuple(id(x) for x in m.interface_to_subdomain_pair(i)))
            except KeyError:
                pairs.append("KeyError")
        return ([id(x) for x in subs], [id(x) for x in intfs], pairs, [id(m.subdomain_to_boundary_grid(s)) for s in subs])

    # argument forms of add_subdomains
    for form in ("grid", "list", "tuple", "one-shot iterator"):
        g2 = pp.CartGrid(np.array([1, 1]))
        g2.compute_geometry()
        p0 = pp.PointGrid(np.array([0.5, 0.5, 0.0]))
        p0.compute_geometry()
        m = pp.MixedDimensionalGrid()
        grids = [g2] if form == "grid" else [p0, g2]
        arg = {"grid": g2, "list": grids, "tuple": tuple(grids), "one-shot iterator": iter(grids)}[form]
        detail, ok = "", True
        try:
            m.add_subdomains(arg)
            got = m.subdomains()
            exp = sorted(grids, key=lambda s: (-s.dim, s.id))
            ok = _same(got, exp) and isinstance(m.subdomain_to_boundary_grid(g2), pp.BoundaryGrid)
            detail = f"{len(got)} subdomains present after adding {len(grids)}"
        except Exception as e:  # noqa: BLE001
            ok, detail = False, f"{type(e).__name__}: {e}"
        yield (("argform", form), "add_subdomains: every grid of the iterable argument is present afterwards",
               f"{form} argument", {"special": "argform", "form": form}, ok, detail)
    # rejected operations must leave the container unchanged
    # the same grid twice in one call: either rejected, or stored once with exactly one boundary grid
    g2 = pp.CartGrid(np.array([2, 2]))
    g2.compute_geometry()
    m = pp.MixedDimensionalGrid()
    try:
        m.add_subdomains([g2, g2])
        ok, detail = len(m.subdomains()) == 1 and len(m.boundaries()) == 1, f"{len(m.subdomains())} subdomains, {len(m.boundaries())} boundary grids"
    except ValueError:
        ok, detail = len(m._subdomain_data) == 0 and len(m._boundary_grid_data) == 0, "rejected"
    yield (("twice", "add"), "add_subdomains: every positive-dimensional subdomain has exactly one boundary grid", "the same grid twice in one call",
           {"special": "twice"}, ok, detail)
    # an interface between a subdomain and itself (co-dimension 0, as in the library's own tests), then removal of that subdomain
    for others in ("with a lower-dimensional subdomain left", "last subdomain"):
        g2 = pp.CartGrid(np.array([2, 2]))
        g2.compute_geometry()
        g1 = pp.CartGrid(np.array([2]))
        g1.compute_geometry()
        m = pp.MixedDimensionalGrid()
        m.add_subdomains([g2, g1] if others.startswith("with") else [g2])
        side = pp.CartGrid(np.array([2, 2]))
        side.compute_geometry()
        mg = pp.MortarGrid(2, {MS.LEFT_SIDE: side}, primary_secondary=sps.identity(4, format="csc"), codim=0)
        m.add_interface(mg, (g2, g2), None)
        try:
            m.remove_subdomain(g2)
            ok = len(m._interface_data) == 0 and len(m._interface_to_subdomains) == 0 and g2 not in m._subdomain_data and len(m._boundary_grid_data) == len(m._subdomain_to_boundary_grid)
            detail = f"{len(m._interface_data)} interfaces stored, {len(m._subdomain_data)} subdomains"
        except Exception as e:  # noqa: BLE001
            ok, detail = False, f"{type(e).__name__}: {e}"
        yield (("selfintf", others), "remove_subdomain: removes exactly sd, its interfaces, its boundary grid", f"subdomain with a same-dimension self-interface, {others}",
               {"special": "selfintf", "others": others}, ok, detail)
    # a subdomain mapped to itself is not a replacement
    g2 = pp.CartGrid(np.array([2, 1]))
    g2.compute_geometry()
    g1 = pp.CartGrid(np.array([2]))
    g1.compute_geometry()
    m = pp.MixedDimensionalGrid()
    m.add_subdomains([g2, g1])
    before = view(m)
    try:
        m.replace_subdomains_and_interfaces({g1: g1})
        ok, detail = view(m) == before, f"subdomains before {len(before[0])} after {len(m.subdomains())}"
    except Exception as e:  # noqa: BLE001
        ok, detail = False, f"{type(e).__name__}: {e}"
    yield (("selfmap", "replace"), "replace_subdomains_and_interfaces: exact replacement, nothing else changes", "subdomain mapped to itself", {"special": "selfmap"}, ok, detail)
    for case in ("duplicate subdomain", "list containing a present subdomain", "duplicate interface", "co-dimension 3 pair", "pair of length 3"):
        g3 = pp.CartGrid(np.array([1, 1, 1]))
        g3.compute_geometry()
        g1 = pp.CartGrid(np.array([2]))
        g1.compute_geometry()
        p0 = pp.PointGrid(np.array([0.0, 0.0, 0.0]))
        p0.compute_geometry()
        m = pp.MixedDimensionalGrid()
        m.add_subdomains([g1, p0, g3])
        fc = sps.csc_matrix((np.ones(1, dtype=bool), ([0], [0])), shape=(1, g1.num_faces))
        i10 = pp.MortarGrid(0, {MS.LEFT_SIDE: p0.copy()}, fc)
        m.add_interface(i10, (g1, p0), fc)
        before = view(m)
        raised = None
        try:
            if case == "duplicate subdomain":
                m.add_subdomains(g1)
            elif case == "list containing a present subdomain":
                fresh = pp.CartGrid(np.array([1, 1]))
                fresh.compute_geometry()
                m.add_subdomains([fresh, p0])
            elif case == "duplicate interface":
                m.add_interface(i10, (g1, p0), fc)
            elif case == "co-dimension 3 pair":
                fc3 = sps.csc_matrix(np.ones((1, 1)))
                m.add_interface(pp.MortarGrid(0, {MS.LEFT_SIDE: p0.copy()}, fc3, codim=3), (g3, p0), fc3)
            else:
                fc3 = sps.csc_matrix(np.ones((1, 1)))
                m.add_interface(pp.MortarGrid(0, {MS.LEFT_SIDE: p0.copy()}, fc3, codim=2), (g3, p0, g1), fc3)
        except ValueError as e:
            raised = e
        except Exception as e:  # noqa: BLE001
            raised = e
        after = view(m)
        ok = isinstance(raised, ValueError) and before == after
        yield (("rejected", case), f"{'add_subdomains' if 'subdomain' in case else 'add_interface'}: a rejected call raises ValueError and leaves the container unchanged",
               case, {"special": "rejected", "case": case}, ok,
               f"raised {type(raised).__name__ if raised else None}; subdomains/interfaces/pairs before {[len(before[0]), len(before[1]), before[2].count('KeyError')]} "
               f"after {[len(after[0]), len(after[1]), after[2].count('KeyError')]} (third number: listed interfaces without a subdomain pair)")


# ----------------------------------------------------------------------------- entry points


def run(rep):
    import warnings

    import porepy as pp

    warnings.simplefilter("ignore")
    rep.under_contract(
        "MixedDimensionalGrid.add_subdomains", "MixedDimensionalGrid.add_interface", "MixedDimensionalGrid.remove_subdomain",
        "MixedDimensionalGrid.replace_subdomains_and_interfaces", "MixedDimensionalGrid.subdomains", "MixedDimensionalGrid.interfaces",
        "MixedDimensionalGrid.boundaries", "MixedDimensionalGrid.argsort_grids", "MixedDimensionalGrid.interface_to_subdomain_pair",
        "MixedDimensionalGrid.subdomain_pair_to_interface", "MixedDimensionalGrid.subdomain_to_boundary_grid",
        "MixedDimensionalGrid.subdomain_to_interfaces", "MixedDimensionalGrid.neighboring_subdomains", "MixedDimensionalGrid.__contains__")
    rep.assume(
        "requires (from the docstrings): added grids/interfaces are absent, interface pairs are present and not yet coupled, "
        "replacement grids are absent and of the same dimension, the higher-dimensional side of a co-dimension-2 interface is not "
        "replaced (MortarGrid supports updates for co-dimension 1 only); boundaries() is not queried while only 0-d subdomains are "
        "present (documented ValueError)",
        "continuations are shared between histories that reach the same concrete state (objects, insertion orders, pair assignment); "
        "a seeded sample of full histories is replayed on a single container as a cross-check")
    rep.trust("MixedDimensionalGrid.copy() (shallow copy) used to branch the exploration", "the set/dict model of the container (sidecar)")
    quick = rep.tier == "quick"
    depth = 5 if quick else 6
    combined = not quick  # the grid+mortar-in-one-call form (13 ms per call) is enumerated in the thorough tier only
    pool = Pool(pp)
    n_hist = count_histories(depth, combined)

    def report(fails, op, history):
        for clause, detail in fails:
            rep.violation(clause, signature(op), inputs={"history": [list(o) if not isinstance(o, str) else o for o in history]},
                          detail=f"history {history}: {detail}", confirmed=True)

    with rep.sweep(
        "operation histories",
        rule=f"breadth-first over all admissible operation sequences of length <= {depth} on the pool (6 grids, 12 interfaces): add single grid / "
             "add list or tuple of three grids / add interface (pair order fixed per interface, both orders occur) / remove / replace one grid / "
             "replace a 2-d and a 1-d grid in one call / replace grid and mortar in one call (thorough tier only) / replace mortar (dict or "
             "MortarGrid form); each "
             "distinct (concrete state, operation) transition is executed once on the real container and the full view compared with the "
             f"model (derived queries - filtered listings, neighbour queries - once per distinct resulting state); these transitions cover "
             f"{n_hist} admissible histories; a case is non-trivial when the container is non-empty after the operation; distinct by "
             "(concrete state incl. insertion orders, operation)",
        bound=f"history length <= {depth}; pool of 2x2-d, 2x1-d, 2x0-d grids and 12 MortarGrid interfaces (co-dimension 1 and 2)",
        exhaustive=True,
    ) as sw:
        frontier = {Model().key(): (pp.MixedDimensionalGrid(), Model(), ())}
        seen = set(frontier)
        n_states = 1
        leaves = []
        derived_done = set()
        for level in range(depth):
            nxt = {}
            for key, (mdg, model, hist) in frontier.items():
                for op in model.admissible(combined):
                    child, cm = mdg.copy(), model.copy()
                    fails = step(pool, child, cm, op, derived_done)
                    h2 = hist + (op,)
                    sw.case(key=(key, op), nontrivial=bool(cm.S), sample={"history": [list(o) for o in h2]} if level >= 3 else None)
                    report(fails, op, h2)
                    broken = any(not c.endswith("raises nothing") for c, _ in fails)
                    if broken or op[0] == "repi":
                        continue
                    if level + 1 == depth:
                        if len(leaves) < 200000:
                            leaves.append(h2)
                        continue
                    k2 = cm.key()
                    if k2 not in seen:
                        seen.add(k2)
                        nxt[k2] = (child, cm, h2)
                        n_states += 1
            frontier = nxt
        rep.extra["concrete_states_explored"] = n_states
        rep.extra["distinct_resulting_states_with_derived_queries_checked"] = len(derived_done)
        rep.extra["histories_represented"] = n_hist
        rep.note(f"C24: {sw.evaluations} transitions over {n_states} concrete states cover {n_hist} admissible histories of length <= {depth}")

    with rep.sweep(
        "single-container replays",
        rule="seeded sample of full-length histories from the exploration replayed from an empty container on ONE object without copy(), "
             "full view checked after every operation (cross-check of continuation sharing); non-trivial when the final container is non-empty",
        bound=f"{'300' if rep.tier == 'quick' else '3000'} histories of length {depth}",
        exhaustive=False,
    ) as sw:
        n = 300 if rep.tier == "quick" else 3000
        for h in (rep.rng.sample(leaves, min(n, len(leaves))) if leaves else []):
            fails, model, ok = run_history(pool, h)
            if not ok:
                sw.skip()
                continue
            sw.case(key=h, nontrivial=bool(model.S), sample={"history": [list(o) for o in h]})
            for op, clause, detail in fails:
                rep.violation(clause, signature(op), inputs={"history": [list(o) for o in h]}, detail=f"single-container replay of {h}: {detail}", confirmed=True)

    with rep.sweep(
        "argument forms and rejected operations",
        rule="fixed cases: add_subdomains with a Grid / list / tuple / one-shot iterator; duplicate subdomain, list containing a present "
             "subdomain, duplicate interface, co-dimension-3 pair, pair of length 3 must raise ValueError and leave the view unchanged",
        bound="9 fixed cases on a 3-d + 1-d + 0-d container",
        exhaustive=True,
    ) as sw:
        for key, obligation, sig, inputs, ok, detail in special_cases(pp):
            sw.case(key=key, nontrivial=True, sample=inputs)
            if not ok:
                rep.violation(obligation, sig, inputs=inputs, detail=detail, confirmed=True)


def replay(data):
    import warnings

    import porepy as pp

    warnings.simplefilter("ignore")
    inp = data.get("inputs") or {}
    if "history" in inp:
        fails, _, ok = run_history(Pool(pp), inp["history"])
        for f in fails:
            print("replay:", f)
        return bool(fails)
    if "special" in inp:
        for key, obligation, sig, inputs, ok, detail in special_cases(pp):
            if inputs == inp:
                print("replay:", obligation, "|", sig, "|", detail)
                return not ok
    return False
