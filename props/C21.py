"""C21 -- grid connectivity queries agree with the signed cell-face incidence.

Tier P : Grid.divergence(dim), dim = 1..3, on a stub whose cell-face matrix has symbolic shape and entries (case_divergence).
Tier B (run-time contract sweep) for everything else.  Every query is specified directly against the dense signed incidence
CF = cell_faces.toarray()  (faces x cells), A = (CF != 0), FN = face_nodes (nodes x faces):

  cell_faces_as_dense()      D[0,f] = the cell with CF[f,c] > 0, D[1,f] = the cell with CF[f,c] < 0, -1 where none
  cell_connection_map()      symmetric;  M[a,b] (a != b)  <=>  exists f: A[f,a] and A[f,b]
  get_all_boundary_faces()   = { f : exactly one cell in row f }            (also after fracture splitting)
  get_boundary_faces()       = where(tags["domain_boundary_faces"])  and a subset of the one-cell faces
  Grid(...) / extract_subgrid: a freshly constructed grid tags exactly its one-cell faces as domain boundary
  update_boundary_face_tag() tags exactly the one-cell faces (dim > 0), nothing for dim 0
  update_boundary_node_tag() node tag <=> the node lies on a face carrying the corresponding face tag
  signs_and_cells_of_boundary_faces(F)   for one-cell faces F (any order, duplicates, empty): (CF[f,c], c) of the single
                             entry of each row, in input order; ValueError as soon as F contains an internal face
  cell_nodes()               CN[n,c] <=> exists f: FN[n,f] and A[f,c];   num_cell_nodes() = column sums
  divergence(1) = CF^T;  divergence(d>1)[c*d+k, f*d+k] = CF[f,c] (= kron(CF, I_d)^T);  divergence(d<=0) raises ValueError

Enumerated grids: Cart/Tensor/StructuredTriangle/StructuredTetrahedral 1..3 cells per direction (1-D, 2-D, 3-D),
Delaunay triangle/tetrahedral grids, every subdomain (dimension 0..3) of fractured mixed-dimensional grids built with
``pp.meshing.cart_grid`` (2-D: through-going, immersed, X, T, L, boundary-touching fractures; 3-D: through-going,
immersed, two and three crossing planes) and ``pp.mdg_library`` simplex grids (gmsh), and subgrids of all of these
from ``pp.partition.extract_subgrid`` (single cell, all cells, every other cell, seeded random unsorted subsets).

Histories (second sweep).  The statement holds for a grid *whenever* it is queried, so every query must agree with the CURRENT
incidence of the grid object it is asked on -- also when the same object was queried before and modified in place since, and
also when a copy of it was modified.  The same clauses (``check_grid``) are therefore evaluated along call histories:
  * query - ``pp.propagate_fracture.propagate_fractures`` (in place: faces of the matrix grid are split, cells/faces appended
    to the fracture grids, tags rewritten) - query again, for 1..3 propagation steps: the library's own propagation test
    inputs (2-D one/two fractures, 3-D 2x3x2 and 4x2x2) and coordinate-specified ones (growth to the domain boundary, both
    tips at once, a kinked extension, 3-D strip/immersed fracture);
  * ``Grid.copy()`` of every subdomain taken at every stage (before / between / after the steps), the original propagated
    further, then both the original and every earlier copy queried (each against its own cell_faces);
  * plain grids: ``h = g.copy()``, ``set_periodic_map`` on one of the two (each coordinate axis, opposite boundary sides),
    then the OTHER, unmodified grid queried.  (The periodic grid itself is not queried: see META.)
  * inside ``check_grid``: after ``update_boundary_face_tag`` / ``update_boundary_node_tag`` on a copy, the boundary-face
    queries of the original are asked again.

Detection power (scratch copy of /repo/src, POREPY_SRC, one mutant at a time; every one gave exit 1 + VIOLATION):
  * grid.py cell_faces_as_dense: rows swapped (positive cells written to row 1)          -> "cell_faces_as_dense: rows = ..."
  * grid.py cell_connection_map: ``np.abs`` on the data dropped (+1*-1 = -1 clipped to 0) -> "cell_connection_map: (a,b) iff ..."
  * grid.py update_boundary_face_tag: ``tocsr().indptr`` -> ``tocsc().indptr``            -> "update_boundary_face_tag", "Grid constructor: boundary tag"
  * grid.py signs_and_cells_of_boundary_faces: final ``sgn[IC], ci[IC]`` dropped           -> "(sign, cell) = single incidence entry, input order" (unsorted queries)
  * grid.py divergence: ``kron(scalar_div, eye(dim))`` -> ``kron(eye(dim), scalar_div)``   -> "divergence(dim): kron(cell_faces, I_dim)^T"
  * grid.py cell_nodes: ``np.abs(cell_faces)`` -> signed ``cell_faces`` (cancellation)      -> "cell_nodes", "num_cell_nodes" (and porepy's own
    fracture meshing crashes -> "input construction")
  * utils/tags.py all_tags: third tag (domain boundary) dropped from the union             -> "get_all_boundary_faces: exactly the one-cell faces"
  * fracs/split_grid.py: ``tags["fracture_faces"][frac_id] = True`` dropped when faces are duplicated (a dropped tag update)
                                                                                            -> "get_all_boundary_faces" on fractured grids only
  * grid.py divergence memoised with ``functools.lru_cache`` (key = (grid object, dim))    -> "divergence(1)", "divergence(dim)" on the grids
    queried again after in-place propagation (history sweep only; no single-query case sees it)
  * grid.py copy(): ``copy.deepcopy`` -> ``copy.copy`` of the attributes (tag arrays shared) -> "get_all_boundary_faces", "get_boundary_faces",
    "signs_and_cells_of_boundary_faces" on the copies taken before propagation and on the grid whose copy was made periodic
"""
from __future__ import annotations

import itertools
import shutil
import tempfile
import warnings
from pathlib import Path

import numpy as np

META = {
    "level": "other",
    "engine": "pse",
    "technique": "contract-based deductive verification of Grid.divergence (vector divergence = scalar divergence expanded per component, "
                 "symbolic grid size and incidence entries, z3); run-time contract sweep (bounded stand-in) for the other queries: every connectivity query of Grid compared with its "
                 "definition on the dense signed cell-face incidence, over plain, fracture-split and extracted grids, and again along "
                 "call histories (query, in-place fracture propagation, query; copy, modify one, query the others)",
    "text": "Tier P: Grid.divergence(dim) for dim 1..3 on a cell-face matrix of symbolic shape and entries: shape, entry (c*dim+k, f*dim+l) = "
            "cell_faces[f, c] iff k == l, csr format; dim 0 rejected (sps.kron with a concrete identity and transposition are the models used). "
            "Everything else is bounded assurance only: all listed queries agree with the incidence on every enumerated grid (plain 1-3 cells per direction, "
            "all subdomains of structured and simplex fractured md-grids in 2-D/3-D, extracted subgrids), and they agree with the CURRENT "
            "incidence of the queried object along the enumerated histories: 15 fracture-propagation histories (1-3 in-place steps on "
            "Cartesian md-grids, 2-D and 3-D) with every subdomain and every earlier Grid.copy() of it re-queried after each step, and "
            "copy / set_periodic_map on one of the two / query the unmodified one on the plain grids. Only these two in-place modifiers "
            "are exercised; other ways of editing a grid are not. These contracts are the stubs that C17/C39 assume. The queries of a "
            "grid that itself carries a periodic map (where the library by design un-tags one-cell faces) and trace() are not covered.",
    "note": "the incidence matrix itself (cell_faces, face_nodes) is the given; expected values are dense numpy; gmsh is used only as a "
            "generator of simplex inputs (scratch files under /var/tmp, removed after the run)",
}


# ----------------------------------------------------------------------------- grid sources

FRACS_2D = {
    "through-h": ([[[0.0, 2.0], [1.0, 1.0]]], [2, 2]),
    "immersed": ([[[1.0, 2.0], [1.0, 1.0]]], [3, 2]),
    "X": ([[[0.0, 2.0], [1.0, 1.0]], [[1.0, 1.0], [0.0, 2.0]]], [2, 2]),
    "T": ([[[0.0, 2.0], [1.0, 1.0]], [[1.0, 1.0], [1.0, 2.0]]], [2, 2]),
    "L": ([[[1.0, 2.0], [1.0, 1.0]], [[1.0, 1.0], [1.0, 2.0]]], [3, 3]),
    "touch-boundary": ([[[0.0, 2.0], [1.0, 1.0]]], [3, 2]),
    "two-parallel": ([[[0.0, 3.0], [1.0, 1.0]], [[1.0, 2.0], [2.0, 2.0]]], [3, 3]),
}
FRACS_3D = {
    "through-x": ([[[1.0, 1.0, 1.0, 1.0], [0.0, 2.0, 2.0, 0.0], [0.0, 0.0, 2.0, 2.0]]], [2, 2, 2]),
    "immersed": ([[[1.0, 1.0, 1.0, 1.0], [1.0, 2.0, 2.0, 1.0], [1.0, 1.0, 2.0, 2.0]]], [3, 3, 3]),
    "two-planes": ([[[1.0, 1.0, 1.0, 1.0], [0.0, 2.0, 2.0, 0.0], [0.0, 0.0, 2.0, 2.0]],
                    [[0.0, 2.0, 2.0, 0.0], [1.0, 1.0, 1.0, 1.0], [0.0, 0.0, 2.0, 2.0]]], [2, 2, 2]),
    "three-planes": ([[[1.0, 1.0, 1.0, 1.0], [0.0, 2.0, 2.0, 0.0], [0.0, 0.0, 2.0, 2.0]],
                      [[0.0, 2.0, 2.0, 0.0], [1.0, 1.0, 1.0, 1.0], [0.0, 0.0, 2.0, 2.0]],
                      [[0.0, 2.0, 2.0, 0.0], [0.0, 0.0, 2.0, 2.0], [1.0, 1.0, 1.0, 1.0]]], [2, 2, 2]),
    "half-plane": ([[[1.0, 1.0, 1.0, 1.0], [0.0, 1.0, 1.0, 0.0], [0.0, 0.0, 2.0, 2.0]]], [2, 2, 2]),
}


def _plain_descs(rng, quick):
    out = []
    for n in (1, 2, 3):
        out.append({"src": "cart", "n": [n]})
    for nx, ny in itertools.product((1, 2, 3), repeat=2):
        out.append({"src": "cart", "n": [nx, ny]})
        out.append({"src": "stri", "n": [nx, ny]})
    for nx, ny, nz in itertools.product((1, 2, 3), repeat=3):
        if quick and nx * ny * nz > 8 and (nx, ny, nz) != (3, 3, 3):
            continue
        out.append({"src": "cart", "n": [nx, ny, nz]})
        if nx * ny * nz <= 12 or not quick:
            out.append({"src": "stet", "n": [nx, ny, nz]})
    out.append({"src": "tensor", "x": [[0.0, 0.5, 2.0, 2.5]]})
    out.append({"src": "tensor", "x": [[0.0, 0.5, 2.0], [0.0, 1.0, 4.0]]})
    out.append({"src": "tensor", "x": [[0.0, 0.5, 2.0], [0.0, 1.0], [1.0, 2.0, 2.5]]})
    for k in range(1 if quick else 4):
        pts = [[0.0, 1.0, 1.0, 0.0] + [0.1 + 0.8 * rng.random() for _ in range(2 + k)],
               [0.0, 0.0, 1.0, 1.0] + [0.1 + 0.8 * rng.random() for _ in range(2 + k)]]
        out.append({"src": "delaunay2", "p": pts})
        corners = np.array(list(itertools.product((0.0, 1.0), repeat=3))).T.tolist()
        pts3 = [corners[i] + [0.15 + 0.7 * rng.random() for _ in range(1 + k)] for i in range(3)]
        out.append({"src": "delaunay3", "p": pts3})
    return out


def _md_descs(quick):
    out = []
    for nm in FRACS_2D:
        out.append({"src": "cart_grid", "cfg": nm, "nd": 2})
    for nm in FRACS_3D:
        if quick and nm == "immersed":
            continue
        out.append({"src": "cart_grid", "cfg": nm, "nd": 3})
    out.append({"src": "mdg_library", "which": "square", "grid_type": "simplex", "fracs": [0, 1], "cell_size": 0.5})
    if not quick:
        out.append({"src": "mdg_library", "which": "square", "grid_type": "simplex", "fracs": [1], "cell_size": 0.3})
        out.append({"src": "mdg_library", "which": "cube", "grid_type": "simplex", "fracs": [0, 1], "cell_size": 0.5})
        out.append({"src": "mdg_library", "which": "cube", "grid_type": "simplex", "fracs": [0, 1, 2], "cell_size": 0.6})
        out.append({"src": "mdg_library", "which": "square", "grid_type": "cartesian", "fracs": [0, 1], "cell_size": 0.25})
    return out


def build_plain(pp, d):
    s = d["src"]
    if s == "cart":
        return pp.CartGrid(np.array(d["n"]))
    if s == "stri":
        return pp.StructuredTriangleGrid(np.array(d["n"]))
    if s == "stet":
        return pp.StructuredTetrahedralGrid(np.array(d["n"]))
    if s == "tensor":
        return pp.TensorGrid(*[np.array(x) for x in d["x"]])
    if s == "delaunay2":
        return pp.TriangleGrid(np.array(d["p"], dtype=float))
    if s == "delaunay3":
        return pp.TetrahedralGrid(np.array(d["p"], dtype=float))
    raise ValueError(s)


def build_md(pp, d, tmpdir):
    """-> list of subdomain grids (deterministic order: dimension descending, then as stored)"""
    with warnings.catch_warnings():
        warnings.simplefilter("ignore")
        if d["src"] == "cart_grid":
            fr, nx = (FRACS_2D if d["nd"] == 2 else FRACS_3D)[d["cfg"]]
            mdg = pp.meshing.cart_grid([np.array(f) for f in fr], np.array(nx))
        else:
            fn = pp.mdg_library.square_with_orthogonal_fractures if d["which"] == "square" else pp.mdg_library.cube_with_orthogonal_fractures
            kw = {}
            if d["grid_type"] == "simplex":
                kw["file_name"] = Path(tmpdir) / "c21_mesh.msh"
            mdg, _ = fn(d["grid_type"], {"cell_size": d["cell_size"]}, list(d["fracs"]), **kw)
    return list(mdg.subdomains())


def _subsets(nc, rng, quick):
    subs = {(0,), (nc - 1,), tuple(range(nc)), tuple(range(0, nc, 2))}
    for _ in range(1 if quick else 12):
        k = rng.randint(1, nc)
        subs.add(tuple(rng.sample(range(nc), k)))  # unsorted on purpose
    return [list(s) for s in sorted(subs, key=lambda s: (len(s), s)) if len(s) > 0]


# ----------------------------------------------------------------------------- modification histories

# Fracture-propagation histories on pp.meshing.cart_grid md-grids.  ``steps[k][j]`` = the faces of the matrix grid that are
# split in step k to extend fracture j (order of mdg.subdomains(dim=nd-1)); a face is given either by its index (the inputs of
# porepy's own propagation tests) or by the coordinates of its centre (the unique two-cell face there).
_STRIP = [[[0.0, 1.0, 1.0, 0.0], [0.0, 0.0, 3.0, 3.0], [1.0, 1.0, 1.0, 1.0]]]
_QUARTER = [[[0.0, 0.25, 0.25, 0.0], [0.0, 0.0, 0.5, 0.5], [0.5, 0.5, 0.5, 0.5]]]
PROPAGATIONS = {
    "2d-two-6x3": {"fracs": [[[1.0, 2.0], [1.0, 1.0]], [[2.0, 3.0], [2.0, 2.0]]], "nx": [6, 3], "steps": [[[29], []], [[30], [34, 36]]]},
    "2d-single-5x2": {"fracs": [[[1.0, 2.0], [1.0, 1.0]]], "nx": [5, 2], "steps": [[[19]], [[20]]]},
    "2d-two-5x3": {"fracs": [[[1.0, 2.0], [1.0, 1.0]], [[2.0, 3.0], [2.0, 2.0]]], "nx": [5, 3], "steps": [[[25], []], [[26], [29, 31]]]},
    "2d-vertical-9x3": {"fracs": [[[1.0, 1.0], [1.0, 2.0]], [[8.0, 8.0], [1.0, 2.0]]], "nx": [9, 3], "steps": [[[1], [8]], [[49], [55]]]},
    "2d-two-8x2-from-boundary": {"fracs": [[[0.0, 0.25], [0.5, 0.5]], [[1.75, 2.0], [0.5, 0.5]]], "nx": [8, 2], "physdims": [2.0, 1.0],
                                 "steps": [[[27], [32]], [[28], [31]], [[29], []]]},
    "3d-2x3x2-middle-first": {"fracs": _STRIP, "nx": [2, 3, 2], "steps": [[[43]], [[41, 45]]]},
    "3d-2x3x2-one-by-one": {"fracs": _STRIP, "nx": [2, 3, 2], "steps": [[[41]], [[43]], [[45]]]},
    "3d-2x3x2-duplicate-target": {"fracs": _STRIP, "nx": [2, 3, 2], "steps": [[[41, 45]], [[43, 43]]]},
    "3d-4x2x2-two-steps": {"fracs": _QUARTER, "nx": [4, 2, 2], "physdims": [1.0, 1.0, 1.0], "steps": [[[53]], [[54]]]},
    "3d-4x2x2-one-step": {"fracs": _QUARTER, "nx": [4, 2, 2], "physdims": [1.0, 1.0, 1.0], "steps": [[[53, 54]]]},
    "2d-grow-to-boundary": {"fracs": [[[1.0, 2.0], [1.0, 1.0]]], "nx": [4, 2], "steps": [[[[2.5, 1.0]]], [[[3.5, 1.0]]], [[[0.5, 1.0]]]]},
    "2d-both-tips": {"fracs": [[[2.0, 3.0], [1.0, 1.0]]], "nx": [5, 2], "steps": [[[[1.5, 1.0], [3.5, 1.0]]], [[[0.5, 1.0], [4.5, 1.0]]]]},
    "2d-kink": {"fracs": [[[1.0, 2.0], [1.0, 1.0]]], "nx": [4, 3], "steps": [[[[2.0, 1.5]]], [[[2.0, 2.5]]]]},
    "3d-grow-strip": {"fracs": [[[1.0, 1.0, 1.0, 1.0], [0.0, 1.0, 1.0, 0.0], [0.0, 0.0, 2.0, 2.0]]], "nx": [2, 3, 2],
                      "steps": [[[[1.0, 1.5, 0.5]]], [[[1.0, 1.5, 1.5]]], [[[1.0, 2.5, 0.5], [1.0, 2.5, 1.5]]]]},
    "3d-grow-immersed": {"fracs": [[[1.0, 1.0, 1.0, 1.0], [1.0, 2.0, 2.0, 1.0], [1.0, 1.0, 2.0, 2.0]]], "nx": [2, 3, 3],
                         "steps": [[[[1.0, 0.5, 1.5]]], [[[1.0, 2.5, 1.5], [1.0, 1.5, 2.5]]], [[[1.0, 1.5, 0.5]]]]},
}


def _faces_at(g, spec):
    """face indices of the matrix grid from a step specification (indices, or centres of two-cell faces)"""
    out = []
    ncell = np.diff(g.cell_faces.tocsr().indptr)
    for s in spec:
        if isinstance(s, (int, np.integer)):
            out.append(int(s))
            continue
        x = np.zeros(3)
        x[: len(s)] = s
        hit = np.where((np.abs(np.asarray(g.face_centers) - x[:, None]).max(axis=0) < 1e-9) & (ncell == 2))[0]
        if hit.size != 1:
            raise ValueError(f"no unique internal face centred at {list(s)}")
        out.append(int(hit[0]))
    return np.array(out, dtype=int)


def _propagation_cases(pp, name, rng):
    """Run one propagation history.  The queries are evaluated at the moment a case is produced (the grids are modified in
    place afterwards).  yields (desc, grid | Exception, bad, history class)"""
    c = PROPAGATIONS[name]
    base = {"src": "propagation", "cfg": name}
    try:
        with warnings.catch_warnings():
            warnings.simplefilter("ignore")
            kw = {"physdims": list(c["physdims"])} if "physdims" in c else {}
            mdg = pp.meshing.cart_grid([np.array(f, dtype=float) for f in c["fracs"]], np.array(c["nx"]), **kw)
        sds = list(mdg.subdomains())
        top = mdg.subdomains(dim=mdg.dim_max())[0]
        low = mdg.subdomains(dim=mdg.dim_max() - 1)
    except Exception as e:
        yield {**base, "stage": 0}, e, None, ""
        return
    copies = []  # (stage at which the copy was taken, subdomain index, the copy)
    for stage in range(len(c["steps"]) + 1):
        if stage > 0:
            try:
                with warnings.catch_warnings():
                    warnings.simplefilter("ignore")
                    pp.propagate_fracture.propagate_fractures(mdg, {g: _faces_at(top, s) for g, s in zip(low, c["steps"][stage - 1])})
            except Exception as e:
                yield {**base, "stage": stage}, e, None, ""
                return
        for i, sd in enumerate(sds):
            yield ({**base, "stage": stage, "subdomain": i}, sd, check_grid(pp, sd, rng, False),
                   "queried again after in-place fracture propagation" if stage else "before propagation")
        copies += [(stage, i, sd.copy()) for i, sd in enumerate(sds)]
        for j, i, h in copies:
            yield ({**base, "stage": stage, "subdomain": i, "copied_at": j}, h, check_grid(pp, h, rng, False),
                   "copy whose original was propagated afterwards" if j < stage else "fresh copy")


def _periodic_map(g, axis):
    """pairs of opposite one-cell faces (min / max side along ``axis``), or None if the two sides do not match in number"""
    one = np.where(np.diff(g.cell_faces.tocsr().indptr) == 1)[0]
    if one.size == 0:
        return None
    fc = np.asarray(g.face_centers)
    x = fc[axis, one]
    tol = 1e-9 * max(1.0, float(np.abs(x).max()))
    lo, hi = one[x < x.min() + tol], one[x > x.max() - tol]
    if lo.size == 0 or lo.size != hi.size or np.intersect1d(lo, hi).size:
        return None
    rest = [a for a in range(3) if a != axis]
    lo = lo[np.lexsort(np.round(fc[rest][:, lo], 9))]
    hi = hi[np.lexsort(np.round(fc[rest][:, hi], 9))]
    return np.vstack((lo, hi))


def _periodic_cases(pp, d, rng):
    """copy - set_periodic_map on one of the two - query the OTHER one.  yields (desc, grid | Exception | None, bad, history class)"""
    dim = len(d["n"]) if "n" in d else (len(d["x"]) if "x" in d else len(d["p"]))
    for axis in range(dim):
        for modified in ("copy", "original"):
            desc = {**d, "history": "periodic", "axis": axis, "modified": modified}
            try:
                g = build_plain(pp, d)
                g.compute_geometry()
                pm = _periodic_map(g, axis)
                if pm is None:
                    yield desc, None, None, ""
                    continue
                check_grid(pp, g, rng, True)  # the queries before the modification (their results are cases of the first sweep)
                h = g.copy()
                (h if modified == "copy" else g).set_periodic_map(pm)
            except Exception as e:
                yield desc, e, None, ""
                continue
            other = g if modified == "copy" else h
            yield (desc, other, check_grid(pp, other, rng, modified == "copy"),
                   "original after set_periodic_map on its copy" if modified == "copy" else "copy after set_periodic_map on the original")


# ----------------------------------------------------------------------------- the contract


def check_grid(pp, g, rng, fresh):
    """Evaluate all clauses on one grid.  ``fresh``: the grid comes straight from a constructor / extract_subgrid
    (no fracture tags), so the constructor's boundary tag is specified too.  -> list of (obligation, detail)."""
    bad = []
    CF = np.asarray(g.cell_faces.toarray()).astype(int)
    nf, nc = CF.shape
    A = CF != 0
    FN = np.asarray(g.face_nodes.toarray()) != 0
    npos, nneg = (CF > 0).sum(axis=1), (CF < 0).sum(axis=1)
    if nf and (npos.max() > 1 or nneg.max() > 1):
        return None  # requires: at most one cell of each sign per face (grid invariant)
    one = np.where(A.sum(axis=1) == 1)[0]

    def guard(name, fn):
        try:
            with warnings.catch_warnings():
                warnings.simplefilter("ignore")
                return True, fn()
        except Exception as e:
            bad.append((f"{name}: returns on a valid grid", f"{type(e).__name__}: {e}"))
            return False, None

    # --- cell_faces_as_dense
    ok, D = guard("cell_faces_as_dense", g.cell_faces_as_dense)
    if ok:
        exp = -np.ones((2, nf), dtype=int)
        fi, ci = np.nonzero(CF > 0)
        exp[0, fi] = ci
        fi, ci = np.nonzero(CF < 0)
        exp[1, fi] = ci
        D = np.asarray(D)
        if D.shape != (2, nf) or not np.array_equal(D, exp):
            bad.append(("cell_faces_as_dense: rows = +1 cell / -1 cell of each face, -1 if none", f"got {D.tolist()} expected {exp.tolist()}"[:600]))
    # --- cell_connection_map
    ok, M = guard("cell_connection_map", g.cell_connection_map)
    if ok:
        Md = np.asarray(M.toarray()).astype(bool)
        exp = (A.T.astype(int) @ A.astype(int)) > 0
        if Md.shape != (nc, nc):
            bad.append(("cell_connection_map: (a,b) iff distinct cells share a face", f"shape {Md.shape}"))
        else:
            if not np.array_equal(Md, Md.T):
                bad.append(("cell_connection_map: symmetric", "M != M^T"))
            off = ~np.eye(nc, dtype=bool)
            if not np.array_equal(Md[off], exp[off]):
                a, b = np.argwhere((Md != exp) & off)[0]
                bad.append(("cell_connection_map: (a,b) iff distinct cells share a face", f"cells {a},{b}: got {Md[a, b]} expected {exp[a, b]}"))
    # --- boundary faces
    ok, allb = guard("get_all_boundary_faces", g.get_all_boundary_faces)
    if ok and not np.array_equal(np.sort(np.asarray(allb)), one):
        bad.append(("get_all_boundary_faces: exactly the one-cell faces", f"got {np.asarray(allb).tolist()} expected {one.tolist()}"[:600]))
    ok, dom = guard("get_boundary_faces", g.get_boundary_faces)
    if ok:
        tag = np.asarray(g.tags["domain_boundary_faces"])
        if tag.shape != (nf,) or not np.array_equal(np.sort(np.asarray(dom)), np.where(tag)[0]) or not set(np.asarray(dom).tolist()) <= set(one.tolist()):
            bad.append(("get_boundary_faces: the domain_boundary_faces tag, all one-cell faces", f"got {np.asarray(dom).tolist()}"[:400]))
        if fresh and g.dim > 0 and not np.array_equal(np.where(tag)[0], one):
            bad.append(("Grid constructor: boundary tag = the one-cell faces",
                        f"tagged {np.where(tag)[0].tolist()} expected {one.tolist()}"[:600]))
    h = g.copy()
    ok, _ = guard("update_boundary_face_tag", h.update_boundary_face_tag)
    if ok:
        tag = np.asarray(h.tags["domain_boundary_faces"])
        exp = one if g.dim > 0 else np.zeros(0, dtype=int)
        if tag.shape != (nf,) or tag.dtype != bool or not np.array_equal(np.where(tag)[0], exp):
            bad.append(("update_boundary_face_tag: tags exactly the one-cell faces", f"tagged {np.where(tag)[0].tolist()} expected {exp.tolist()}"[:600]))
    ok, _ = guard("update_boundary_node_tag", h.update_boundary_node_tag)
    if ok:
        for ft, nt in (("domain_boundary_faces", "domain_boundary_nodes"), ("fracture_faces", "fracture_nodes"), ("tip_faces", "tip_nodes")):
            exp = FN[:, np.asarray(h.tags[ft], dtype=bool)].any(axis=1) if nf else np.zeros(g.num_nodes, dtype=bool)
            got = np.asarray(h.tags[nt])
            if got.shape != (g.num_nodes,) or not np.array_equal(got.astype(bool), exp):
                bad.append(("update_boundary_node_tag: node tagged iff on a face with that tag", f"{nt}: got {np.where(got)[0].tolist()} expected {np.where(exp)[0].tolist()}"[:600]))
    # the copy h has been re-tagged: the boundary-face queries of g itself must still agree with g's incidence
    ok, allb = guard("get_all_boundary_faces", g.get_all_boundary_faces)
    if ok and not np.array_equal(np.sort(np.asarray(allb)), one):
        bad.append(("get_all_boundary_faces: exactly the one-cell faces", f"after the tag updates on a copy: got {np.asarray(allb).tolist()} expected {one.tolist()}"[:600]))
    ok, dom = guard("get_boundary_faces", g.get_boundary_faces)
    if ok and (not set(np.asarray(dom).tolist()) <= set(one.tolist()) or (fresh and g.dim > 0 and not np.array_equal(np.sort(np.asarray(dom)), one))):
        bad.append(("get_boundary_faces: the domain_boundary_faces tag, all one-cell faces", f"after the tag updates on a copy: got {np.asarray(dom).tolist()}"[:400]))
    # --- signs_and_cells_of_boundary_faces
    if nf:
        cell_of = np.argmax(A, axis=1)
        queries = [one, one[::-1], np.array([], dtype=int)]
        if one.size:
            perm = list(one)
            rng.shuffle(perm)
            queries += [np.array(perm, dtype=int), one[:1], one[-1:], np.array([one[-1], one[0], one[-1]], dtype=int),
                        np.array(perm[: max(1, len(perm) // 2)], dtype=int)]
        for q in queries:
            ok, res = guard("signs_and_cells_of_boundary_faces", lambda q=q: g.signs_and_cells_of_boundary_faces(q))
            if ok:
                sgn, ci = np.asarray(res[0]), np.asarray(res[1])
                if sgn.shape != q.shape or ci.shape != q.shape or not np.array_equal(ci, cell_of[q]) or not np.array_equal(sgn, CF[q, cell_of[q]]):
                    bad.append(("signs_and_cells_of_boundary_faces: (sign, cell) = single incidence entry, input order",
                                f"faces {q.tolist()}: got sgn {sgn.tolist()} cells {ci.tolist()} expected sgn {CF[q, cell_of[q]].tolist()} cells {cell_of[q].tolist()}"[:700]))
        internal = np.where(A.sum(axis=1) == 2)[0]
        if internal.size:
            for q in (internal[:1], np.r_[one[:2], internal[-1:]].astype(int), np.r_[internal[-1:], one[:1]].astype(int)):
                try:
                    g.signs_and_cells_of_boundary_faces(q)
                    bad.append(("signs_and_cells_of_boundary_faces: ValueError on an internal face", f"faces {q.tolist()} accepted"))
                except ValueError:
                    pass
                except Exception as e:
                    bad.append(("signs_and_cells_of_boundary_faces: ValueError on an internal face", f"faces {q.tolist()}: {type(e).__name__}: {e}"))
    # --- cell_nodes
    ok, CN = guard("cell_nodes", g.cell_nodes)
    if ok:
        exp = (FN.astype(int) @ A.astype(int)) > 0
        got = np.asarray(CN.toarray()).astype(bool)
        if got.shape != exp.shape or not np.array_equal(got, exp):
            bad.append(("cell_nodes: (n,c) iff node n lies on a face of cell c", "mismatch"))
        ok2, ncn = guard("num_cell_nodes", g.num_cell_nodes)
        if ok2 and not np.array_equal(np.asarray(ncn).ravel(), exp.sum(axis=0)):
            bad.append(("num_cell_nodes: column sums of the cell-node relation", f"got {np.asarray(ncn).tolist()} expected {exp.sum(axis=0).tolist()}"[:400]))
    # --- divergence
    ok, d1 = guard("divergence", lambda: g.divergence(1))
    if ok:
        got = np.asarray(d1.toarray())
        if got.shape != (nc, nf) or not np.array_equal(got, CF.T):
            bad.append(("divergence(1): cell_faces^T", "mismatch"))
    for d in (2, 3):
        ok, dv = guard("divergence", lambda d=d: g.divergence(d))
        if ok:
            exp = np.zeros((nc * d, nf * d), dtype=int)
            for k in range(d):
                exp[k::d, k::d] = CF.T
            got = np.asarray(dv.toarray())
            if got.shape != exp.shape or not np.array_equal(got, exp) or not np.array_equal(exp, np.kron(CF, np.eye(d, dtype=int)).T):
                bad.append(("divergence(dim): kron(cell_faces, I_dim)^T", f"dim={d}"))
    for d in (0, -1):
        try:
            g.divergence(d)
            bad.append(("divergence(dim<=0): raises ValueError", f"dim={d} accepted"))
        except ValueError:
            pass
        except Exception as e:
            bad.append(("divergence(dim<=0): raises ValueError", f"dim={d}: {type(e).__name__}"))
    return bad


def _grid_class(g, fractured, sub):
    s = f"{g.dim}-d " + ("fractured " if fractured else "") + ("subgrid" if sub else "grid")
    return s


def _iter_grids(pp, rng, quick, tmpdir):
    """yield (desc, grid, fresh, fractured)"""
    def sub_of(g, sub):
        try:
            return pp.partition.extract_subgrid(g, np.array(sub, dtype=int))[0]
        except Exception as e:  # input construction failed inside porepy: reported, not a checker crash
            return e

    for d in _plain_descs(rng, quick):
        try:
            g = build_plain(pp, d)
        except Exception as e:
            yield dict(d), e, True, False
            continue
        yield dict(d), g, True, False
        for sub in _subsets(g.num_cells, rng, quick):
            if len(sub) == g.num_cells and sub == sorted(sub) and g.num_cells > 1 and quick:
                continue
            yield {**d, "subset": sub}, sub_of(g, sub), True, False
    for d in _md_descs(quick):
        try:
            sds = build_md(pp, d, tmpdir)
        except Exception as e:
            yield dict(d), e, False, True
            continue
        for i, sd in enumerate(sds):
            yield {**d, "subdomain": i}, sd, False, True
            if sd.dim == 0:
                continue
            for sub in _subsets(sd.num_cells, rng, quick)[: (3 if quick else 16)]:
                yield {**d, "subdomain": i, "subset": sub}, sub_of(sd, sub), True, True


def _history_cases(pp, rng, quick):
    for name in PROPAGATIONS:
        yield from _propagation_cases(pp, name, rng)
    for d in _plain_descs(rng, quick):
        yield from _periodic_cases(pp, d, rng)


def case_divergence(pp, d):
    """Tier P: the real Grid.divergence on a stub holding a cell-face matrix of symbolic shape and entries."""
    import z3
    from engine.arrays import SymMat
    from engine.sym import SymBool, iterm

    def run(ctx):
        nf, nc = ctx.int("nf"), ctx.int("nc")
        ctx.assume(nf >= 1)
        ctx.assume(nc >= 1)

        class Stub:
            pass

        g = Stub()
        g.cell_faces = SymMat.fresh("CF", nf, nc, "csc")
        if d <= 0:
            try:
                pp.Grid.divergence(g, d)
            except ValueError:
                return "rejected"
            ctx.prove("a non-positive dimension is rejected with ValueError", False)
            return "ok"
        D = pp.Grid.divergence(g, d)
        i, j = ctx.int("i"), ctx.int("j")
        ctx.assume((i >= 0) & (i < nc * d) & (j >= 0) & (j < nf * d))
        dd = z3.IntVal(d)
        ctx.prove("shape is (dim * num_cells, dim * num_faces)", SymBool(z3.And(iterm(D.shape[0]) == nc.t * d, iterm(D.shape[1]) == nf.t * d)))
        want = z3.If(i.t % dd == j.t % dd, g.cell_faces._entry(j.t / dd, i.t / dd), z3.RealVal(0))
        ctx.prove("entry (c*dim+k, f*dim+l) is cell_faces[f, c] for k == l and zero otherwise (the scalar divergence expanded per component)",
                  SymBool(D._entry(i.t, j.t) == want))
        ctx.prove("returned in csr format", D.getformat() == "csr")
        if d > 1:
            ctx.prove("CANARY: components are coupled", SymBool(D._entry(i.t, j.t) == g.cell_faces._entry(j.t / dd, i.t / dd)), expect_refuted=True)
        return "ok"

    return run


def prove(rep, pp):
    from engine import indexmodels, shims
    from engine.harness import run_case
    from porepy.grids import grid as gmod

    refuted = []
    with shims.shadow_builtins([gmod]), shims.numpy_shims(), indexmodels.index_shims():
        for d in (0, 1, 2, 3):
            rf, _ = run_case(rep, f"Grid.divergence(dim={d})", case_divergence(pp, d), allowed_exceptions=(ValueError,))
            refuted += rf
    rep.trust(*sorted(shims.USED_MODELS))
    for name, ctx, r in refuted:
        # the counter-model is over an abstract matrix; the sweep below evaluates the same clause on real grids and reports concrete inputs
        rep.violation(name, "deductive", inputs=None, detail=f"z3 counter-model: {r['model']}"[:1500], confirmed=False, solver_output=str(r["model"]))


def run(rep):
    import porepy as pp

    prove(rep, pp)
    rep.under_contract("Grid.cell_faces_as_dense", "Grid.cell_connection_map", "Grid.get_all_boundary_faces", "Grid.get_boundary_faces",
                       "Grid.update_boundary_face_tag", "Grid.update_boundary_node_tag", "Grid.signs_and_cells_of_boundary_faces",
                       "Grid.cell_nodes", "Grid.num_cell_nodes", "Grid.divergence", "Grid.__init__ (boundary tags)", "tags.all_face_tags")
    rep.assume("requires: each face has at most one cell of each sign (enforced by the Grid constructor); the incidence matrices are the given",
               "after fracture splitting the standard face tags (domain_boundary / fracture / tip) are those set by porepy's own splitting code; "
               "the clause checked is the statement's: their union is exactly the set of one-cell faces",
               "histories: 'for any grid' is read as 'for any grid object at any time it is queried': a query issued after an in-place "
               "modification (propagate_fractures), or on a grid whose copy / original was modified (propagate_fractures, "
               "set_periodic_map), is specified against that object's own current cell_faces")
    rep.under_contract("Grid.copy (queries of a grid and of its copy are independent)")
    rep.trust("gmsh and pp.mdg_library only as generators of simplex fractured inputs",
              "pp.propagate_fracture.propagate_fractures, Grid.set_periodic_map, Grid.compute_geometry only as producers of modified grids "
              "(the incidence they leave behind is the given; the face tags they leave behind are checked against it)")
    quick = rep.tier == "quick"
    tmpdir = tempfile.mkdtemp(prefix="verif_c21_", dir="/var/tmp")
    try:
        with rep.sweep(
            "connectivity queries vs incidence",
            rule="plain grids (Cart/Tensor/structured simplex 1..3 cells per direction, Delaunay) + every subdomain of fractured md-grids "
                 "(pp.meshing.cart_grid: 7 two-dimensional and 5 three-dimensional fracture configurations; pp.mdg_library simplex) + "
                 "subgrids from extract_subgrid (first cell, last cell, all, every other cell, seeded random unsorted subsets); all queries "
                 "evaluated on each grid; non-trivial = grid has an internal face or a fracture/tip tag; distinct by (source, subdomain, subset)",
            bound="<= 3 cells per direction for plain grids; fractured Cartesian grids <= 27 cells; simplex md-grids cell_size >= 0.3; "
                  "<= 5 (quick) / 16 (thorough) subsets per grid",
            exhaustive=False,
        ) as sw:
            for desc, g, fresh, fractured in _iter_grids(pp, rep.rng, quick, tmpdir):
                if isinstance(g, Exception):
                    sw.case(repr(sorted((k, repr(v)) for k, v in desc.items()))[:400], nontrivial=False)
                    rep.violation("input construction: porepy builds the enumerated grid", ("subgrid" if "subset" in desc else "grid") + " " + str(desc.get("src")),
                                  inputs=desc, detail=f"{type(g).__name__}: {g}", confirmed=True)
                    continue
                bad = check_grid(pp, g, rep.rng, fresh)
                if bad is None:
                    sw.skip()
                    continue
                A = np.asarray(g.cell_faces.toarray()) != 0
                nontriv = bool(np.any(A.sum(axis=1) == 2)) or fractured
                key = repr(sorted((k, repr(v)) for k, v in desc.items()))[:400]
                sw.case(key, nontrivial=nontriv, sample={k: (v if len(repr(v)) < 120 else "...") for k, v in desc.items()})
                for ob, detail in bad:
                    rep.violation(ob, _grid_class(g, fractured, "subset" in desc), inputs=desc, detail=detail, confirmed=True)
        with rep.sweep(
            "connectivity queries vs the current incidence along modification histories",
            rule="(a) the 15 fracture-propagation histories of PROPAGATIONS (pp.meshing.cart_grid md-grid, 1..3 calls of "
                 "propagate_fractures): all queries on every subdomain before and after each in-place step, a Grid.copy() of every "
                 "subdomain taken at every stage and queried at that and every later stage; (b) every plain grid of the first sweep, "
                 "each coordinate axis whose two boundary sides have equally many faces: copy, set_periodic_map on the copy / on the "
                 "original, all queries on the other grid; expected values always from the queried object's own current cell_faces; "
                 "non-trivial = the queried grid or its copy/original was modified after an earlier query (a) or has an internal face (b); "
                 "distinct by (history, stage, subdomain, stage of copy) / (grid, axis, modified side)",
            bound="<= 3 propagation steps, Cartesian md-grids <= 27 cells, one or two non-intersecting fractures; plain grids <= 3 cells "
                  "per direction; set_periodic_map and propagate_fractures are the only in-place modifiers exercised",
            exhaustive=False,
        ) as sw:
            for desc, g, bad, hist in _history_cases(pp, rep.rng, quick):
                key = repr(sorted((k, repr(v)) for k, v in desc.items()))[:400]
                if g is None or bad is None and not isinstance(g, Exception):
                    sw.skip()  # requires: opposite sides match (periodic) / at most one cell of each sign per face
                    continue
                if isinstance(g, Exception):
                    sw.case(key, nontrivial=False)
                    rep.violation("input construction: porepy builds the enumerated grid", "history " + str(desc.get("history", desc.get("src"))),
                                  inputs=desc, detail=f"{type(g).__name__}: {g}", confirmed=True)
                    continue
                if desc.get("src") == "propagation":
                    nontriv = desc["stage"] > desc.get("copied_at", 0)
                else:
                    nontriv = bool(np.any(np.diff(g.cell_faces.tocsr().indptr) == 2))
                sw.case(key, nontrivial=nontriv, sample={k: (v if len(repr(v)) < 120 else "...") for k, v in desc.items()})
                for ob, detail in bad:
                    rep.violation(ob, f"{g.dim}-d grid, {hist}", inputs=desc, detail=detail, confirmed=True)
    finally:
        shutil.rmtree(tmpdir, ignore_errors=True)


def replay(data):
    import random

    import porepy as pp

    d = dict(data["inputs"])
    if d.get("src") == "propagation" or d.get("history") == "periodic":
        # re-run the whole history and look at the same case
        if d.get("src") == "propagation":
            cases = _propagation_cases(pp, d["cfg"], random.Random(0))
        else:
            plain = {k: v for k, v in d.items() if k not in ("history", "axis", "modified")}
            cases = _periodic_cases(pp, plain, random.Random(0))
        hit = False
        for desc, g, bad, _ in cases:
            if desc == d:
                print("replay:", g if isinstance(g, Exception) else bad)
                hit = isinstance(g, Exception) if data["obligation"].startswith("input construction") else any(ob == data["obligation"] for ob, _ in (bad or []))
        return hit
    sub = d.pop("subset", None)
    tmpdir = tempfile.mkdtemp(prefix="verif_c21_", dir="/var/tmp")
    try:
        if d["src"] in ("cart_grid", "mdg_library"):
            i = d.pop("subdomain")
            g = build_md(pp, d, tmpdir)[i]
            fresh = False
        else:
            g = build_plain(pp, d)
            fresh = True
        if sub is not None:
            g, _, _ = pp.partition.extract_subgrid(g, np.array(sub, dtype=int))
            fresh = True
        bad = check_grid(pp, g, random.Random(0), fresh) or []
    finally:
        shutil.rmtree(tmpdir, ignore_errors=True)
    print("replay:", bad)
    return any(ob == data["obligation"] for ob, _ in bad)
