"""C39 — boundary condition objects partition the boundary faces.

Tier P : the real BoundaryCondition.__init__ and BoundaryConditionVectorial.__init__/set_bc run on a stub grid whose
         number of faces, boundary-face index array, tag arrays, assigned-face array and condition list all have
         symbolic length and content.  The per-face loop is a cut-point (engine/cutpoint.py rewrites that loop of the
         real source) with the invariant "faces among the first j assigned ones carry their assigned type, all other
         boundary faces are Neumann, faces off the boundary carry nothing".  Postconditions at a Skolem face (and each
         component for the vectorial class): exactly one type on boundary faces, none elsewhere, unassigned boundary
         faces Neumann, assigned faces carry the assigned type; assignment off the boundary raises ValueError.
Tier B : real grids (Cartesian, simplex, fracture-split 2-D/3-D) x assignments by index array or mask, str or list
         conditions, mixed case, all three types.
"""
from __future__ import annotations

META = {
    "level": "other",
    "engine": "pse",
    "technique": "contract-based deductive verification: constructor postconditions with a cut-point loop invariant over the real per-face loop, discharged by z3 for symbolic face counts / index arrays / condition lists; run-time contract sweep on real (incl. fracture-split) grids as bounded stand-in",
    "text": "Tier P: for every number of faces, boundary set, assigned index array (distinct boundary faces) and condition list over "
            "{dir, neu, rob}, the scalar and vectorial constructors give exactly one type on every boundary face, none on other faces, Neumann on "
            "unassigned boundary faces and the assigned type on assigned faces (per component); faces off the boundary are rejected. "
            "Tier B: the same clauses on real grids incl. split fractured grids, index and mask forms. Mixed tiers -> level 'other'.",
    "note": "requires: assigned faces pairwise distinct; conditions in {dir, neu, rob} up to case (strings are opaque codes compared with the literals after "
            ".lower()); grid stub = the C21 contract of get_all_boundary_faces / tags; numpy scatter, isin, all, argwhere, zeros, arange models; "
            "the boolean-mask form is covered in tier B only",
}

import warnings

import numpy as np
import z3

from engine import cutpoint, shims, sym
from engine.arrays import I0, IndexSet, SymArray, SymRows, scatter_functions
from engine.harness import run_case
from engine.sym import SymBool, SymInt, iterm

NEU, DIR, ROB = 0, 1, 2
LIT = {"neu": NEU, "dir": DIR, "rob": ROB}


class SymStr:
    """condition string known only through its code; .lower() is the identity on codes"""

    def __init__(self, code):
        self.code = code

    def lower(self):
        return self

    def strip(self):
        return self

    def __eq__(self, o):
        if isinstance(o, str):
            if o in LIT:
                return sym.concrete(SymBool(self.code == LIT[o]))
            return False
        return NotImplemented

    def __hash__(self):
        return id(self)

    def __format__(self, spec):
        return "<cond>"


class CondSeq:
    _pretend = (list,)

    def __init__(self, n, codef):
        self.n, self.codef = n, codef

    def _sym_len(self):
        return self.n

    def __getitem__(self, k):
        return SymStr(self.codef(iterm(k)))


class StubGrid:
    """what the constructors touch of a grid: sizes, boundary faces (C21 contract), tags"""

    def __init__(self, ctx, dim):
        self.dim = dim
        self.num_faces = ctx.int("nf")
        ctx.assume(self.num_faces >= 1)
        self.nb = ctx.int("nb")
        ctx.assume(self.nb >= 0)
        self.bf = SymArray.fresh("bf", self.nb, "int")
        self.tags = {"fracture_faces": SymArray.fresh("frac", self.num_faces, "bool"),
                     "domain_boundary_faces": SymArray.fresh("dom", self.num_faces, "bool"),
                     "tip_faces": SymArray.fresh("tip", self.num_faces, "bool")}

    def get_all_boundary_faces(self):
        return self.bf


class Hooks:
    def __init__(self, arrays, onbf, F, q, code, vectorial):
        self.arrays, self.onbf, self.F, self.q, self.code, self.vectorial = arrays, onbf, F, q, code, vectorial

    def havoc(self, ctx):
        for a in self.arrays():
            f = z3.Function(ctx.fresh_name("flag"), z3.IntSort(), z3.BoolSort())
            a._elem = lambda i, f=f: f(i)

    def inv(self, ctx, j, r):
        HF, IF = scatter_functions(self.F)
        jt = iterm(j)
        g = z3.Int("__g")
        out = []
        for comp, (neu, dire, rob) in enumerate(self.arrays(grouped=True)):
            done = z3.And(HF(g), IF(g) < jt)
            cg = self.code(IF(g))
            out.append((f"component {comp}: is_dir = assigned 'dir' among the first j faces",
                        SymBool(z3.ForAll([g], dire._elem(g) == z3.And(done, cg == DIR)))))
            out.append((f"component {comp}: is_rob = assigned 'rob' among the first j faces",
                        SymBool(z3.ForAll([g], rob._elem(g) == z3.And(done, cg == ROB)))))
            out.append((f"component {comp}: is_neu = boundary face not yet assigned 'dir' or 'rob'",
                        SymBool(z3.ForAll([g], neu._elem(g) == z3.And(self.onbf(g), z3.Not(z3.And(done, cg != NEU)))))))
        return out


def case_ctor(pp, vectorial, cond_kind):
    from porepy.params import bc as bcmod

    def run(ctx):
        sd = StubGrid(ctx, 2)
        Hbf, Ibf = scatter_functions(sd.bf)
        q = ctx.int("q")
        ctx.assume(q >= 0)
        F = SymArray.fresh("F", q, "int")  # assigned faces: distinct (scatter axioms) ...
        HF, IF = scatter_functions(F)
        kk = z3.Int("__kf")
        ctx.assume(SymBool(z3.ForAll([kk], z3.Implies(z3.And(kk >= 0, kk < q.t), z3.And(F._elem(kk) >= 0, F._elem(kk) < sd.num_faces.t)))))
        codef = z3.Function("cond_code", z3.IntSort(), z3.IntSort())
        if cond_kind == "list":
            ctx.assume(SymBool(z3.ForAll([kk], z3.And(codef(kk) >= 0, codef(kk) <= 2))))
            cond = CondSeq(q, lambda k: codef(k))
            code = lambda k: codef(k)
        else:
            lit = {"dir": DIR, "neu": NEU, "rob": ROB}[cond_kind]
            cond = {"dir": "dir", "neu": "NEU", "rob": "Rob"}[cond_kind]
            code = lambda k: z3.IntVal(lit)
        cls = pp.BoundaryConditionVectorial if vectorial else pp.BoundaryCondition
        holder = {}

        def arrays(grouped=False):
            o = holder["obj"]
            if vectorial:
                groups = [(o.is_neu.rows[c], o.is_dir.rows[c], o.is_rob.rows[c]) for c in range(sd.dim)]
            else:
                groups = [(o.is_neu, o.is_dir, o.is_rob)]
            return groups if grouped else [a for g in groups for a in g]

        hooks = Hooks(arrays, lambda g: Hbf(g), F, q, code, vectorial)
        target = cls.set_bc if vectorial else cls.__init__
        newf, desc, tok = cutpoint.rewrite_loop(target, 0, hooks, "per-face loop")
        ctx.trace.append(("cutpoint", desc))
        obj = cls.__new__(cls)
        holder["obj"] = obj
        name = "set_bc" if vectorial else "__init__"
        try:
            with shims.patched(cls, name, newf), warnings.catch_warnings():
                warnings.simplefilter("ignore")
                cls.__init__(obj, sd, F, cond)
        except ValueError:
            onb = z3.ForAll([kk], z3.Implies(z3.And(kk >= 0, kk < q.t), Hbf(F._elem(kk))))
            ctx.prove("ValueError only if some assigned face is not a boundary face", SymBool(z3.Not(onb)))
            return "rejected"
        finally:
            cutpoint.restore(tok)
        g = ctx.int("g")
        ctx.assume((g >= 0) & (g < sd.num_faces))
        onbf = Hbf(g.t)
        assigned = HF(g.t)
        cg = code(IF(g.t))
        for comp, (neu, dire, rob) in enumerate(arrays(grouped=True)):
            n_, d_, r_ = neu._elem(g.t), dire._elem(g.t), rob._elem(g.t)
            b2i = lambda b: z3.If(b, 1, 0)
            tag = f"component {comp}: " if vectorial else ""
            ctx.prove(tag + "a boundary face carries exactly one condition type", SymBool(z3.Implies(onbf, b2i(n_) + b2i(d_) + b2i(r_) == 1)))
            ctx.prove(tag + "a face off the boundary carries none", SymBool(z3.Implies(z3.Not(onbf), z3.Not(z3.Or(n_, d_, r_)))))
            ctx.prove(tag + "an unassigned boundary face is Neumann", SymBool(z3.Implies(z3.And(onbf, z3.Not(assigned)), z3.And(n_, z3.Not(d_), z3.Not(r_)))))
            ctx.prove(tag + "an assigned face carries the assigned type",
                      SymBool(z3.Implies(assigned, z3.And(d_ == (cg == DIR), r_ == (cg == ROB), n_ == (cg == NEU)))))
            ctx.prove(tag + "accepted assignments are on the boundary", SymBool(z3.Implies(assigned, onbf)))
            if comp == 0 and cond_kind in ("list", "dir", "rob"):
                ctx.assume(q >= 1)
                ctx.prove("CANARY: every boundary face is Neumann", SymBool(z3.Implies(onbf, n_)), expect_refuted=True)
        return "ok"

    return run


# ----------------------------------------------------------------------------- tier B


def _grids(pp, rng, quick):
    out = []
    out.append(("cart2", pp.CartGrid([3, 2])))
    out.append(("cart3", pp.CartGrid([2, 2, 2])))
    out.append(("tri", pp.StructuredTriangleGrid([2, 2])))
    out.append(("cart1", pp.CartGrid([4])))
    if not quick:
        out.append(("tet", pp.StructuredTetrahedralGrid([2, 1, 1])))
    for fr, nx, nm in (([np.array([[1, 1], [0, 2]])], [2, 2], "frac2d"), ([np.array([[1, 1], [0, 1]])], [2, 2], "tip2d"),
                       ([np.array([[1, 1, 1, 1], [0, 2, 2, 0], [0, 0, 2, 2]])], [2, 2, 2], "frac3d")):
        mdg = pp.meshing.cart_grid(fr, np.array(nx))
        for sd in mdg.subdomains():
            if sd.dim > 0:
                out.append((f"{nm}-dim{sd.dim}", sd))
    for _, g in out:
        g.compute_geometry()
    return out


def _sweep(rep, pp):
    rng = rep.rng
    quick = rep.tier == "quick"
    with rep.sweep("boundary conditions on real grids",
                   rule="grids (Cartesian 1-3D, simplex, fracture-split 2-D/3-D hosts and fracture grids) x {no assignment, all boundary faces, seeded subsets} "
                        "x {index array, boolean mask} x {single string, per-face list with mixed case over dir/neu/rob} x {scalar, vectorial}; expected flags "
                        "computed from cell_faces (boundary = faces with one adjacent cell); nontrivial = some face assigned; distinct by (grid, class, "
                        "form, faces, conditions)", bound="11 grids, 12 (quick) / 60 (thorough) assignments per grid and class", exhaustive=False) as sw:
        for gname, g in _grids(pp, rng, quick):
            cf = g.cell_faces.tocsr()
            bf = np.flatnonzero(np.diff(cf.indptr) == 1)
            onb = np.zeros(g.num_faces, dtype=bool)
            onb[bf] = True
            for vect in (False, True):
                if vect and g.dim == 1:
                    pass
                cls = pp.BoundaryConditionVectorial if vect else pp.BoundaryCondition
                ncase = 12 if quick else 60
                for c in range(ncase):
                    if c == 0:
                        faces, conds, form = None, None, "none"
                    else:
                        k = bf.size if c == 1 else rng.randint(1, max(1, bf.size))
                        faces = np.array(sorted(rng.sample(list(bf), k))) if c % 3 else np.array(rng.sample(list(bf), k))
                        if c % 2:
                            conds = rng.choice(["dir", "neu", "rob", "DIR", "Neu"])
                            want = [conds.lower()] * k
                        else:
                            want = [rng.choice(["dir", "neu", "rob"]) for _ in range(k)]
                            conds = [w.upper() if rng.random() < 0.3 else w for w in want]
                        form = "index"
                        if c % 4 == 0 and isinstance(conds, list):
                            # a face named twice with two different types: whatever the reading, it must end up with exactly one type
                            # (the last assignment, as for any sequence of assignments)
                            other = {"dir": "rob", "rob": "dir", "neu": "rob"}[want[0]]
                            faces = np.append(faces, faces[0])
                            want = want + [other]
                            conds = conds + [other]
                            form = "index with a repeated face"
                        if c % 4 == 3:
                            mask = np.zeros(g.num_faces, dtype=bool)
                            mask[faces] = True
                            order = np.flatnonzero(mask)
                            lookup = dict(zip(faces.tolist(), want))
                            want = [lookup[f] for f in order.tolist()]
                            if isinstance(conds, list):
                                conds = list(want)
                            faces_arg, faces = mask, order
                            form = "mask"
                        else:
                            faces_arg = faces
                    key = (gname, vect, form, None if faces is None else tuple(faces.tolist()), None if faces is None else tuple(want))
                    inp = {"grid": gname, "vectorial": vect, "form": form, "faces": None if faces is None else faces.tolist(), "cond": None if faces is None else want}
                    try:
                        with warnings.catch_warnings():
                            warnings.simplefilter("ignore")
                            bc = cls(g) if faces is None else cls(g, faces_arg, conds)
                    except Exception as e:  # noqa
                        rep.violation("constructor accepts assignments on boundary faces", f"raises {type(e).__name__} ({form})", inputs=inp, detail=str(e)[:200])
                        continue
                    sw.case(key, nontrivial=faces is not None, sample=inp)
                    exp = {t: np.zeros(g.num_faces, dtype=bool) for t in ("neu", "dir", "rob")}
                    exp["neu"][bf] = True
                    if faces is not None:
                        for f, w in zip(faces.tolist(), want):
                            for t in exp:
                                exp[t][f] = (t == w)
                    got = {"neu": np.atleast_2d(bc.is_neu), "dir": np.atleast_2d(bc.is_dir), "rob": np.atleast_2d(bc.is_rob)}
                    ncomp = g.dim if vect else 1
                    for t in exp:
                        if got[t].shape != (ncomp, g.num_faces):
                            rep.violation("flag arrays have one entry per (component,) face", "shape", inputs=inp, detail=f"is_{t}: {got[t].shape}")
                            break
                    else:
                        tot = got["neu"].astype(int) + got["dir"].astype(int) + got["rob"].astype(int)
                        if not np.all(tot[:, onb] == 1):
                            rep.violation("every boundary face carries exactly one condition type", f"{'vectorial' if vect else 'scalar'} {form}", inputs=inp, detail=str(tot.tolist()))
                        if np.any(tot[:, ~onb] != 0):
                            rep.violation("interior faces carry no condition", f"{'vectorial' if vect else 'scalar'} {form}", inputs=inp, detail=str(tot.tolist()))
                        for t in exp:
                            if not np.array_equal(got[t], np.tile(exp[t], (ncomp, 1))):
                                rep.violation("assigned faces carry the assigned type, unassigned boundary faces are Neumann", f"{'vectorial' if vect else 'scalar'} {form} is_{t}",
                                              inputs=inp, detail=f"is_{t} = {got[t].astype(int).tolist()} expected {exp[t].astype(int).tolist()}")
                    # history: a second assignment through set_bc replaces the first one on the faces it names (vectorial class only;
                    # the scalar class has no set_bc)
                    if vect and faces is not None and c % 2 == 0:
                        sub = faces[: max(1, faces.size // 2)]
                        second = [rng.choice(["dir", "neu", "rob"]) for _ in range(sub.size)]
                        inp2 = dict(inp, then_set_bc={"faces": sub.tolist(), "cond": second})
                        try:
                            with warnings.catch_warnings():
                                warnings.simplefilter("ignore")
                                bc.set_bc(sub, list(second))
                        except Exception as e:  # noqa
                            rep.violation("constructor accepts assignments on boundary faces", f"set_bc raises {type(e).__name__}", inputs=inp2, detail=str(e)[:200])
                        else:
                            exp2 = {t: exp[t].copy() for t in exp}
                            for f, w in zip(sub.tolist(), second):
                                for t in exp2:
                                    exp2[t][f] = (t == w)
                            got2 = {"neu": bc.is_neu, "dir": bc.is_dir, "rob": bc.is_rob}
                            tot2 = sum(got2[t].astype(int) for t in got2)
                            sw.case(key + ("then set_bc", tuple(sub.tolist()), tuple(second)), nontrivial=True)
                            if not np.all(tot2[:, onb] == 1):
                                rep.violation("every boundary face carries exactly one condition type", "vectorial, second assignment through set_bc", inputs=inp2, detail=str(tot2.tolist()))
                            elif any(not np.array_equal(got2[t], np.tile(exp2[t], (g.dim, 1))) for t in exp2):
                                rep.violation("assigned faces carry the assigned type, unassigned boundary faces are Neumann", "vectorial, second assignment through set_bc",
                                              inputs=inp2, detail=f"is_dir = {got2['dir'].astype(int).tolist()} expected {exp2['dir'].astype(int).tolist()}")
                    # assignment off the boundary is rejected
                    interior = np.flatnonzero(~onb)
                    if interior.size and c == 2:
                        try:
                            with warnings.catch_warnings():
                                warnings.simplefilter("ignore")
                                cls(g, interior[:1], "dir")
                            rep.violation("conditions can only be given on boundary faces", "interior face accepted", inputs={"grid": gname, "vectorial": vect, "faces": interior[:1].tolist()}, detail="no ValueError")
                        except ValueError:
                            pass


def replay(data):
    return False


def run(rep):
    import porepy as pp
    from porepy.params import bc as bcmod

    rep.under_contract("BoundaryCondition.__init__", "BoundaryConditionVectorial.__init__", "BoundaryConditionVectorial.set_bc")
    rep.assume("requires: assigned faces pairwise distinct and in range; condition strings in {dir, neu, rob} up to case",
               "grid stub: get_all_boundary_faces() returns pairwise distinct face indices (C21 contract, checked there)")
    refuted = []
    with shims.shadow_builtins([bcmod]), shims.numpy_shims():
        for vect in (False, True):
            for ck in ("list", "dir", "rob", "neu"):
                rf, _ = run_case(rep, f"{'BoundaryConditionVectorial' if vect else 'BoundaryCondition'}(faces, cond={ck})", case_ctor(pp, vect, ck),
                                 allowed_exceptions=(ValueError,))
                refuted += rf
    rep.trust(*sorted(shims.USED_MODELS))
    rep.trust("engine/cutpoint.py AST rewriting of the per-face for-loop (source re-read every run)")
    for name, ctx, r in refuted:
        rep.violation(name, name.split(":")[0], inputs=None, detail=f"z3 counter-model: {r['model']}"[:1500], confirmed=False, solver_output=str(r["model"]))
    _sweep(rep, pp)
