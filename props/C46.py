"""C46 -- SparseNdArray behaves like a dictionary of coordinates (tier B, exhaustive small scope over histories).

Function under contract: pp.array_operations.SparseNdArray (add, get), the real class.

Abstract view (from the statement): a plain dict D : coordinate tuple -> value vector, maintained here with dictionary
semantics and never read from the object:
    add(coords, values, additive=False):  for (c, v) in zip(coords, values) in order:  D[c] = v          (last write wins)
    add(coords, values, additive=True) :  for (c, v) in zip(...):                     D[c] = D.get(c, 0) + v
Obligations, evaluated after *every* operation of every history on every coordinate of the box:
    get: present coordinate returns D[c]            (single query, shape (value_dim, 1); and all present keys in one query, in
                                                      increasing and decreasing order, and with a repeated key)
    get: absent coordinate raises ValueError        (alone and mixed with present ones)
    add: returned indices identify the newly stored coordinates (one batch index per new key, pointing at that key)
Values are distinct powers of two (position-coded), so every sum is exact and a value in a wrong slot cannot be mistaken.

Value kinds (added): the statement does not fix the dtype in which a batch hands over its values, so batches are also given as int64,
float32 and float64 with a non-integer part, mixed within a history (1-d trees exhaustive over 4 kinds, seeded 1/2/3-d histories).  The
dictionary holds the numbers handed over as Python floats: a coordinate first stored from an integer-typed batch must afterwards hold a
non-integer overwrite / sum exactly, and such an add() must return normally.  Signatures of this family name the value kinds.

History tree: the object is deep-copied at each node, so all histories sharing a prefix share its execution.  A subtree is cut
at the first failing operation (later states are corrupt; this keeps one failure class per signature).

Expected on the unchanged tree (DESIGN section 7, F5): add() pairs the *sorted* storage indices returned by intersect_sets with the
lexicographically sorted batch coordinates; when a batch touches >= 2 existing coordinates whose storage (insertion) order differs
from their sorted order the values land in each other's slots.  Native reproduction:
    a = SparseNdArray(1); a.add([np.array([5])], np.array([1.])); a.add([np.array([1])], np.array([2.]))
    a.add([np.array([1]), np.array([5])], np.array([10., 50.])); a.get([np.array([1])])  -> 50 (expected 10)
Signature "batch hits existing coords out of storage order".  The classifier tracks the insertion order of keys (new keys of one
batch in sorted order) only to name the failing class; the verdict never uses it.

Second defect found by this sweep (not in DESIGN): in overwrite mode without duplicates add() maps the values with the *inverse*
index of np.unique (`values[:, all_2_unique]`) where the forward index (`unique_2_all`) is needed; the two coincide only when the
sorting permutation of the batch is an involution, so a batch of >= 3 distinct coordinates in cyclic order is stored wrongly:
    a = SparseNdArray(1); a.add([np.array([1]), np.array([2]), np.array([0])], np.array([10., 20., 30.]))
    a.get([np.array([0])]) -> 20 (expected 30); the additive path (np.bincount) is right.
Signature "overwrite batch of distinct coords whose sorting permutation is not an involution".

Detection power (scratch copy, POREPY_SRC, quick tier; exit 1 with the named obligation *and a signature other than the F5 one*):
  M1 add: overwrite branch picks `np.where(all_2_unique == i)[0][0]` (first instead of last duplicate)
       -> "get: present coordinate returns the dictionary value", signature "duplicates inside the batch, overwrite".
  M2 add: `if additive: self._values[:, ind] += ...` -> `=` (additive add on existing coordinates overwrites)
       -> same obligation, signature "existing coordinate, additive".
  M3 get: `intersect_sets(coord_array, self._coords)` -> `intersect_sets(coord_array, self._coords, 1.0)` (neighbouring coordinates
       match) -> "get: absent coordinate raises ValueError" and "get: one value column per queried coordinate".
       (`np.any(np.logical_not(is_mem))` -> `np.all` is observationally equivalent here: the ragged index list makes np.ravel raise
       ValueError as well; not counted.)
  M4 add: `new_coord = unique_coords[:, np.logical_not(is_mem)]` -> `... | (unique_coords[0] == 1)` (an existing coordinate is stored twice)
       -> "get: one value column per queried coordinate (stored coordinates are distinct)" and the value obligation.
"""
from __future__ import annotations

META = {
    "level": "exploration",
    "engine": "sweep",
    "technique": "run-time contract sweep (bounded stand-in for deduction): exhaustive tree of add/get histories in a small coordinate box, "
                 "abstract dictionary maintained by the checker, every coordinate of the box read back after every operation",
    "text": "Bounded assurance: every history of <= 3 batches (batch length <= 2 in quick, <= 3 in thorough for 1-d; see the sweep rules) over "
            "coordinates {0,1,2} (1-d) and {0,1}^2 (2-d), additive and overwriting mixed, is executed on the real class and compared with a "
            "dict after each operation. np.unique(axis=1) and KDTree keep the body out of the symbolic engine. Vector values (value_dim 2) and "
            "3-d coordinates are seeded samples only. Value kinds: batches given as int64 / float32 / non-integer float64 mixed within a history "
            "(1-d: every history of <= 2 batches of length <= 2 and of 3 batches of length 1 in quick; seeded 1/2/3-d samples); the dict holds "
            "the handed-over numbers as floats, so storage that keeps the dtype of the first batch is caught.",
    "note": "trusted: Python dict semantics, copy.deepcopy of the object between history branches; values are powers of two (exact sums)",
}

import copy
import itertools

import numpy as np

SIG_F5 = "batch hits existing coords out of storage order"
SIG_PERM = "overwrite batch of distinct coords whose sorting permutation is not an involution"


def _val(depth, pos, comp=0):
    # distinct powers of two: exact in float64, sums decode uniquely
    return float(2 ** (4 * depth + pos + 16 * comp))


class _Model:
    """dict + bookkeeping used only for signatures"""

    def __init__(self, value_dim):
        self.D = {}
        self.order = []  # insertion order of keys (new keys of one batch in sorted order)
        self.value_dim = value_dim
        self.kinds = []  # value kind (dtype / integer or not) of each non-empty batch so far; signatures only

    def clone(self):
        m = _Model(self.value_dim)
        m.D = dict(self.D)
        m.order = list(self.order)
        m.kinds = list(self.kinds)
        return m

    def apply(self, coords, values, additive):
        """returns the set of keys that were new"""
        new = []
        for c, v in zip(coords, values):
            if c not in self.D and c not in new:
                new.append(c)
            if additive and c in self.D:
                self.D[c] = tuple(a + b for a, b in zip(self.D[c], v))
            else:
                self.D[c] = tuple(v)
        self.order += sorted(new)
        return new


VALUE_KINDS = [("int64", False), ("float64", True), ("float32", False), ("float64", False)]


def _kind_name(vdtype, frac):
    return vdtype + (" non-integer" if frac else (" integer-valued" if vdtype.startswith("float") else ""))


def _signature(model_before, coords, additive, vdtype="float64", frac=False):
    sig = _signature0(model_before, coords, additive)
    default = _kind_name("float64", False)
    kind = _kind_name(vdtype, frac)
    earlier = sorted(set(model_before.kinds))
    if kind == default and all(k == default for k in earlier):
        return sig
    return sig + "; batch values given as %s, earlier batches as %s" % (kind, ", ".join(earlier) if earlier else "nothing")


def _signature0(model_before, coords, additive):
    existing = sorted({c for c in coords if c in model_before.D})
    pos = [model_before.order.index(c) for c in existing]
    dup = len(set(coords)) < len(coords)
    newk = [c for c in coords if c not in model_before.D]
    if len(existing) >= 2 and pos != sorted(pos):
        return SIG_F5
    if not additive and not dup and len(coords) >= 3:
        p = sorted(range(len(coords)), key=lambda k: coords[k])  # sorting permutation of the batch
        if any(p[p[k]] != k for k in range(len(p))):
            return SIG_PERM
    if dup and not additive:
        return "duplicates inside the batch, overwrite"
    if dup:
        return "duplicates inside the batch, additive"
    if existing and newk:
        return "batch mixes new and existing coordinates"
    if existing:
        return "existing coordinate, " + ("additive" if additive else "overwrite")
    if not coords:
        return "empty batch"
    return "new coordinates only"


def _check_state(arr, model, box, dim):
    """Read back every coordinate of the box.  Returns list of (obligation, detail)."""
    vd = model.value_dim
    bad = []
    present = sorted(model.D)
    for c in box:
        q = [np.array(c, dtype=int)]
        if c in model.D:
            try:
                r = np.asarray(arr.get(q))
            except Exception as e:  # noqa
                bad.append(("get: present coordinate returns the dictionary value", f"get({c}) raised {type(e).__name__}: {e}"))
                continue
            exp = np.array(model.D[c], dtype=float).reshape(vd, 1)
            if r.shape != exp.shape:
                bad.append(("get: one value column per queried coordinate (stored coordinates are distinct)", f"get({c}) has shape {r.shape}"))
            elif not np.array_equal(r, exp):
                bad.append(("get: present coordinate returns the dictionary value", f"get({c}) = {r.ravel().tolist()}, dictionary holds {exp.ravel().tolist()}"))
        else:
            try:
                r = arr.get(q)
                bad.append(("get: absent coordinate raises ValueError", f"get({c}) returned {np.asarray(r).tolist()}"))
            except ValueError:
                pass
            except Exception as e:  # noqa
                bad.append(("get: absent coordinate raises ValueError", f"get({c}) raised {type(e).__name__}: {e}"))
    if bad:
        return bad
    if present:
        for keys in (present, present[::-1], present + present[:1]):
            try:
                r = np.asarray(arr.get([np.array(c, dtype=int) for c in keys]))
            except Exception as e:  # noqa
                bad.append(("get: several present coordinates in one query", f"get({keys}) raised {type(e).__name__}: {e}"))
                break
            exp = np.array([model.D[c] for c in keys], dtype=float).T.reshape(vd, len(keys))
            if r.shape != exp.shape or not np.array_equal(r, exp):
                bad.append(("get: several present coordinates in one query", f"get({keys}) = {r.tolist()}, expected {exp.tolist()}"))
                break
        absent = [c for c in box if c not in model.D]
        if absent:
            try:
                arr.get([np.array(present[0], dtype=int), np.array(absent[0], dtype=int)])
                bad.append(("get: absent coordinate raises ValueError", f"query mixing present {present[0]} and absent {absent[0]} returned"))
            except ValueError:
                pass
            except Exception as e:  # noqa
                bad.append(("get: absent coordinate raises ValueError", f"mixed query raised {type(e).__name__}: {e}"))
    return bad


def _do_add(arr, model, coords, depth, additive, vdtype="float64", frac=False):
    """Apply one batch to the object and to the model.  Returns (violations, model_after).

    vdtype: numpy dtype in which the value array is handed to add(); frac: the values get a non-integer part 2**-(1+4*depth+pos) (float
    dtypes only).  The dictionary holds, as Python floats, exactly the numbers that were handed over."""
    vd = model.value_dim
    raw = [[_val(depth, p, k) + (2.0 ** -(1 + 4 * depth + p) if frac else 0.0) for k in range(vd)] for p in range(len(coords))]
    given = np.array(raw, dtype=float).reshape(len(coords), vd).T.astype(vdtype)  # (vd, n), in the dtype handed to add()
    vals = [tuple(float(given[k, p]) for k in range(vd)) for p in range(len(coords))]
    varr = given if vd > 1 else given[0]
    after = model.clone()
    new = after.apply(coords, vals, additive)
    if coords:
        after.kinds.append(_kind_name(vdtype, frac))
    try:
        ret = arr.add([np.array(c, dtype=int) for c in coords], varr, additive=additive)
    except Exception as e:  # noqa
        return [("add: returns normally on admissible input", f"{type(e).__name__}: {e}")], after
    bad = []
    try:
        ret = np.asarray(ret)
        keys = [coords[int(i)] for i in ret.ravel()]
        if ret.dtype.kind not in "iu" or sorted(keys) != sorted(new):
            bad.append(("add: returned indices identify the newly stored coordinates", f"new keys {sorted(new)}, returned {ret.tolist()} -> {keys}"))
    except Exception as e:  # noqa
        bad.append(("add: returned indices identify the newly stored coordinates", f"returned {ret!r}: {type(e).__name__}"))
    return bad, after


def _batches(box, maxlen):
    out = [((), False)]
    for n in range(1, maxlen + 1):
        for cs in itertools.product(box, repeat=n):
            out.append((cs, False))
            out.append((cs, True))
    return out


def _kinded(batches, kinds):
    """every batch with its values given in every kind (dtype, non-integer flag); the empty batch once"""
    out = []
    for coords, additive in batches:
        for vdtype, frac in (kinds if coords else kinds[:1]):
            out.append((coords, additive, vdtype, frac))
    return out


def _hist_json(h):
    out = []
    for b in h:
        e = {"coords": [list(c) for c in b[0]], "additive": b[1]}
        if len(b) > 2:
            e["vdtype"], e["frac"] = b[2], b[3]
        out.append(e)
    return out


def _explore(rep, sw, pp, dim, box, value_dim, batch_sets, label):
    """Depth-first over the history tree; batch_sets[d] = admissible batches at depth d."""
    SparseNdArray = pp.array_operations.SparseNdArray
    root = SparseNdArray(dim, value_dim=value_dim) if value_dim != 1 else SparseNdArray(dim)
    stack = [(root, _Model(value_dim), ())]
    nviol = 0
    while stack:
        arr, model, hist = stack.pop()
        d = len(hist)
        if d >= len(batch_sets):
            continue
        for batch in batch_sets[d]:
            coords, additive = batch[0], batch[1]
            kind = tuple(batch[2:])  # () or (vdtype, frac)
            child = copy.deepcopy(arr)
            bad, after = _do_add(child, model, list(coords), d, additive, *kind)
            if not bad:
                bad = _check_state(child, after, box, dim)
            h = hist + (batch,)
            touched_existing = any(c in model.D for c in coords)
            nontrivial = touched_existing or len(set(coords)) < len(coords)
            if kind:  # value-kind family: the batch must meet a coordinate stored from values of another kind
                nontrivial = touched_existing and len(set(after.kinds)) > 1
            sw.case((label, h), nontrivial=nontrivial,
                    sample={"dim": dim, "value_dim": value_dim, "history": _hist_json(h)})
            if bad:
                sig = _signature(model, list(coords), additive, *kind)
                for ob, detail in bad:
                    rep.violation(ob, sig, inputs={"dim": dim, "value_dim": value_dim, "history": _hist_json(h)},
                                  detail=detail, confirmed=True)
                nviol += 1
                continue  # state is corrupt below this node
            stack.append((child, after, h))
    return nviol


def run_history(pp, dim, value_dim, history, box=None):
    """Replay one history natively; returns list of (obligation, detail, signature)."""
    SparseNdArray = pp.array_operations.SparseNdArray
    arr = SparseNdArray(dim, value_dim=value_dim)
    model = _Model(value_dim)
    if box is None:
        allc = [tuple(c) for b in history for c in b["coords"]]
        lo = [min([c[k] for c in allc] + [0]) for k in range(dim)]
        hi = [max([c[k] for c in allc] + [1]) for k in range(dim)]
        box = list(itertools.product(*[range(lo[k], hi[k] + 2) for k in range(dim)]))
    for d, b in enumerate(history):
        coords = [tuple(c) for c in b["coords"]]
        kind = (b.get("vdtype", "float64"), bool(b.get("frac", False)))
        bad, after = _do_add(arr, model, coords, d, b["additive"], *kind)
        if not bad:
            bad = _check_state(arr, after, box, dim)
        if bad:
            return [(ob, det, _signature(model, coords, b["additive"], *kind)) for ob, det in bad]
        model = after
    return []


def run(rep):
    import porepy as pp

    quick = rep.tier == "quick"
    rng = rep.rng
    rep.under_contract("pp.array_operations.SparseNdArray.add", "pp.array_operations.SparseNdArray.get",
                       "pp.array_operations.intersect_sets (through its callers)")
    rep.assume("coordinates are integer arrays of length dim; values float64 (distinct powers of two, so sums are exact); in the value-kind "
               "sweep int64 / float32 / float64 arrays holding powers of two plus, for non-integer float64, 2^-(1+4*depth+pos) (sums exact)",
               "copy.deepcopy(SparseNdArray) yields an independent object with the same observable state (used to share history prefixes)")
    rep.trust("Python dict as the abstract view", "numpy array comparison")
    rep.explanation = ("B only: exhaustive history tree in a small coordinate box; the dictionary view is compared with get() on every "
                       "coordinate after every operation.")
    box1 = [(0,), (1,), (2,)]
    box2 = list(itertools.product((0, 1), repeat=2))

    with rep.sweep(
        "1-d histories, coordinates {0,1,2}",
        rule="every history of <= 3 batches; a batch = (sequence of coordinates with repeats, additive flag) or the empty batch; quick: batch "
             "length <= 2 at every depth, and length <= 3 for histories of <= 2 batches; thorough: length <= 3 at every depth; after each add "
             "every coordinate of the box is read back (present -> value, absent -> ValueError) and the returned index array is checked; "
             "subtrees below a failing operation are cut; nontrivial = the last batch touches an existing coordinate or repeats one; "
             "distinct by the history",
        bound="<= 3 batches, batch length <= 3, coordinates {0,1,2}",
        exhaustive=True,
    ) as sw:
        b2, b3 = _batches(box1, 2), _batches(box1, 3)
        if quick:
            _explore(rep, sw, pp, 1, box1, 1, [b2, b2, b2], "1d-len2")
            only3 = [b for b in b3 if len(b[0]) == 3]
            # histories of <= 2 batches that contain a length-3 batch
            _explore(rep, sw, pp, 1, box1, 1, [only3, b3], "1d-len3-first")
            _explore(rep, sw, pp, 1, box1, 1, [b2, only3], "1d-len3-second")
        else:
            _explore(rep, sw, pp, 1, box1, 1, [b3, b3, b3], "1d-len3")

    with rep.sweep(
        "2-d histories, coordinates {0,1}^2",
        rule="every history of <= 2 batches with batch length <= 3, and every history of 3 batches with batch lengths (<=1, <=1, <=2) "
             "(quick) / (<=2, <=2, <=2) (thorough); thorough adds %d seeded 3-batch histories with batch length <= 3; same checks as 1-d; "
             "distinct by the history" % 30000,
        bound="<= 3 batches, batch length <= 3 (length-3 batches at depth 3 only in the seeded part), coordinates {0,1}^2",
        exhaustive=True,
    ) as sw:
        c1, c2, c3 = _batches(box2, 1), _batches(box2, 2), _batches(box2, 3)
        _explore(rep, sw, pp, 2, box2, 1, [c3, c3], "2d-depth2")
        if quick:
            _explore(rep, sw, pp, 2, box2, 1, [c1[1:], c1[1:], c2], "2d-112")
        else:
            _explore(rep, sw, pp, 2, box2, 1, [c2, c2, c2], "2d-222")

    with rep.sweep(
        "seeded: vector values, 3-d coordinates, longer histories",
        rule="seeded histories of 3-5 batches of length 0-4: (a) 1-d coordinates {0..3} with value_dim = 2; (b) 3-d coordinates {0,1}^3, "
             "value_dim 1; (c) 2-d coordinates {0,1}^2 with batch length <= 3 at every depth; additive flag random per batch; "
             "nontrivial = some batch touches an existing coordinate; distinct by the history",
        bound="%d histories" % (600 if quick else 40000),
        exhaustive=False,
    ) as sw:
        n = 600 if quick else 40000
        for it in range(n):
            kind = it % 4
            if kind == 3:
                # (d) 2-d integer coordinates of either sign, {-2,..,1} x {-3,..,2}: the storage indexes by (possibly negative) integers
                dim, vd, box, maxlen = 2, 1, list(itertools.product(range(-2, 2), range(-3, 3))), 4
            elif kind == 0:
                dim, vd, box, maxlen = 1, 2, [(k,) for k in range(4)], 4
            elif kind == 1:
                dim, vd, box, maxlen = 3, 1, list(itertools.product((0, 1), repeat=3)), 4
            else:
                dim, vd, box, maxlen = 2, 1, box2, 3
            hist = []
            for d in range(rng.randint(3, 5) if kind != 2 else 3):
                hist.append({"coords": [list(rng.choice(box)) for _ in range(rng.randint(0, maxlen))], "additive": rng.random() < 0.5})
            try:
                bad = run_history(pp, dim, vd, hist, box)
            except Exception as e:  # noqa  (checker-side failure must surface)
                raise
            seen, touched = set(), False
            for b in hist:
                for c in b["coords"]:
                    touched = touched or tuple(c) in seen
                for c in b["coords"]:
                    seen.add(tuple(c))
            sw.case(("seeded", kind, repr(hist)), nontrivial=touched, sample={"dim": dim, "value_dim": vd, "history": hist})
            for ob, det, sig in bad:
                rep.violation(ob, sig, inputs={"dim": dim, "value_dim": vd, "history": hist}, detail=det, confirmed=True)

    # Value-kind family: the statement speaks of "the value a plain dictionary would hold" -- it does not restrict the dtype in which a
    # batch hands over its values (the library's own tests pass integer arrays).  The storage must hold every later non-integer value
    # and every sum exactly as the dictionary does, whatever the dtype of the batch that first stored the coordinate.
    with rep.sweep(
        "value kinds: batches given as int64 / float32 / float64 (integer-valued or not), mixed within a history",
        rule="1-d coordinates {0,1,2}: every history of <= 2 batches of length <= 2 (thorough: <= 3) and every history of 3 batches of "
             "length 1 (third batch int64 or non-integer float64 only; thorough: lengths (1, <=2, <=2), all kinds), each non-empty batch given in each of the 4 value kinds (int64, float64 with "
             "a non-integer part 2^-(1+4*depth+pos), float32, float64 integer-valued), additive and overwriting; thorough adds every 2-d "
             "history over {0,1}^2 of <= 2 batches of length <= 2; plus seeded histories of 2-4 batches of length 0-4 in 1-d (value_dim 2), "
             "2-d and 3-d boxes with a random kind per batch; the dictionary holds the numbers handed over as Python floats; same "
             "read-back of the whole box after every operation; nontrivial = the last batch touches an existing coordinate and the "
             "history mixes >= 2 value kinds; distinct by the history",
        bound="<= 3 batches (exhaustive part), 4 value kinds, %d seeded histories" % (300 if quick else 20000),
        exhaustive=False,
    ) as sw:
        k1, k2, k3 = (_kinded(_batches(box1, n), VALUE_KINDS) for n in (1, 2, 3))
        if quick:
            _explore(rep, sw, pp, 1, box1, 1, [k2, k2], "1d-kinds-22")
            _explore(rep, sw, pp, 1, box1, 1, [k1[1:], k1[1:], _kinded(_batches(box1, 1), VALUE_KINDS[:2])[1:]], "1d-kinds-111")
        else:
            _explore(rep, sw, pp, 1, box1, 1, [k3, k3], "1d-kinds-33")
            _explore(rep, sw, pp, 1, box1, 1, [k1[1:], k2, k2], "1d-kinds-122")
            kc2 = _kinded(_batches(box2, 2), VALUE_KINDS)
            _explore(rep, sw, pp, 2, box2, 1, [kc2, kc2], "2d-kinds-22")
        for it in range(300 if quick else 20000):
            fam = it % 3
            if fam == 0:
                dim, vd, box = 1, 2, [(k,) for k in range(4)]
            elif fam == 1:
                dim, vd, box = 2, 1, list(itertools.product(range(-1, 2), repeat=2))
            else:
                dim, vd, box = 3, rng.randint(1, 2), list(itertools.product((0, 1), repeat=3))
            hist = []
            for d in range(rng.randint(2, 4)):
                vdtype, frac = rng.choice(VALUE_KINDS)
                hist.append({"coords": [list(rng.choice(box)) for _ in range(rng.randint(0, 4))], "additive": rng.random() < 0.5,
                             "vdtype": vdtype, "frac": frac})
            bad = run_history(pp, dim, vd, hist, box)
            seen, touched = set(), False
            for b in hist:
                for c in b["coords"]:
                    touched = touched or tuple(c) in seen
                for c in b["coords"]:
                    seen.add(tuple(c))
            mixed = len({(b["vdtype"], b["frac"]) for b in hist if b["coords"]}) > 1
            sw.case(("kinds-seeded", fam, repr(hist)), nontrivial=touched and mixed, sample={"dim": dim, "value_dim": vd, "history": hist})
            for ob, det, sig in bad:
                rep.violation(ob, sig, inputs={"dim": dim, "value_dim": vd, "history": hist}, detail=det, confirmed=True)


def replay(data):
    import porepy as pp

    inp = data.get("inputs") or {}
    if "history" not in inp:
        return False
    bad = run_history(pp, inp["dim"], inp.get("value_dim", 1), inp["history"])
    print("replay:", bad)
    return bool(bad)
