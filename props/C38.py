"""C38 -- exported states are restored exactly on import (tier B stand-in, run-time contract sweep).

Functions under contract (real porepy, files written by meshio through the real Exporter):
  pp.Exporter.write_vtu / write_pvd  +  pp.Exporter.import_from_pvd (plain pvd and mdg pvd) / import_state_from_vtu
  pp.TimeManager.write_time_information  +  load_time_information

Contract (from the statement; the oracle is the data that was written):
  requires  cell data registered under pp.TIME_STEP_SOLUTIONS (time_step_index 0) on every subdomain / interface of a dimension,
            scalar (num_cells) or 3-component vector (3 * num_cells) float64 values; the importing Exporter is built on the same
            md-grid; binary vtu (the default), so float64 values are stored exactly.
  ensures   after import, for every subdomain and every interface, pp.get_solution_values(key, data, time_step_index=0) equals the
            array written at the most recent time-step index (import_from_pvd on the plain pvd), at the addressed index (mdg pvd,
            import_state_from_vtu), cell by cell (exact equality); the returned time index is the one written.
  ensures   TimeManager: exported_times / exported_dt after load_time_information equal those of the writer.
  ensures   model restart ("time and time-step information written alongside is restored likewise"; the statement's anchors name
            data_saving_model_mixin.py): a small SinglePhaseFlow model with DataSavingMixin is run with non-uniform time steps; at every
            write_pvd_and_vtu call the checker records time_manager.time / dt and the arrays handed to Exporter.write_vtu.  A second,
            identical model restarted (prepare_simulation with restart_options) from the mdg pvd of export index k, from the plain pvd
            (latest export) or from the vtu files of index k holds, for every primary variable on every subdomain and interface, the
            values written at that export, and time_manager.time / dt are the ones written at that export.
  ensures   restore of an exported step (TimeManager.set_time_and_dt_from_exported_steps, the call load_data_from_pvd / _vtu make):
            seeded adaptive (constant_dt=False) and constant-dt managers are stepped with the protocol of run_time_dependent_model over
            schedules with intermediate scheduled times, so that written dt values are relaxed, restricted, clipped and *shortened below
            dt_min* at a scheduled time; after load_time_information + set_time_and_dt_from_exported_steps(k) a fresh manager holds exactly
            the (time, dt) the writer held at write k (also when that dt lies outside [dt_min, dt_max]) and the history before k.  The
            model restart is run with a second time control (schedule [0, 0.6, 3], dt_min 0.2: an exported dt of 0.1) as well.
Before importing, the stored values are overwritten with NaN so that stale data cannot pass (model restart: the fresh model holds its
initial condition, which differs from every later export).

Exporter configurations: the default, and export_constants_separately=True with constant cell data registered through
add_constant_data (the plain pvd then lists the state files of all steps first and the constant-data files afterwards).

Grids: 2-d grids built here from explicit connectivity with pp.Grid (triangles, quadrilaterals, a pentagon) in *every order of the
cells*, several 2-d subdomains in one md-grid with different cell shapes, Cartesian / simplex / polytopal 3-d grids (the polytopal
ones from porepy.applications.test_utils.grids), 1-d and 0-d grids, three and four Cartesian / point subdomains of one dimension with
different numbers of cells (0-d to 3-d), fractured md-grids with interfaces (pp.mdg_library.square_with_orthogonal_fractures,
structured; pp.meshing.cart_grid with four fractures: four 1-d and three 0-d subdomains, ten interfaces).

Finding on the unchanged tree (kept strict): the exporter groups the cells of all subdomains of one dimension by cell shape
(Meshio_Geom.cell_ids records the permutation) and writes the data in that grouped order; import_state_from_vtu concatenates the
per-shape blocks and cuts them by subdomain *without applying the inverse permutation*.  Whenever the grouped order differs from the
cell order (mixed shapes in one grid, or subdomains of one dimension with different shapes in a non-grouped order) the restored
values are permuted, e.g. on polytop_grid_2d (triangle, pentagon, quad, quad):  wrote [1, 11, 21, 31], read [1, 21, 31, 11].
Signature "cell shapes of a dimension are not grouped in cell order".  Uniform grids round-trip.
Second symptom, same input class: for a 3-d md-grid [hexahedral grid, tetrahedral grid] the written vtu cannot be read back at all
(meshio: "Incompatible cell data. Cell block 0 ('polyhedron8') has length 2, but corresponding cell data item has length 6"):
obligation "import: returns normally on files written by the Exporter"; [tet, hex] is fine.
The three import paths (plain pvd, mdg pvd, explicit vtu list) share the obligations; the failing path is named in the detail.

Candidate finding on the unchanged tree (kept strict), obligation "load_data_from_pvd: time is the time written at the restored export
index", signature "model restart from the plain pvd, export times differ from export indices": DataSavingMixin.write_pvd_and_vtu writes
the plain pvd with the simulation *times* as `timestep` attributes; Exporter.import_from_pvd (plain branch) returns
int(float(latest timestep)) as "time index", and load_data_from_pvd uses it to index times.json.  With exports at times
[0, 0.25, 0.5, 1, 2, 3] the values of export 5 (time 3.0) are restored together with time 1.0 (= exported_times[3]) and the history is
cut after index 3.  Native: e.write_vtu(..., time_step=s) for s in 0..2; e.write_pvd(times=np.array([0., .25, .5]));
import_from_pvd(r.pvd) returns 0, not 2.  Restarts from an mdg pvd or from vtu files with time_index are correct.

Detection power (scratch copy, POREPY_SRC, quick tier; exit 1 with the named obligation under the signature "uniform / grouped"):
  M1 import_state_from_vtu._save_to_mdg: `offset += num_dofs` dropped for subdomains (every subdomain reads the first block)
       -> "import: values restored cell by cell" on md-grids with two subdomains of one dimension.
  M2 import_from_pvd: `restart_timestep_str = unique_timesteps[-1]` -> `[0]` (oldest instead of latest step)
       -> "import_from_pvd: returns the latest time index" and values.
  M3 Exporter: `_from_vector_format` ravel order "C" -> "F" -> vector data permuted -> "import: values restored cell by cell" (key u).
  M4 TimeManager.write_time_information: `self.exported_dt.append(... self.dt)` -> appends self.time
       -> "time information: exported history holds time and dt of every call" (the file round trip of the wrong list is still consistent).
  M5 import_state_from_vtu._save_to_mdg: `offset += num_dofs` -> `offset = num_dofs` (wrong only from the third subdomain of a dimension)
       -> "import: values restored cell by cell" on the md-grids with 3-4 Cartesian subdomains of one dimension and on the four-fracture
       md-grid (signatures "uniform / grouped" [+ ", with interfaces"] [+ ", constants exported separately"]).
  M6 DataSavingMixin.load_data_from_pvd: set_time_and_dt_from_exported_steps() called without the time index
       -> "load_data_from_pvd: time is ... / dt is the dt written at the restored export index", signature "model restart from the mdg
       pvd of an export index" (intermediate export indices).
  M7 import_from_pvd (plain pvd): files of the latest step collected by walking the DataSet entries backwards until another time step
       -> "import: values restored cell by cell", signatures "..., constants exported separately" (the constant-data files are listed
       after the state files of all steps, nothing is restored and the NaN poison remains).
  M8 TimeManager.set_time_and_dt_from_exported_steps: restored dt clipped to [dt_min, dt_max] for adaptive managers
       -> "set_time_and_dt_from_exported_steps: dt is the dt written at the addressed index", signature "adaptive dt, addressed dt outside
       [dt_min, dt_max]", and "load_data_from_pvd / load_data_from_vtu: dt is the dt written at the restored export index", signatures
       "model restart from ... of an export index, written dt outside [dt_min, dt_max]" (time control 'intermediate scheduled time').
"""
from __future__ import annotations

META = {
    "level": "exploration",
    "engine": "sweep",
    "technique": "run-time contract sweep (bounded stand-in for deduction): export with the real Exporter, import with a fresh Exporter on "
                 "the same md-grid, compare restored cell data with what was written; grids with mixed cell shapes in every cell order; "
                 "run a small model with DataSavingMixin, restart a fresh model from its files, compare values, time and dt; step seeded "
                 "time managers, write the time information, restore every exported index in a fresh manager, compare with the record",
    "text": "Bounded assurance only: the round trip goes through meshio, XML and per-cell-type regrouping inside third-party writers; no "
            "contract within reach expresses the file format. Covered: scalar and 3-vector cell data on subdomains and interfaces (up to "
            "four subdomains of one dimension), plain pvd (latest step), mdg pvd (addressed step), explicit vtu lists, the same with "
            "export_constants_separately=True (the time-dependent keys only; the constant field itself is not compared), TimeManager "
            "time information, and the model mixin restart (load_data_from_pvd with mdg / plain pvd, load_data_from_vtu with time_index) "
            "on one small SinglePhaseFlow model with scalar variables and non-uniform time steps: values, time and dt of the addressed "
            "export; the model restart also with an intermediate scheduled time (an exported dt below dt_min); "
            "TimeManager.set_time_and_dt_from_exported_steps on seeded adaptive / constant-dt histories with several scheduled times "
            "(written dt relaxed, restricted, clipped, shortened below dt_min): time, dt and the earlier history of every exported index. "
            "Not covered: point data, restoring the constant data themselves, 2-component vectors, vector variables and "
            "non-SI units in the model restart, the cut of the exported history after a model restart, recomputed (failed) time steps, ascii vtu, simplex md-grids from gmsh.",
    "note": "trusted: meshio vtu writer/reader (binary, float64), the written arrays as oracle; files under /var/tmp",
}

import itertools
import tempfile
import warnings
from pathlib import Path

import numpy as np
import scipy.sparse as sps

SIG_MIXED = "cell shapes of a dimension are not grouped in cell order"
SIG_UNIFORM = "cell shapes of every dimension uniform or grouped in cell order"


def _call(f):
    try:
        with warnings.catch_warnings():
            warnings.simplefilter("ignore")
            return True, f()
    except Exception as e:  # noqa
        return False, f"{type(e).__name__}: {str(e)[:300]}"


# ----------------------------------------------------------------------------- grids


def poly_grid_2d(pp, nodes2d, cells, name="explicit 2d"):
    """pp.Grid from explicit connectivity: nodes2d (n x 2), cells = list of counter-clockwise node cycles."""
    faces = {}
    cf_r, cf_c, cf_d = [], [], []
    for c, cyc in enumerate(cells):
        for k in range(len(cyc)):
            a, b = cyc[k], cyc[(k + 1) % len(cyc)]
            key = (min(a, b), max(a, b))
            if key not in faces:
                faces[key] = len(faces)
                sign = 1
            else:
                sign = -1
            cf_r.append(faces[key])
            cf_c.append(c)
            cf_d.append(sign)
    nf = len(faces)
    fn_r = [n for key in faces for n in key]
    fn_c = [f for f in range(nf) for _ in range(2)]
    fn = sps.csc_matrix((np.ones(len(fn_r), dtype=bool), (fn_r, fn_c)), shape=(len(nodes2d), nf))
    cf = sps.csc_matrix((np.array(cf_d, dtype=int), (cf_r, cf_c)), shape=(nf, len(cells)))
    nodes = np.zeros((3, len(nodes2d)))
    nodes[:2] = np.array(nodes2d, dtype=float).T
    g = pp.Grid(2, nodes, fn, cf, name)
    g.compute_geometry()
    return g


def _lattice_nodes(nx, x0=0.0):
    # nodes (i, j), i = 0..nx, j = 0..1 ; index i + (nx + 1) * j
    return [(x0 + i, float(j)) for j in range(2) for i in range(nx + 1)]


def _n(nx, i, j):
    return i + (nx + 1) * j


CELLSETS = {
    # three unit squares in a row: quad | two triangles | quad
    "QTTQ": lambda n: [[n(0, 0), n(1, 0), n(1, 1), n(0, 1)], [n(1, 0), n(2, 0), n(2, 1)], [n(1, 0), n(2, 1), n(1, 1)],
                       [n(2, 0), n(3, 0), n(3, 1), n(2, 1)]],
    # quad | pentagon (square + half of the next) | triangle
    "QPT": lambda n: [[n(0, 0), n(1, 0), n(1, 1), n(0, 1)], [n(1, 0), n(2, 0), n(3, 1), n(2, 1), n(1, 1)], [n(2, 0), n(3, 0), n(3, 1)]],
    "QQQ": lambda n: [[n(i, 0), n(i + 1, 0), n(i + 1, 1), n(i, 1)] for i in range(3)],
    "TTTT": lambda n: [[n(0, 0), n(1, 0), n(1, 1)], [n(0, 0), n(1, 1), n(0, 1)], [n(1, 0), n(2, 0), n(2, 1)], [n(1, 0), n(2, 1), n(1, 1)]],
}


def _explicit_grid(pp, kind, order, x0=0.0):
    nx = 3
    cells = CELLSETS[kind](lambda i, j: _n(nx, i, j))
    cells = [cells[k] for k in order]
    used = sorted({v for c in cells for v in c})
    remap = {v: k for k, v in enumerate(used)}
    nodes = _lattice_nodes(nx, x0)
    return poly_grid_2d(pp, [nodes[v] for v in used], [[remap[v] for v in c] for c in cells], f"{kind}{''.join(map(str, order))}")


def _grouped_in_order(mdg):
    """signature classifier from the grids alone: for each dimension, is the stable grouping of all cells (subdomain after subdomain) by
    shape the identity?  Shape = (#nodes, #faces) of the cell; groups ordered by first appearance or by size -- identity under both
    orders is required for 'grouped'."""
    ok = True
    for dim in (2, 3):
        shapes = []
        for sd in mdg.subdomains(dim=dim):
            nn = np.asarray(sd.cell_nodes().sum(axis=0)).ravel().astype(int)
            nf = np.asarray(abs(sd.cell_faces).sum(axis=0)).ravel().astype(int)
            shapes += list(zip(nn.tolist(), nf.tolist()))
        if not shapes:
            continue
        first = []
        for s in shapes:
            if s not in first:
                first.append(s)
        for groups in (first, sorted(first)):
            perm = [k for s in groups for k, t in enumerate(shapes) if t == s]
            if perm != list(range(len(shapes))):
                ok = False
    return ok


def _cart_grids(pp, dim, sizes):
    """len(sizes) Cartesian grids of dimension `dim` (0: point grids) with sizes[i] cells in a row, placed side by side; all cells of
    a dimension have the same shape, so the exporter's grouping by shape is the identity."""
    out = []
    for i, n in enumerate(sizes):
        if dim == 0:
            g = pp.PointGrid(np.array([10.0 * i, 0.0, 0.0]))
        elif dim == 1:
            g = pp.CartGrid(n, 1)
        else:
            g = pp.CartGrid([n] + [1] * (dim - 1))
        if dim > 0:
            g.nodes[0] += 10.0 * i
        g.compute_geometry()
        out.append(g)
    return out


def _four_fracture_mdg(pp):
    """4 x 4 Cartesian matrix with three horizontal and one vertical fracture: one 2-d, four 1-d (2, 4, 3, 4 cells) and three 0-d
    subdomains, four 1-d and six 0-d interfaces."""
    fracs = [np.array([[1, 3], [1, 1]]), np.array([[0, 4], [2, 2]]), np.array([[1, 4], [3, 3]]), np.array([[2, 2], [0, 4]])]
    mdg = pp.meshing.cart_grid(fracs, nx=np.array([4, 4]))
    mdg.compute_geometry()
    return mdg


# ----------------------------------------------------------------------------- model restart

MODEL_SIG = {
    "mdg_pvd": "model restart from the mdg pvd of an export index",
    "plain_pvd": "model restart from the plain pvd, export times differ from export indices",
    "vtu": "model restart from the vtu files of an export index",
}


def _model_class(pp):
    from porepy.applications.md_grids.model_geometries import SquareDomainOrthogonalFractures
    from porepy.models.fluid_mass_balance import SinglePhaseFlow

    class BC:
        """pressure 1 on the west boundary, 0 on the east, no flow elsewhere"""

        def bc_type_darcy_flux(self, sd):
            sides = self.domain_boundary_sides(sd)
            return pp.BoundaryCondition(sd, sides.west + sides.east, "dir")

        def bc_values_pressure(self, bg):
            sides = self.domain_boundary_sides(bg)
            vals = np.zeros(bg.num_cells)
            vals[sides.west] = 1.0
            return vals

    class Recorder:
        """the oracle: time / dt held by the time manager and the arrays handed to Exporter.write_vtu at every export"""

        def write_pvd_and_vtu(self):
            if not hasattr(self, "record"):
                self.record = []
            self._entry = {"time": float(self.time_manager.time), "dt": float(self.time_manager.dt), "data": []}
            self.record.append(self._entry)
            super().write_pvd_and_vtu()

        def data_to_export(self):
            data = super().data_to_export()
            self._entry["data"] = [(g, name, np.array(v, dtype=float, copy=True).ravel()) for g, name, v in data]
            return data

    class Model(Recorder, BC, SquareDomainOrthogonalFractures, SinglePhaseFlow):
        pass

    return Model


TIME_CONTROLS = {
    # one scheduled interval: every exported dt lies within [dt_min, dt_max]
    "default": {"schedule": [0.0, 3.0], "dt_init": 0.25, "dt_min_max": (0.05, 1.0)},
    # an intermediate scheduled time that the relaxed steps do not hit: the step before it is shortened below dt_min (the time manager
    # allows that), so an exported dt lies outside [dt_min, dt_max]
    "intermediate scheduled time": {"schedule": [0.0, 0.6, 3.0], "dt_init": 0.25, "dt_min_max": (0.2, 1.0)},
}


SIG_DT_OUT = ", written dt outside [dt_min, dt_max]"


def _dt_outside(dt, dt_min_max):
    return bool(dt < dt_min_max[0] or dt > dt_min_max[1])


def _make_model(pp, folder, cell_size, fractures, restart_options=None, tc="default"):
    tm = pp.TimeManager(iter_optimal_range=(4, 7), iter_relax_factors=(0.7, 2.0), constant_dt=False, **TIME_CONTROLS[tc])
    params = {"time_manager": tm, "fracture_indices": list(fractures), "grid_type": "cartesian", "meshing_arguments": {"cell_size": cell_size},
              "folder_name": str(folder), "file_name": "data",
              "material_constants": {"fluid": pp.FluidComponent(compressibility=0.5, viscosity=1.0, density=1.0),
                                     "solid": pp.SolidConstants(porosity=0.3, permeability=1.0, normal_permeability=0.5)}}
    if restart_options is not None:
        params["restart_options"] = restart_options
    return _model_class(pp)(params)


def _model_grids(model):
    return list(model.mdg.subdomains()) + list(model.mdg.interfaces())


def run_model(pp, root, cell_size, fractures, tc="default"):
    """Run the exporting model with the time control TIME_CONTROLS[tc]; returns (ok, model or message)."""
    import logging

    logging.disable(logging.CRITICAL)
    try:
        def go():
            m = _make_model(pp, Path(root) / "first", cell_size, fractures, tc=tc)
            pp.run_time_dependent_model(m)
            return m

        return _call(go)
    finally:
        logging.disable(logging.NOTSET)


def check_model_restart(pp, model, root, cell_size, fractures, how, k, tag, tc="default"):
    """Restart a fresh, identical model from export index k of `model` through `how`; returns (status, list of (obligation, detail)),
    status "skip" when the second model's md-grid does not match (outside requires)."""
    import logging

    first = Path(root) / "first"
    rec = model.record[k]
    ro = {"restart": True, "pvd_file": None, "is_mdg_pvd": False, "vtu_files": None, "times_file": first / "times.json"}
    if how == "mdg_pvd":
        ro.update(pvd_file=first / f"data_{k:06d}.pvd", is_mdg_pvd=True)
        fn = "load_data_from_pvd"
    elif how == "plain_pvd":
        ro.update(pvd_file=first / "data.pvd")
        fn = "load_data_from_pvd"
    else:
        ro.update(vtu_files=sorted(first.glob(f"data_*_{k:06d}.vtu")), time_index=k)
        fn = "load_data_from_vtu"
    logging.disable(logging.CRITICAL)
    try:
        def go():
            m2 = _make_model(pp, Path(root) / tag, cell_size, fractures, ro, tc=tc)
            m2.prepare_simulation()
            return m2

        ok, m2 = _call(go)
    finally:
        logging.disable(logging.NOTSET)
    if not ok:
        return "run", [(f"{fn}: restart returns normally on files written by the model", m2)]
    g1, g2 = _model_grids(model), _model_grids(m2)
    if len(g1) != len(g2) or any(a.dim != b.dim or a.num_cells != b.num_cells or not np.allclose(a.cell_centers, b.cell_centers) for a, b in zip(g1, g2)):
        return "skip", []
    pos = {id(g): i for i, g in enumerate(g1)}
    primary = {v.name for v in model.equation_system.variables}
    bad = []
    for g, name, exp in rec["data"]:
        if name not in primary:
            continue
        h = g2[pos[id(g)]]
        d = m2.mdg.subdomain_data(h) if isinstance(h, pp.Grid) else m2.mdg.interface_data(h)
        ok, got = _call(lambda: np.asarray(pp.get_solution_values(name=name, data=d, time_step_index=0)).ravel())
        if not ok or got.shape != exp.shape or not np.array_equal(got, exp):
            bad.append((f"{fn}: variable values restored cell by cell",
                        f"export index {k}: variable {name} on {'subdomain' if isinstance(h, pp.Grid) else 'interface'} (dim {h.dim}, {h.num_cells} cells): "
                        f"wrote {exp.tolist()[:8]}, restored {got.tolist()[:8] if ok else got}"))
            break
    times, dts = [r["time"] for r in model.record], [r["dt"] for r in model.record]
    if float(m2.time_manager.time) != rec["time"]:
        bad.append((f"{fn}: time is the time written at the restored export index",
                    f"values of export index {k} (time {rec['time']}), restored time {float(m2.time_manager.time)}; written times {times}"))
    if float(m2.time_manager.dt) != rec["dt"]:
        bad.append((f"{fn}: dt is the dt written at the restored export index",
                    f"values of export index {k} (dt {rec['dt']}), restored dt {float(m2.time_manager.dt)}; written dts {dts}"))
    return "run", bad


# ----------------------------------------------------------------------------- round trip


def _entities(mdg):
    out = [("sd", sd, mdg.subdomain_data(sd)) for sd in mdg.subdomains()]
    out += [("intf", intf, mdg.interface_data(intf)) for intf in mdg.interfaces(codim=1)]
    return out


def _values(k, nc, step, vector):
    base = 1000.0 * (k + 1) + 0.25 * step
    if vector:
        return (base + np.arange(3 * nc, dtype=float) * 0.5 + 500.0).copy()
    return (base + np.arange(nc, dtype=float)).copy()


def check_roundtrip(pp, mdg, tmp, tag, steps=(1, 2), constants=False):
    """Export `steps`, import in three ways; returns list of (obligation, detail).  constants=True: the exporting and the importing
    Exporter are built with export_constants_separately=True and a constant cell field is registered on every subdomain."""
    folder = Path(tmp) / tag
    ents = _entities(mdg)
    keys = ["p", "u"]
    written = {}
    kw = {"export_constants_separately": True} if constants else {}
    ok, ex = _call(lambda: pp.Exporter(mdg, "run", folder, **kw))
    if not ok:
        return [("export: Exporter construction returns normally", ex)]
    if constants:
        ok, r = _call(lambda: ex.add_constant_data([(sd, "perm", 1.0 + np.arange(sd.num_cells, dtype=float)) for sd in mdg.subdomains()]))
        if not ok:
            return [("export: add_constant_data returns normally", r)]
    for step in steps:
        for k, (kind, g, d) in enumerate(ents):
            for key, vec in (("p", False), ("u", True)):
                v = _values(k, g.num_cells, step, vec)
                written[(step, k, key)] = v
                pp.set_solution_values(name=key, values=v.copy(), data=d, time_step_index=0)
        ok, r = _call(lambda: ex.write_vtu(keys, time_step=step))
        if not ok:
            return [("export: write_vtu returns normally", r)]
    ok, r = _call(lambda: ex.write_pvd(np.array([float(s) for s in steps])))
    if not ok:
        return [("export: write_pvd returns normally", r)]

    def poison():
        for k, (kind, g, d) in enumerate(ents):
            pp.set_solution_values(name="p", values=np.full(g.num_cells, np.nan), data=d, time_step_index=0)
            pp.set_solution_values(name="u", values=np.full(3 * g.num_cells, np.nan), data=d, time_step_index=0)

    def compare(step, how):
        bad = []
        for k, (kind, g, d) in enumerate(ents):
            for key in keys:
                exp = written[(step, k, key)]
                try:
                    got = np.asarray(pp.get_solution_values(name=key, data=d, time_step_index=0))
                except Exception as e:  # noqa
                    bad.append(("import: values restored cell by cell", f"[{how}] {kind} {k} dim {g.dim} key {key}: {type(e).__name__} {e}"))
                    continue
                if got.shape != exp.shape or not np.array_equal(got, exp):
                    bad.append(("import: values restored cell by cell",
                                f"[{how}] {'subdomain' if kind == 'sd' else 'interface'} #{k} (dim {g.dim}, {g.num_cells} cells) key {key}: wrote "
                                f"{exp.tolist()[:12]}, read {got.tolist()[:12]}"))
                    return bad
        return bad

    bad = []
    last = steps[-1]
    # (a) plain pvd: latest step
    poison()
    ok, imp = _call(lambda: pp.Exporter(mdg, "restart_a", folder, **kw))
    ok, ti = _call(lambda: imp.import_from_pvd(folder / "run.pvd", keys=keys))
    if not ok:
        bad.append(("import: returns normally on files written by the Exporter", "[import_from_pvd] " + ti))
    else:
        if ti != last:
            bad.append(("import_from_pvd: returns the latest time index", f"wrote steps {list(steps)}, got {ti}"))
        bad += compare(last, "import_from_pvd")
    # (b) mdg pvd of the first step
    first = steps[0]
    poison()
    ok, imp = _call(lambda: pp.Exporter(mdg, "restart_b", folder, **kw))
    ok, ti = _call(lambda: imp.import_from_pvd(folder / f"run_{first:06d}.pvd", is_mdg_pvd=True, keys=keys))
    if not ok:
        bad.append(("import: returns normally on files written by the Exporter", "[import_from_pvd (mdg pvd)] " + ti))
    else:
        if ti != first:
            bad.append(("import_from_pvd (mdg pvd): returns the addressed time index", f"file of step {first}, got {ti}"))
        bad += compare(first, "import_from_pvd (mdg pvd)")
    # (c) explicit vtu files of the last step
    poison()
    ok, imp = _call(lambda: pp.Exporter(mdg, "restart_c", folder, **kw))
    files = sorted(f for f in folder.glob(f"run_*_{last:06d}.vtu") if "constant" not in f.name)
    ok, r = _call(lambda: imp.import_state_from_vtu(list(files), keys=keys))
    if not ok:
        bad.append(("import: returns normally on files written by the Exporter", "[import_state_from_vtu] " + r))
    else:
        bad += compare(last, "import_state_from_vtu")
    return bad


# ----------------------------------------------------------------------------- time information: restore of an exported step

SIG_TM_CONST = "constant dt"
SIG_TM_IN = "adaptive dt, addressed dt within [dt_min, dt_max]"
SIG_TM_OUT = "adaptive dt, addressed dt outside [dt_min, dt_max]"


def _time_manager(pp, spec):
    if spec["constant_dt"]:
        return pp.TimeManager(schedule=spec["schedule"], dt_init=spec["dt_init"], constant_dt=True)
    return pp.TimeManager(schedule=spec["schedule"], dt_init=spec["dt_init"], constant_dt=False, dt_min_max=tuple(spec["dt_min_max"]),
                          iter_relax_factors=tuple(spec["iter_relax_factors"]), iter_optimal_range=(4, 7))


def write_time_history(pp, path, spec):
    """The stepping protocol of pp.run_time_dependent_model with the iteration counts of spec["iterations"]: increase_time,
    increase_time_index, compute_time_step(iterations) (adaptive only), and write_time_information where spec["written"] says so (the
    initial state is always written).  Returns (manager, [(time, dt) held by the manager at every write])."""
    tm = _time_manager(pp, spec)
    hist = [(float(tm.time), float(tm.dt))]
    tm.write_time_information(path)
    for its, wr in zip(spec["iterations"], spec["written"]):
        if tm.final_time_reached():
            break
        tm.increase_time()
        tm.increase_time_index()
        if not spec["constant_dt"]:
            tm.compute_time_step(iterations=its)
        if wr:
            hist.append((float(tm.time), float(tm.dt)))
            tm.write_time_information(path)
    return tm, hist


def check_time_restore(pp, path, spec, hist, indices):
    """A fresh, identically configured TimeManager loads `path` and restores the exported step `k` for every k in `indices` (None: the
    default argument, i.e. the latest step).  Oracle: hist = the (time, dt) pairs the writer held when they were written.
    Returns [(obligation, signature, k, detail)]."""
    bad = []
    n = len(hist)
    for k in indices:
        kk = n - 1 if k is None else k % n
        if spec["constant_dt"]:
            sig = SIG_TM_CONST
        else:
            sig = SIG_TM_OUT if _dt_outside(hist[kk][1], spec["dt_min_max"]) else SIG_TM_IN

        def go():
            tm2 = _time_manager(pp, spec)
            tm2.load_time_information(path)
            if k is None:
                tm2.set_time_and_dt_from_exported_steps()
            else:
                tm2.set_time_and_dt_from_exported_steps(k)
            return tm2

        ok, tm2 = _call(go)
        if not ok:
            bad.append(("set_time_and_dt_from_exported_steps: returns normally on a written history", sig, k, tm2))
            continue
        if float(tm2.time) != hist[kk][0]:
            bad.append(("set_time_and_dt_from_exported_steps: time is the time written at the addressed index", sig, k,
                        f"index {k}: written (time, dt) {hist[kk]}, restored time {float(tm2.time)}; written history {hist}"))
        if float(tm2.dt) != hist[kk][1]:
            bad.append(("set_time_and_dt_from_exported_steps: dt is the dt written at the addressed index", sig, k,
                        f"index {k}: written (time, dt) {hist[kk]}, restored dt {float(tm2.dt)}"
                        + ("" if spec["constant_dt"] else f", dt_min_max {list(spec['dt_min_max'])}") + f"; written history {hist}"))
        # "cut off all later times": the entries before the addressed index are kept unchanged (the addressed entry itself is written
        # again by the restarted run; with or without it is accepted)
        rest = list(zip([float(t) for t in tm2.exported_times], [float(d) for d in tm2.exported_dt]))
        if len(tm2.exported_times) != len(tm2.exported_dt) or rest not in (hist[:kk], hist[:kk + 1]):
            bad.append(("set_time_and_dt_from_exported_steps: the history before the addressed index is kept, later entries are cut", sig, k,
                        f"index {k}: remaining times {list(tm2.exported_times)} dts {list(tm2.exported_dt)}; written history {hist}"))
    return bad


# ----------------------------------------------------------------------------- entry


def run(rep):
    import porepy as pp
    from porepy.applications.test_utils.grids import polytop_grid_2d, polytop_grid_3d

    quick = rep.tier == "quick"
    rng = rep.rng
    rep.under_contract("pp.Exporter.write_vtu", "pp.Exporter.write_pvd", "pp.Exporter.import_from_pvd", "pp.Exporter.import_state_from_vtu",
                       "pp.Exporter._export_grid_0d/_1d/_2d/_3d (through write_vtu)", "pp.TimeManager.write_time_information",
                       "pp.TimeManager.load_time_information", "pp.Exporter.add_constant_data (export_constants_separately=True)",
                       "pp.DataSavingMixin.write_pvd_and_vtu / load_data_from_pvd / load_data_from_vtu (through "
                       "SolutionStrategy.prepare_simulation with restart_options)", "pp.TimeManager.set_time_and_dt_from_exported_steps (directly and through the model restart)")
    rep.assume("cell data only, scalar or 3-component, float64, registered at time_step_index 0 on all grids of a dimension",
               "the importing Exporter is constructed on the same md-grid object (model restart: on an identically constructed md-grid)",
               "binary vtu (default): values stored exactly", "model restart: default (SI) units, so the exported arrays are the variable values")
    rep.trust("meshio vtu reader/writer", "the written arrays as oracle", "pp.Grid construction from explicit connectivity (2-d helper in props/C38.py)",
              "porepy.applications.test_utils.grids.polytop_grid_2d/_3d as grid sources")
    rep.explanation = "B only: export -> import -> compare on small md-grids incl. grids mixing triangles, quadrilaterals and polygons/polyhedra."

    with tempfile.TemporaryDirectory(dir="/var/tmp", prefix="verif_c38_") as tmp:
        with rep.sweep(
            "vtu/pvd round trip",
            rule="md-grids: (a) one explicit 2-d grid for each cell set {quad|tri|tri|quad, quad|pentagon|tri, quad^3, tri^4} in every order "
                 "of its cells (quick: 8 seeded orders each + identity + reverse); (b) md-grids with 2-3 explicit 2-d subdomains of different / "
                 "equal shapes in every order; (c) 3-d: CartGrid, StructuredTetrahedralGrid, polytop_grid_3d, and md-grids of [tet, hex], "
                 "[hex, tet], [tet, hex, tet]; (d) polytop_grid_2d; (e) 1-d CartGrid, 0-d PointGrid, 1-d + 2-d unconnected; (f) structured "
                 "fractured md-grid with interfaces (two orthogonal fractures), and pp.meshing.cart_grid with four fractures (four 1-d, "
                 "three 0-d subdomains, ten interfaces); (h) 3-4 Cartesian / point subdomains of one dimension (0-d..3-d) with different "
                 "numbers of cells, and 2-d + 1-d + 0-d together; each exported at time steps (1, 2) with distinct values per subdomain, "
                 "cell, step and key (scalar p, 3-vector u) and imported through plain pvd, mdg pvd and explicit vtu list into NaN-poisoned "
                 "data; six uniform md-grids and the four-fracture md-grid also with export_constants_separately=True, a constant field "
                 "and three time steps; (g) twelve time steps, a single string key; nontrivial = more than one cell in some grid or more "
                 "than one subdomain; distinct by the md-grid description and the Exporter configuration",
            bound="<= 4 subdomains per dimension, <= 4 cells per explicit grid, 2-3 time steps (12 in one case)",
            exhaustive=False,
        ) as sw:
            cases = []
            # (a) explicit single grids, every cell order
            for kind in ("QTTQ", "QPT", "QQQ", "TTTT"):
                ncell = {"QTTQ": 4, "QPT": 3, "QQQ": 3, "TTTT": 4}[kind]
                orders = list(itertools.permutations(range(ncell)))
                if quick and len(orders) > 10:
                    orders = [orders[0], orders[-1]] + rng.sample(orders[1:-1], 8)
                for order in orders:
                    cases.append((f"2d {kind} order {order}", lambda kind=kind, order=order: [_explicit_grid(pp, kind, order)]))
            # (b) several 2-d subdomains
            combos = [("TTTT", "QQQ"), ("QQQ", "TTTT"), ("TTTT", "QQQ", "TTTT"), ("QQQ", "QQQ"), ("QTTQ", "QPT"), ("QQQ", "QQQ", "QQQ"),
                      ("TTTT", "TTTT", "TTTT", "TTTT")]
            for combo in combos:
                cases.append((f"2d subdomains {combo}", lambda combo=combo: [
                    _explicit_grid(pp, k, tuple(range({"QTTQ": 4, "QPT": 3, "QQQ": 3, "TTTT": 4}[k])), x0=10.0 * i) for i, k in enumerate(combo)]))
            # (c) 3-d
            def cart3():
                g = pp.CartGrid([2, 1, 1]); g.compute_geometry(); return g

            def tet3():
                g = pp.StructuredTetrahedralGrid([1, 1, 1]); g.compute_geometry(); return g

            def poly3():
                g = polytop_grid_3d(); g.compute_geometry(); return g

            cases += [("3d cart", lambda: [cart3()]), ("3d tet", lambda: [tet3()]), ("3d polytop", lambda: [poly3()]),
                      ("3d [tet, hex]", lambda: [tet3(), cart3()]), ("3d [hex, tet]", lambda: [cart3(), tet3()]),
                      ("3d [tet, hex, tet]", lambda: [tet3(), cart3(), tet3()])]
            # (d), (e)
            def poly2():
                g = polytop_grid_2d(); g.compute_geometry(); return g

            def cart1():
                g = pp.CartGrid(3, 1); g.compute_geometry(); return g

            def pt0():
                g = pp.PointGrid(np.zeros(3)); g.compute_geometry(); return g

            cases += [("2d polytop", lambda: [poly2()]), ("1d cart", lambda: [cart1()]), ("0d point", lambda: [pt0()]),
                      ("1d + 2d", lambda: [cart1(), _explicit_grid(pp, "QQQ", (0, 1, 2))]),
                      ("2d tri structured", lambda: [(lambda g: (g.compute_geometry(), g)[1])(pp.StructuredTriangleGrid([2, 2], [1, 1]))])]
            # (h) three and four subdomains of one dimension with one cell shape and different numbers of cells (the import cuts the
            # per-dimension array by a running offset over the subdomains)
            for dim, sizes in ((2, (2, 1, 3)), (2, (1, 3, 2, 2)), (1, (2, 4, 3)), (1, (3, 1, 2, 4)), (0, (1, 1, 1)), (0, (1, 1, 1, 1)), (3, (2, 1, 3))):
                cases.append((f"{dim}d cart subdomains {list(sizes)}", lambda dim=dim, sizes=sizes: _cart_grids(pp, dim, sizes)))
            cases.append(("cart subdomains 2d [1, 2] + 1d [3, 1, 2] + 0d [1, 1, 1]",
                          lambda: _cart_grids(pp, 2, (1, 2)) + _cart_grids(pp, 1, (3, 1, 2)) + _cart_grids(pp, 0, (1, 1, 1))))
            # uniform md-grids that are exported a second time with export_constants_separately=True and three time steps
            with_constants = {"2d QQQ order (0, 1, 2)", "3d cart", "1d + 2d", "0d point", "2d cart subdomains [2, 1, 3]",
                              "cart subdomains 2d [1, 2] + 1d [3, 1, 2] + 0d [1, 1, 1]"}
            for name, mk in cases:
                ok, grids = _call(mk)
                if not ok:
                    raise RuntimeError(f"checker could not build grid {name}: {grids}")
                mdg = pp.MixedDimensionalGrid()
                mdg.add_subdomains(grids)
                grouped = _grouped_in_order(mdg)
                inp = {"md_grid": name, "subdomains": [{"dim": g.dim, "num_cells": g.num_cells,
                                                        "nodes_per_cell": np.asarray(g.cell_nodes().sum(axis=0)).ravel().astype(int).tolist()} for g in grids]}
                for constants in (False, True) if (name in with_constants and grouped) else (False,):
                    if constants:
                        bad = check_roundtrip(pp, mdg, tmp, f"case{sw.evaluations}c", steps=(1, 2, 3), constants=True)
                        inp = dict(inp, export_constants_separately=True, steps=[1, 2, 3])
                    else:
                        bad = check_roundtrip(pp, mdg, tmp, f"case{sw.evaluations}")
                    sw.case(name + (" / constants separately" if constants else ""), nontrivial=max(g.num_cells for g in grids) > 1 or len(grids) > 1,
                            sample=inp)
                    for ob, det in bad:
                        rep.violation(ob, (SIG_UNIFORM if grouped else SIG_MIXED) + (", constants exported separately" if constants else ""),
                                      inputs=inp, detail=det, confirmed=True)
            # (f) fractured md-grid with interfaces
            for nfrac, cs in ((1, 0.5), (2, 0.5)) if quick else ((1, 0.5), (2, 0.5), (2, 0.25)):
                ok, res = _call(lambda: pp.mdg_library.square_with_orthogonal_fractures("cartesian", meshing_args={"cell_size": cs},
                                                                                        fracture_indices=list(range(nfrac))))
                if not ok:
                    rep.note(f"fractured md-grid could not be built ({res}); case skipped")
                    sw.skip()
                    continue
                mdg = res[0]
                name = f"fractured cartesian md-grid, {nfrac} fracture(s), cell_size {cs}"
                bad = check_roundtrip(pp, mdg, tmp, f"frac{nfrac}_{int(cs * 100)}")
                inp = {"md_grid": name, "subdomains": [{"dim": g.dim, "num_cells": g.num_cells} for g in mdg.subdomains()],
                       "interfaces": [{"dim": i.dim, "num_cells": i.num_cells} for i in mdg.interfaces(codim=1)]}
                sw.case(name, nontrivial=True, sample=inp)
                for ob, det in bad:
                    rep.violation(ob, (SIG_UNIFORM if _grouped_in_order(mdg) else SIG_MIXED) + ", with interfaces", inputs=inp, detail=det, confirmed=True)
            # (f2) four fractures: four 1-d and three 0-d subdomains with different numbers of cells, four 1-d and six 0-d interfaces;
            # default Exporter and export_constants_separately=True
            ok, mdg = _call(lambda: _four_fracture_mdg(pp))
            if not ok:
                rep.note(f"four-fracture md-grid could not be built ({mdg}); case skipped")
                sw.skip()
            else:
                name = "pp.meshing.cart_grid 4x4, fractures y=1 (x 1..3), y=2 (x 0..4), y=3 (x 1..4), x=2 (y 0..4)"
                for constants in (False, True):
                    bad = check_roundtrip(pp, mdg, tmp, f"frac4_{int(constants)}", steps=(0, 1, 2), constants=constants)
                    inp = {"md_grid": name, "steps": [0, 1, 2], "export_constants_separately": constants,
                           "subdomains": [{"dim": g.dim, "num_cells": g.num_cells} for g in mdg.subdomains()],
                           "interfaces": [{"dim": i.dim, "num_cells": i.num_cells} for i in mdg.interfaces(codim=1)]}
                    sw.case(name + (" / constants separately" if constants else ""), nontrivial=True, sample=inp)
                    for ob, det in bad:
                        rep.violation(ob, SIG_UNIFORM + ", with interfaces" + (", constants exported separately" if constants else ""), inputs=inp,
                                      detail=det, confirmed=True)

            # (g) more than nine exported time steps (the pvd stores the steps as text), and a single key given as a string
            mdg = pp.MixedDimensionalGrid()
            mdg.add_subdomains([cart1()])
            bad = check_roundtrip(pp, mdg, tmp, "steps12", steps=tuple(range(0, 12)))
            sw.case("twelve time steps", nontrivial=True, sample={"md_grid": "1d cart", "steps": 12})
            for ob, det in bad:
                rep.violation(ob, "twelve exported time steps", inputs={"md_grid": "1d cart", "steps": list(range(12))}, detail=det, confirmed=True)
            g1 = cart1()
            vals = np.arange(g1.num_cells, dtype=float) + 7.0
            import pathlib

            skdir = pathlib.Path(str(tmp)) / "single_key"
            ok, err = _call(lambda: pp.Exporter(g1, "single_key", str(skdir)).write_vtu([(g1, "pressure", vals)], time_step=1))
            g1b = cart1()
            imp = pp.Exporter(g1b, "single_key", str(skdir))
            files = sorted(skdir.glob("single_key_*000001.vtu"))
            ok2, err2 = _call(lambda: imp.import_state_from_vtu(files, keys="pressure")) if ok else (False, err)
            sw.case("single key as string", nontrivial=True, sample={"md_grid": "1d cart", "keys": "pressure"})
            got = None
            if ok2:
                ok3, got = _call(lambda: pp.get_solution_values("pressure", imp._mdg.subdomain_data(g1b), time_step_index=0))
                ok2 = ok3
            if not ok2 or not np.array_equal(np.asarray(got), vals):
                rep.violation("import: values restored cell by cell", "keys given as a single string", inputs={"md_grid": "1d cart", "keys": "pressure"},
                              detail=f"restored {got if ok2 else (err2 if ok else err)} expected {vals.tolist()}", confirmed=True)

        with rep.sweep(
            "model restart (DataSavingMixin)",
            rule="SinglePhaseFlow on the unit square with Cartesian cells (cell_size, fracture_indices) in {(0.5, [0, 1])} (thorough: also "
                 "(0.25, [0, 1]), (0.5, [0])), adaptive time steps on [0, 3] from dt 0.25 (exports at non-uniform times with non-uniform dt), "
                 "time control 'default' (schedule [0, 3], dt in [0.05, 1]) and 'intermediate scheduled time' (schedule [0, 0.6, 3], dt in "
                 "[0.2, 1]: the step that hits 0.6 is shortened to 0.1 < dt_min, so an exported dt lies outside [dt_min, dt_max]); "
                 "a fresh identical model is restarted from (a) the mdg pvd of every export index k, (b) the plain pvd (latest export), (c) the "
                 "vtu files of an intermediate and of the last export index with time_index=k; compared with the checker's record of the "
                 "arrays handed to write_vtu and of time_manager.time / dt at export k; nontrivial = k >= 1 (the restored values differ "
                 "from the initial condition of the fresh model) ; with the second time control: (a) and (c) at the export indices whose dt "
                 "is outside the range; distinct by (model, time control, restart path, k)",
            bound="2 models (thorough: 6), 4 or 16 matrix cells, one export per time step (6 / 8 with the stated time controls)",
            exhaustive=False,
        ) as sw:
            models = [(0.5, (0, 1), "default"), (0.5, (0, 1), "intermediate scheduled time")]
            if not quick:
                models += [(0.25, (0, 1), "default"), (0.5, (0,), "default"), (0.25, (0, 1), "intermediate scheduled time"),
                           (0.5, (0,), "intermediate scheduled time")]
            for cs, fr, tc in models:
                root = Path(tmp) / f"model_{int(cs * 100)}_{len(fr)}_{len(tc)}"
                ok, model = run_model(pp, root, cs, fr, tc)
                if not ok or len(getattr(model, "record", [])) < 4:
                    rep.note(f"model (cell_size {cs}, fractures {list(fr)}, time control {tc}) did not run to the end "
                             f"({model if not ok else 'fewer than 4 exports'}); cases skipped")
                    sw.skip()
                    continue
                n = len(model.record)
                times = [r["time"] for r in model.record]
                dmm = TIME_CONTROLS[tc]["dt_min_max"]
                outside = [k for k in range(n) if _dt_outside(model.record[k]["dt"], dmm)]
                if tc == "default":
                    restarts = [("mdg_pvd", k) for k in range(n)] + [("plain_pvd", n - 1), ("vtu", 2), ("vtu", n - 1)]
                else:
                    # the plain pvd path is exercised with the default time control (known finding there); here every export index through
                    # the mdg pvd, and the vtu path at the export indices whose dt lies outside [dt_min, dt_max]
                    if not outside:
                        rep.note(f"time control '{tc}' (cell_size {cs}, fractures {list(fr)}): no exported dt outside [dt_min, dt_max] "
                                 f"(written dt {[r['dt'] for r in model.record]})")
                    restarts = [("mdg_pvd", k) for k in range(n)] + [("vtu", k) for k in (outside or [2])]
                for how, k in restarts:
                    inp = {"model": "SinglePhaseFlow, SquareDomainOrthogonalFractures, cartesian", "cell_size": cs, "fracture_indices": list(fr),
                           "restart": how, "export_index": k, "written_times": times, "written_dt": [r["dt"] for r in model.record],
                           "time_control": tc, "time_manager": {kk: list(v) if isinstance(v, (list, tuple)) else v for kk, v in TIME_CONTROLS[tc].items()}}
                    if how == "plain_pvd" and times == [float(j) for j in range(n)]:
                        sw.skip()  # the signature names export times that differ from the indices
                        continue
                    status, bad = check_model_restart(pp, model, root, cs, fr, how, k, f"second_{how}_{k}", tc)
                    if status == "skip":
                        sw.skip()
                        continue
                    sw.case(("model", cs, fr, tc, how, k), nontrivial=k >= 1, sample=inp)
                    for ob, det in bad:
                        rep.violation(ob, MODEL_SIG[how] + (SIG_DT_OUT if k in outside else ""), inputs=inp, detail=det, confirmed=True)

        with rep.sweep(
            "TimeManager time information",
            rule="seeded schedules (2-4 entries) and constant dt; 0-6 steps of increase_time() each followed by write_time_information; a "
                 "fresh TimeManager loads the file: exported_times and exported_dt must equal the writer's lists; also after a second "
                 "load; nontrivial = at least 2 entries; distinct by (schedule, dt, steps)",
            bound="%d seeded histories" % (40 if quick else 500),
            exhaustive=False,
        ) as sw:
            for it in range(40 if quick else 500):
                t0 = rng.choice((0.0, 0.5, 1.0, 10.0))
                dt = rng.choice((0.1, 0.25, 1 / 3, 1.0, 2.5))
                nsteps = rng.randint(0, 6)
                sched = [t0, t0 + dt * 8]
                inp = {"schedule": sched, "dt": dt, "steps": nsteps}
                path = Path(tmp) / "times" / f"t{it}.json"

                def write():
                    tm = pp.TimeManager(schedule=sched, dt_init=dt, constant_dt=True)
                    tm.write_time_information(path)
                    for _ in range(nsteps):
                        tm.increase_time()
                        tm.increase_time_index()
                        tm.write_time_information(path)
                    return tm

                ok, tm = _call(write)
                sw.case(("time", t0, dt, nsteps), nontrivial=nsteps >= 1, sample=inp)
                if not ok:
                    rep.violation("time information: write_time_information returns normally", "constant dt", inputs=inp, detail=tm, confirmed=True)
                    continue
                exp_t = [t0 + k * dt for k in range(nsteps + 1)]
                # the writer's own lists must be the history of (time, dt) at each call
                if [float(x) for x in tm.exported_dt] != [dt] * (nsteps + 1) or any(abs(a - b) > 1e-12 * max(1, abs(b)) for a, b in zip(tm.exported_times, exp_t)) \
                        or len(tm.exported_times) != nsteps + 1:
                    rep.violation("time information: exported history holds time and dt of every call", "constant dt", inputs=inp,
                                  detail=f"times {tm.exported_times} dts {tm.exported_dt}", confirmed=True)

                def load():
                    tm2 = pp.TimeManager(schedule=sched, dt_init=dt, constant_dt=True)
                    tm2.load_time_information(path)
                    return tm2

                ok, tm2 = _call(load)
                if not ok:
                    rep.violation("time information: load_time_information returns normally", "constant dt", inputs=inp, detail=tm2, confirmed=True)
                    continue
                if list(tm2.exported_times) != list(tm.exported_times):
                    rep.violation("time information: exported times restored", "constant dt", inputs=inp,
                                  detail=f"wrote {tm.exported_times}, read {tm2.exported_times}", confirmed=True)
                if list(tm2.exported_dt) != list(tm.exported_dt):
                    rep.violation("time information: exported dt restored", "constant dt", inputs=inp,
                                  detail=f"wrote {tm.exported_dt}, read {tm2.exported_dt}", confirmed=True)

        nh = 30 if quick else 400
        with rep.sweep(
            "TimeManager restore of an exported step",
            rule="seeded time managers: adaptive (constant_dt=False; schedule of 2-4 times with intervals from {0.7, 1.0, 1.5, 2.3}, dt_min in "
                 "{0.2, 0.3}, dt_max = 2-4 dt_min, dt_init in [dt_min, dt_max], relaxation factors (0.7, 1.3) or (0.5, 2.0)) and, one in "
                 "four, constant dt; stepped with the protocol of run_time_dependent_model (increase_time, increase_time_index, "
                 "compute_time_step with seeded iteration counts from {1, 5, 9}: relax / keep / restrict; steps that hit a scheduled time "
                 "are shortened, also below dt_min) up to the final time; write_time_information at the start and after four of five "
                 "steps; the checker records (time, dt) at every write.  Writer's lists and the lists loaded by a fresh manager must "
                 "equal the record; for every exported index k (and the default argument) a fresh manager after load_time_information + "
                 "set_time_and_dt_from_exported_steps(k) must hold time and dt written at k, and the history before k; nontrivial = at "
                 "least 3 entries with two different dt; distinct by the manager configuration and the iteration / write sequence",
            bound="%d seeded histories, <= 40 steps each" % nh,
            exhaustive=False,
        ) as sw:
            n_out = 0
            for it in range(nh):
                t0 = rng.choice((0.0, 0.5, 10.0))
                if rng.random() < 0.25:
                    dt = rng.choice((0.1, 0.25, 1.0, 2.5))
                    nst = rng.randint(1, 8)
                    spec = {"constant_dt": True, "schedule": [t0, t0 + dt * nst], "dt_init": dt, "dt_min_max": None, "iter_relax_factors": None}
                else:
                    sched = [t0]
                    for _ in range(rng.randint(1, 3)):
                        sched.append(sched[-1] + rng.choice((0.7, 1.0, 1.5, 2.3)))
                    dt_min = rng.choice((0.2, 0.3))
                    dt_max = dt_min * rng.choice((2, 3, 4))
                    # requires of the constructor: dt_min <= dt_init <= dt_max and dt_init <= final time
                    spec = {"constant_dt": False, "schedule": sched,
                            "dt_init": rng.choice([d for d in (dt_min, 0.5 * (dt_min + dt_max), dt_max) if d <= sched[-1]]),
                            "dt_min_max": [dt_min, dt_max], "iter_relax_factors": list(rng.choice(((0.7, 1.3), (0.5, 2.0))))}
                spec["iterations"] = [rng.choice((1, 1, 5, 9)) for _ in range(40)]
                spec["written"] = [rng.random() < 0.8 for _ in range(40)]
                path = Path(tmp) / "restore" / f"t{it}.json"
                ok, res = _call(lambda: write_time_history(pp, path, spec))
                if not ok:
                    # the stepping itself is not under contract here (C38 is about what was written)
                    rep.note(f"time history {it} could not be produced ({res}); case skipped")
                    sw.skip()
                    continue
                tm, hist = res
                used = len(hist)
                inp = {"time_history_spec": spec, "written_history": [list(h) for h in hist]}
                sig0 = SIG_TM_CONST if spec["constant_dt"] else "adaptive dt"
                out = (not spec["constant_dt"]) and any(_dt_outside(h[1], spec["dt_min_max"]) for h in hist)
                n_out += out
                sw.case(("restore", it, repr(spec)), nontrivial=used >= 3 and len({h[1] for h in hist}) >= 2, sample=inp)
                if [float(x) for x in tm.exported_times] != [h[0] for h in hist] or [float(x) for x in tm.exported_dt] != [h[1] for h in hist]:
                    rep.violation("time information: exported history holds time and dt of every call", sig0, inputs=inp,
                                  detail=f"times {tm.exported_times} dts {tm.exported_dt}; held at the writes {hist}", confirmed=True)

                def load():
                    tm2 = _time_manager(pp, spec)
                    tm2.load_time_information(path)
                    return tm2

                ok, tm2 = _call(load)
                if not ok:
                    rep.violation("time information: load_time_information returns normally", sig0, inputs=inp, detail=tm2, confirmed=True)
                    continue
                if [float(x) for x in tm2.exported_times] != [h[0] for h in hist]:
                    rep.violation("time information: exported times restored", sig0, inputs=inp,
                                  detail=f"wrote {[h[0] for h in hist]}, read {tm2.exported_times}", confirmed=True)
                if [float(x) for x in tm2.exported_dt] != [h[1] for h in hist]:
                    rep.violation("time information: exported dt restored", sig0, inputs=inp,
                                  detail=f"wrote {[h[1] for h in hist]}, read {tm2.exported_dt}", confirmed=True)
                seen = set()
                for ob, sig, k, det in check_time_restore(pp, path, spec, hist, list(range(used)) + [None]):
                    if (ob, sig) in seen:
                        continue  # one violation per obligation and signature for one history
                    seen.add((ob, sig))
                    rep.violation(ob, sig, inputs=dict(inp, restore_index=k), detail=det, confirmed=True)
            if n_out == 0:
                rep.note("TimeManager restore sweep: no seeded history contained a dt outside [dt_min, dt_max]")


def replay(data):
    """Rebuild the recorded md-grid (explicit 2-d cell orders, polytopal and structured 3-d cases) and redo the round trip."""
    import re

    import porepy as pp
    from porepy.applications.test_utils.grids import polytop_grid_2d, polytop_grid_3d

    inputs = data.get("inputs") or {}
    name = inputs.get("md_grid", "")
    constants = bool(inputs.get("export_constants_separately", False))
    steps = tuple(inputs.get("steps") or (1, 2))

    if "time_history_spec" in inputs:
        spec = inputs["time_history_spec"]
        with tempfile.TemporaryDirectory(dir="/var/tmp", prefix="verif_c38_") as tmp:
            path = Path(tmp) / "t.json"
            tm, hist = write_time_history(pp, path, spec)
            idx = [inputs["restore_index"]] if "restore_index" in inputs else list(range(len(hist))) + [None]
            bad = check_time_restore(pp, path, spec, hist, idx)
            held = ([float(x) for x in tm.exported_times], [float(x) for x in tm.exported_dt]) != ([h[0] for h in hist], [h[1] for h in hist])
        print("replay:", bad[:3], "writer's lists differ from the record" if held else "")
        return bool(bad) or held

    if "model" in inputs:
        cs, fr, how, k = inputs["cell_size"], tuple(inputs["fracture_indices"]), inputs["restart"], inputs["export_index"]
        tc = inputs.get("time_control", "default")
        with tempfile.TemporaryDirectory(dir="/var/tmp", prefix="verif_c38_") as tmp:
            ok, model = run_model(pp, tmp, cs, fr, tc)
            if not ok or len(model.record) <= k:
                print("replay: model did not run", model if not ok else "")
                return False
            status, bad = check_model_restart(pp, model, tmp, cs, fr, how, k, "second", tc)
        print("replay:", status, bad[:3])
        return bool(bad)

    def geo(g):
        g.compute_geometry()
        return g

    mdg = None
    m = re.match(r"2d (\w+) order \(([\d, ]+)\)", name)
    pieces = re.findall(r"(\d)d \[([\d, ]+)\]", name) if name.startswith("cart subdomains") else \
        re.findall(r"^(\d)d cart subdomains \[([\d, ]+)\]", name)
    if pieces:
        grids = [g for dim, sizes in pieces for g in _cart_grids(pp, int(dim), tuple(int(v) for v in sizes.split(",")))]
    elif name.startswith("pp.meshing.cart_grid 4x4"):
        mdg = _four_fracture_mdg(pp)
    elif m:
        grids = [_explicit_grid(pp, m.group(1), tuple(int(v) for v in m.group(2).split(",") if v.strip()))]
    elif name == "2d polytop":
        grids = [geo(polytop_grid_2d())]
    elif name == "3d polytop":
        grids = [geo(polytop_grid_3d())]
    elif name.startswith("3d ["):
        mk = {"tet": lambda: geo(pp.StructuredTetrahedralGrid([1, 1, 1])), "hex": lambda: geo(pp.CartGrid([2, 1, 1]))}
        grids = [mk[k.strip()]() for k in name[4:-1].split(",")]
    elif name.startswith("2d subdomains"):
        kinds = re.findall(r"'(\w+)'", name)
        sizes = {"QTTQ": 4, "QPT": 3, "QQQ": 3, "TTTT": 4}
        grids = [_explicit_grid(pp, k, tuple(range(sizes[k])), x0=10.0 * i) for i, k in enumerate(kinds)]
    else:
        print("no native replay for md-grid", name)
        return False
    if mdg is None:
        mdg = pp.MixedDimensionalGrid()
        mdg.add_subdomains(grids)
    with tempfile.TemporaryDirectory(dir="/var/tmp", prefix="verif_c38_") as tmp:
        bad = check_roundtrip(pp, mdg, tmp, "replay", steps=steps, constants=constants)
    print("replay:", bad[:3])
    return bool(bad)
