"""C38 -- exported states are restored exactly on import (tier B stand-in, run-time contract sweep).

Functions under contract (real porepy, files written by meshio through the real Exporter):
  pp.Exporter.write_vtu / write_pvd  +  pp.Exporter.import_from_pvd (plain pvd and mdg pvd) / import_state_from_vtu
  pp.TimeManager.write_time_information  +  load_time_information

Contract (from the statement; the oracle is the data that was written):
  requires  cell data registered under pp.TIME_STEP_SOLUTIONS (time_step_index 0) on every subdomain / interface of a dimension,
            scalar (num_cells) or 3-component vector (3 * num_cells) float64 values; the importing Exporter is built on the same
            md-grid; binary vtu (the default), so float64 values are stored exactly.
  ensures   after import, for every subdomain and every interface, pp.get_solution_values(key, data, time_step_index=0) equals the
            array written at the most recent time-step index (import_from_pvd on the plain pvd), at the addressed index (mdg pvd,
            import_state_from_vtu), cell by cell (exact equality); the returned time index is the one written.
  ensures   TimeManager: exported_times / exported_dt after load_time_information equal those of the writer.
Before importing, the stored values are overwritten with NaN so that stale data cannot pass.

Grids: 2-d grids built here from explicit connectivity with pp.Grid (triangles, quadrilaterals, a pentagon) in *every order of the
cells*, several 2-d subdomains in one md-grid with different cell shapes, Cartesian / simplex / polytopal 3-d grids (the polytopal
ones from porepy.applications.test_utils.grids), 1-d and 0-d grids, and a fractured md-grid with interfaces
(pp.mdg_library.square_with_orthogonal_fractures, structured).

Finding on the unchanged tree (kept strict): the exporter groups the cells of all subdomains of one dimension by cell shape
(Meshio_Geom.cell_ids records the permutation) and writes the data in that grouped order; import_state_from_vtu concatenates the
per-shape blocks and cuts them by subdomain *without applying the inverse permutation*.  Whenever the grouped order differs from the
cell order (mixed shapes in one grid, or subdomains of one dimension with different shapes in a non-grouped order) the restored
values are permuted, e.g. on polytop_grid_2d (triangle, pentagon, quad, quad):  wrote [1, 11, 21, 31], read [1, 21, 31, 11].
Signature "cell shapes of a dimension are not grouped in cell order".  Uniform grids round-trip.
Second symptom, same input class: for a 3-d md-grid [hexahedral grid, tetrahedral grid] the written vtu cannot be read back at all
(meshio: "Incompatible cell data. Cell block 0 ('polyhedron8') has length 2, but corresponding cell data item has length 6"):
obligation "import: returns normally on files written by the Exporter"; [tet, hex] is fine.
The three import paths (plain pvd, mdg pvd, explicit vtu list) share the obligations; the failing path is named in the detail.

Detection power (scratch copy, POREPY_SRC, quick tier; exit 1 with the named obligation under the signature "uniform / grouped"):
  M1 import_state_from_vtu._save_to_mdg: `offset += num_dofs` dropped for subdomains (every subdomain reads the first block)
       -> "import: values restored cell by cell" on md-grids with two subdomains of one dimension.
  M2 import_from_pvd: `restart_timestep_str = unique_timesteps[-1]` -> `[0]` (oldest instead of latest step)
       -> "import_from_pvd: returns the latest time index" and values.
  M3 Exporter: `_from_vector_format` ravel order "C" -> "F" -> vector data permuted -> "import: values restored cell by cell" (key u).
  M4 TimeManager.write_time_information: `self.exported_dt.append(... self.dt)` -> appends self.time
       -> "time information: exported history holds time and dt of every call" (the file round trip of the wrong list is still consistent).
"""
from __future__ import annotations

META = {
    "level": "exploration",
    "engine": "sweep",
    "technique": "run-time contract sweep (bounded stand-in for deduction): export with the real Exporter, import with a fresh Exporter on "
                 "the same md-grid, compare restored cell data with what was written; grids with mixed cell shapes in every cell order",
    "text": "Bounded assurance only: the round trip goes through meshio, XML and per-cell-type regrouping inside third-party writers; no "
            "contract within reach expresses the file format. Covered: scalar and 3-vector cell data on subdomains and interfaces, plain "
            "pvd (latest step), mdg pvd (addressed step), explicit vtu lists, TimeManager time information. Not covered: point data, "
            "constant data files, 2-component vectors, the model mixin (load_data_from_vtu / load_data_from_pvd need a full model), "
            "ascii vtu, simplex md-grids from gmsh.",
    "note": "trusted: meshio vtu writer/reader (binary, float64), the written arrays as oracle; files under /var/tmp",
}

import itertools
import tempfile
import warnings
from pathlib import Path

import numpy as np
import scipy.sparse as sps

SIG_MIXED = "cell shapes of a dimension are not grouped in cell order"
SIG_UNIFORM = "cell shapes of every dimension uniform or grouped in cell order"


def _call(f):
    try:
        with warnings.catch_warnings():
            warnings.simplefilter("ignore")
            return True, f()
    except Exception as e:  # noqa
        return False, f"{type(e).__name__}: {str(e)[:300]}"


# ----------------------------------------------------------------------------- grids


def poly_grid_2d(pp, nodes2d, cells, name="explicit 2d"):
    """pp.Grid from explicit connectivity: nodes2d (n x 2), cells = list of counter-clockwise node cycles."""
    faces = {}
    cf_r, cf_c, cf_d = [], [], []
    for c, cyc in enumerate(cells):
        for k in range(len(cyc)):
            a, b = cyc[k], cyc[(k + 1) % len(cyc)]
            key = (min(a, b), max(a, b))
            if key not in faces:
                faces[key] = len(faces)
                sign = 1
            else:
                sign = -1
            cf_r.append(faces[key])
            cf_c.append(c)
            cf_d.append(sign)
    nf = len(faces)
    fn_r = [n for key in faces for n in key]
    fn_c = [f for f in range(nf) for _ in range(2)]
    fn = sps.csc_matrix((np.ones(len(fn_r), dtype=bool), (fn_r, fn_c)), shape=(len(nodes2d), nf))
    cf = sps.csc_matrix((np.array(cf_d, dtype=int), (cf_r, cf_c)), shape=(nf, len(cells)))
    nodes = np.zeros((3, len(nodes2d)))
    nodes[:2] = np.array(nodes2d, dtype=float).T
    g = pp.Grid(2, nodes, fn, cf, name)
    g.compute_geometry()
    return g


def _lattice_nodes(nx, x0=0.0):
    # nodes (i, j), i = 0..nx, j = 0..1 ; index i + (nx + 1) * j
    return [(x0 + i, float(j)) for j in range(2) for i in range(nx + 1)]


def _n(nx, i, j):
    return i + (nx + 1) * j


CELLSETS = {
    # three unit squares in a row: quad | two triangles | quad
    "QTTQ": lambda n: [[n(0, 0), n(1, 0), n(1, 1), n(0, 1)], [n(1, 0), n(2, 0), n(2, 1)], [n(1, 0), n(2, 1), n(1, 1)],
                       [n(2, 0), n(3, 0), n(3, 1), n(2, 1)]],
    # quad | pentagon (square + half of the next) | triangle
    "QPT": lambda n: [[n(0, 0), n(1, 0), n(1, 1), n(0, 1)], [n(1, 0), n(2, 0), n(3, 1), n(2, 1), n(1, 1)], [n(2, 0), n(3, 0), n(3, 1)]],
    "QQQ": lambda n: [[n(i, 0), n(i + 1, 0), n(i + 1, 1), n(i, 1)] for i in range(3)],
    "TTTT": lambda n: [[n(0, 0), n(1, 0), n(1, 1)], [n(0, 0), n(1, 1), n(0, 1)], [n(1, 0), n(2, 0), n(2, 1)], [n(1, 0), n(2, 1), n(1, 1)]],
}


def _explicit_grid(pp, kind, order, x0=0.0):
    nx = 3
    cells = CELLSETS[kind](lambda i, j: _n(nx, i, j))
    cells = [cells[k] for k in order]
    used = sorted({v for c in cells for v in c})
    remap = {v: k for k, v in enumerate(used)}
    nodes = _lattice_nodes(nx, x0)
    return poly_grid_2d(pp, [nodes[v] for v in used], [[remap[v] for v in c] for c in cells], f"{kind}{''.join(map(str, order))}")


def _grouped_in_order(mdg):
    """signature classifier from the grids alone: for each dimension, is the stable grouping of all cells (subdomain after subdomain) by
    shape the identity?  Shape = (#nodes, #faces) of the cell; groups ordered by first appearance or by size -- identity under both
    orders is required for 'grouped'."""
    ok = True
    for dim in (2, 3):
        shapes = []
        for sd in mdg.subdomains(dim=dim):
            nn = np.asarray(sd.cell_nodes().sum(axis=0)).ravel().astype(int)
            nf = np.asarray(abs(sd.cell_faces).sum(axis=0)).ravel().astype(int)
            shapes += list(zip(nn.tolist(), nf.tolist()))
        if not shapes:
            continue
        first = []
        for s in shapes:
            if s not in first:
                first.append(s)
        for groups in (first, sorted(first)):
            perm = [k for s in groups for k, t in enumerate(shapes) if t == s]
            if perm != list(range(len(shapes))):
                ok = False
    return ok


# ----------------------------------------------------------------------------- round trip


def _entities(mdg):
    out = [("sd", sd, mdg.subdomain_data(sd)) for sd in mdg.subdomains()]
    out += [("intf", intf, mdg.interface_data(intf)) for intf in mdg.interfaces(codim=1)]
    return out


def _values(k, nc, step, vector):
    base = 1000.0 * (k + 1) + 0.25 * step
    if vector:
        return (base + np.arange(3 * nc, dtype=float) * 0.5 + 500.0).copy()
    return (base + np.arange(nc, dtype=float)).copy()


def check_roundtrip(pp, mdg, tmp, tag, steps=(1, 2)):
    """Export `steps`, import in three ways; returns list of (obligation, detail)."""
    folder = Path(tmp) / tag
    ents = _entities(mdg)
    keys = ["p", "u"]
    written = {}
    ok, ex = _call(lambda: pp.Exporter(mdg, "run", folder))
    if not ok:
        return [("export: Exporter construction returns normally", ex)]
    for step in steps:
        for k, (kind, g, d) in enumerate(ents):
            for key, vec in (("p", False), ("u", True)):
                v = _values(k, g.num_cells, step, vec)
                written[(step, k, key)] = v
                pp.set_solution_values(name=key, values=v.copy(), data=d, time_step_index=0)
        ok, r = _call(lambda: ex.write_vtu(keys, time_step=step))
        if not ok:
            return [("export: write_vtu returns normally", r)]
    ok, r = _call(lambda: ex.write_pvd(np.array([float(s) for s in steps])))
    if not ok:
        return [("export: write_pvd returns normally", r)]

    def poison():
        for k, (kind, g, d) in enumerate(ents):
            pp.set_solution_values(name="p", values=np.full(g.num_cells, np.nan), data=d, time_step_index=0)
            pp.set_solution_values(name="u", values=np.full(3 * g.num_cells, np.nan), data=d, time_step_index=0)

    def compare(step, how):
        bad = []
        for k, (kind, g, d) in enumerate(ents):
            for key in keys:
                exp = written[(step, k, key)]
                try:
                    got = np.asarray(pp.get_solution_values(name=key, data=d, time_step_index=0))
                except Exception as e:  # noqa
                    bad.append(("import: values restored cell by cell", f"[{how}] {kind} {k} dim {g.dim} key {key}: {type(e).__name__} {e}"))
                    continue
                if got.shape != exp.shape or not np.array_equal(got, exp):
                    bad.append(("import: values restored cell by cell",
                                f"[{how}] {'subdomain' if kind == 'sd' else 'interface'} #{k} (dim {g.dim}, {g.num_cells} cells) key {key}: wrote "
                                f"{exp.tolist()[:12]}, read {got.tolist()[:12]}"))
                    return bad
        return bad

    bad = []
    last = steps[-1]
    # (a) plain pvd: latest step
    poison()
    ok, imp = _call(lambda: pp.Exporter(mdg, "restart_a", folder))
    ok, ti = _call(lambda: imp.import_from_pvd(folder / "run.pvd", keys=keys))
    if not ok:
        bad.append(("import: returns normally on files written by the Exporter", "[import_from_pvd] " + ti))
    else:
        if ti != last:
            bad.append(("import_from_pvd: returns the latest time index", f"wrote steps {list(steps)}, got {ti}"))
        bad += compare(last, "import_from_pvd")
    # (b) mdg pvd of the first step
    first = steps[0]
    poison()
    ok, imp = _call(lambda: pp.Exporter(mdg, "restart_b", folder))
    ok, ti = _call(lambda: imp.import_from_pvd(folder / f"run_{first:06d}.pvd", is_mdg_pvd=True, keys=keys))
    if not ok:
        bad.append(("import: returns normally on files written by the Exporter", "[import_from_pvd (mdg pvd)] " + ti))
    else:
        if ti != first:
            bad.append(("import_from_pvd (mdg pvd): returns the addressed time index", f"file of step {first}, got {ti}"))
        bad += compare(first, "import_from_pvd (mdg pvd)")
    # (c) explicit vtu files of the last step
    poison()
    ok, imp = _call(lambda: pp.Exporter(mdg, "restart_c", folder))
    files = sorted(folder.glob(f"run_*_{last:06d}.vtu"))
    ok, r = _call(lambda: imp.import_state_from_vtu(list(files), keys=keys))
    if not ok:
        bad.append(("import: returns normally on files written by the Exporter", "[import_state_from_vtu] " + r))
    else:
        bad += compare(last, "import_state_from_vtu")
    return bad


# ----------------------------------------------------------------------------- entry


def run(rep):
    import porepy as pp
    from porepy.applications.test_utils.grids import polytop_grid_2d, polytop_grid_3d

    quick = rep.tier == "quick"
    rng = rep.rng
    rep.under_contract("pp.Exporter.write_vtu", "pp.Exporter.write_pvd", "pp.Exporter.import_from_pvd", "pp.Exporter.import_state_from_vtu",
                       "pp.Exporter._export_grid_0d/_1d/_2d/_3d (through write_vtu)", "pp.TimeManager.write_time_information",
                       "pp.TimeManager.load_time_information")
    rep.assume("cell data only, scalar or 3-component, float64, registered at time_step_index 0 on all grids of a dimension",
               "the importing Exporter is constructed on the same md-grid object", "binary vtu (default): values stored exactly")
    rep.trust("meshio vtu reader/writer", "the written arrays as oracle", "pp.Grid construction from explicit connectivity (2-d helper in props/C38.py)",
              "porepy.applications.test_utils.grids.polytop_grid_2d/_3d as grid sources")
    rep.explanation = "B only: export -> import -> compare on small md-grids incl. grids mixing triangles, quadrilaterals and polygons/polyhedra."

    with tempfile.TemporaryDirectory(dir="/var/tmp", prefix="verif_c38_") as tmp:
        with rep.sweep(
            "vtu/pvd round trip",
            rule="md-grids: (a) one explicit 2-d grid for each cell set {quad|tri|tri|quad, quad|pentagon|tri, quad^3, tri^4} in every order "
                 "of its cells (quick: 8 seeded orders each + identity + reverse); (b) md-grids with 2-3 explicit 2-d subdomains of different / "
                 "equal shapes in every order; (c) 3-d: CartGrid, StructuredTetrahedralGrid, polytop_grid_3d, and md-grids of [tet, hex], "
                 "[hex, tet], [tet, hex, tet]; (d) polytop_grid_2d; (e) 1-d CartGrid, 0-d PointGrid, 1-d + 2-d unconnected; (f) structured "
                 "fractured md-grid with interfaces (two orthogonal fractures); each exported at time steps (1, 2) with distinct values per "
                 "cell, step and key (scalar p, 3-vector u) and imported through plain pvd, mdg pvd and explicit vtu list into NaN-poisoned "
                 "data; nontrivial = more than one cell in some grid; distinct by the md-grid description",
            bound="<= 3 subdomains per dimension, <= 4 cells per explicit grid, 2 time steps",
            exhaustive=False,
        ) as sw:
            cases = []
            # (a) explicit single grids, every cell order
            for kind in ("QTTQ", "QPT", "QQQ", "TTTT"):
                ncell = {"QTTQ": 4, "QPT": 3, "QQQ": 3, "TTTT": 4}[kind]
                orders = list(itertools.permutations(range(ncell)))
                if quick and len(orders) > 10:
                    orders = [orders[0], orders[-1]] + rng.sample(orders[1:-1], 8)
                for order in orders:
                    cases.append((f"2d {kind} order {order}", lambda kind=kind, order=order: [_explicit_grid(pp, kind, order)]))
            # (b) several 2-d subdomains
            combos = [("TTTT", "QQQ"), ("QQQ", "TTTT"), ("TTTT", "QQQ", "TTTT"), ("QQQ", "QQQ"), ("QTTQ", "QPT")]
            for combo in combos:
                cases.append((f"2d subdomains {combo}", lambda combo=combo: [
                    _explicit_grid(pp, k, tuple(range({"QTTQ": 4, "QPT": 3, "QQQ": 3, "TTTT": 4}[k])), x0=10.0 * i) for i, k in enumerate(combo)]))
            # (c) 3-d
            def cart3():
                g = pp.CartGrid([2, 1, 1]); g.compute_geometry(); return g

            def tet3():
                g = pp.StructuredTetrahedralGrid([1, 1, 1]); g.compute_geometry(); return g

            def poly3():
                g = polytop_grid_3d(); g.compute_geometry(); return g

            cases += [("3d cart", lambda: [cart3()]), ("3d tet", lambda: [tet3()]), ("3d polytop", lambda: [poly3()]),
                      ("3d [tet, hex]", lambda: [tet3(), cart3()]), ("3d [hex, tet]", lambda: [cart3(), tet3()]),
                      ("3d [tet, hex, tet]", lambda: [tet3(), cart3(), tet3()])]
            # (d), (e)
            def poly2():
                g = polytop_grid_2d(); g.compute_geometry(); return g

            def cart1():
                g = pp.CartGrid(3, 1); g.compute_geometry(); return g

            def pt0():
                g = pp.PointGrid(np.zeros(3)); g.compute_geometry(); return g

            cases += [("2d polytop", lambda: [poly2()]), ("1d cart", lambda: [cart1()]), ("0d point", lambda: [pt0()]),
                      ("1d + 2d", lambda: [cart1(), _explicit_grid(pp, "QQQ", (0, 1, 2))]),
                      ("2d tri structured", lambda: [(lambda g: (g.compute_geometry(), g)[1])(pp.StructuredTriangleGrid([2, 2], [1, 1]))])]
            for name, mk in cases:
                ok, grids = _call(mk)
                if not ok:
                    raise RuntimeError(f"checker could not build grid {name}: {grids}")
                mdg = pp.MixedDimensionalGrid()
                mdg.add_subdomains(grids)
                grouped = _grouped_in_order(mdg)
                bad = check_roundtrip(pp, mdg, tmp, f"case{sw.evaluations}")
                inp = {"md_grid": name, "subdomains": [{"dim": g.dim, "num_cells": g.num_cells,
                                                        "nodes_per_cell": np.asarray(g.cell_nodes().sum(axis=0)).ravel().astype(int).tolist()} for g in grids]}
                sw.case(name, nontrivial=max(g.num_cells for g in grids) > 1, sample=inp)
                for ob, det in bad:
                    rep.violation(ob, SIG_UNIFORM if grouped else SIG_MIXED, inputs=inp, detail=det, confirmed=True)
            # (f) fractured md-grid with interfaces
            for nfrac, cs in ((1, 0.5), (2, 0.5)) if quick else ((1, 0.5), (2, 0.5), (2, 0.25)):
                ok, res = _call(lambda: pp.mdg_library.square_with_orthogonal_fractures("cartesian", meshing_args={"cell_size": cs},
                                                                                        fracture_indices=list(range(nfrac))))
                if not ok:
                    rep.note(f"fractured md-grid could not be built ({res}); case skipped")
                    sw.skip()
                    continue
                mdg = res[0]
                name = f"fractured cartesian md-grid, {nfrac} fracture(s), cell_size {cs}"
                bad = check_roundtrip(pp, mdg, tmp, f"frac{nfrac}_{int(cs * 100)}")
                inp = {"md_grid": name, "subdomains": [{"dim": g.dim, "num_cells": g.num_cells} for g in mdg.subdomains()],
                       "interfaces": [{"dim": i.dim, "num_cells": i.num_cells} for i in mdg.interfaces(codim=1)]}
                sw.case(name, nontrivial=True, sample=inp)
                for ob, det in bad:
                    rep.violation(ob, (SIG_UNIFORM if _grouped_in_order(mdg) else SIG_MIXED) + ", with interfaces", inputs=inp, detail=det, confirmed=True)

            # (g) more than nine exported time steps (the pvd stores the steps as text), and a single key given as a string
            mdg = pp.MixedDimensionalGrid()
            mdg.add_subdomains([cart1()])
            bad = check_roundtrip(pp, mdg, tmp, "steps12", steps=tuple(range(0, 12)))
            sw.case("twelve time steps", nontrivial=True, sample={"md_grid": "1d cart", "steps": 12})
            for ob, det in bad:
                rep.violation(ob, "twelve exported time steps", inputs={"md_grid": "1d cart", "steps": list(range(12))}, detail=det, confirmed=True)
            g1 = cart1()
            vals = np.arange(g1.num_cells, dtype=float) + 7.0
            import pathlib

            skdir = pathlib.Path(str(tmp)) / "single_key"
            ok, err = _call(lambda: pp.Exporter(g1, "single_key", str(skdir)).write_vtu([(g1, "pressure", vals)], time_step=1))
            g1b = cart1()
            imp = pp.Exporter(g1b, "single_key", str(skdir))
            files = sorted(skdir.glob("single_key_*000001.vtu"))
            ok2, err2 = _call(lambda: imp.import_state_from_vtu(files, keys="pressure")) if ok else (False, err)
            sw.case("single key as string", nontrivial=True, sample={"md_grid": "1d cart", "keys": "pressure"})
            got = None
            if ok2:
                ok3, got = _call(lambda: pp.get_solution_values("pressure", imp._mdg.subdomain_data(g1b), time_step_index=0))
                ok2 = ok3
            if not ok2 or not np.array_equal(np.asarray(got), vals):
                rep.violation("import: values restored cell by cell", "keys given as a single string", inputs={"md_grid": "1d cart", "keys": "pressure"},
                              detail=f"restored {got if ok2 else (err2 if ok else err)} expected {vals.tolist()}", confirmed=True)

        with rep.sweep(
            "TimeManager time information",
            rule="seeded schedules (2-4 entries) and constant dt; 0-6 steps of increase_time() each followed by write_time_information; a "
                 "fresh TimeManager loads the file: exported_times and exported_dt must equal the writer's lists; also after a second "
                 "load; nontrivial = at least 2 entries; distinct by (schedule, dt, steps)",
            bound="%d seeded histories" % (40 if quick else 500),
            exhaustive=False,
        ) as sw:
            for it in range(40 if quick else 500):
                t0 = rng.choice((0.0, 0.5, 1.0, 10.0))
                dt = rng.choice((0.1, 0.25, 1 / 3, 1.0, 2.5))
                nsteps = rng.randint(0, 6)
                sched = [t0, t0 + dt * 8]
                inp = {"schedule": sched, "dt": dt, "steps": nsteps}
                path = Path(tmp) / "times" / f"t{it}.json"

                def write():
                    tm = pp.TimeManager(schedule=sched, dt_init=dt, constant_dt=True)
                    tm.write_time_information(path)
                    for _ in range(nsteps):
                        tm.increase_time()
                        tm.increase_time_index()
                        tm.write_time_information(path)
                    return tm

                ok, tm = _call(write)
                sw.case(("time", t0, dt, nsteps), nontrivial=nsteps >= 1, sample=inp)
                if not ok:
                    rep.violation("time information: write_time_information returns normally", "constant dt", inputs=inp, detail=tm, confirmed=True)
                    continue
                exp_t = [t0 + k * dt for k in range(nsteps + 1)]
                # the writer's own lists must be the history of (time, dt) at each call
                if [float(x) for x in tm.exported_dt] != [dt] * (nsteps + 1) or any(abs(a - b) > 1e-12 * max(1, abs(b)) for a, b in zip(tm.exported_times, exp_t)) \
                        or len(tm.exported_times) != nsteps + 1:
                    rep.violation("time information: exported history holds time and dt of every call", "constant dt", inputs=inp,
                                  detail=f"times {tm.exported_times} dts {tm.exported_dt}", confirmed=True)

                def load():
                    tm2 = pp.TimeManager(schedule=sched, dt_init=dt, constant_dt=True)
                    tm2.load_time_information(path)
                    return tm2

                ok, tm2 = _call(load)
                if not ok:
                    rep.violation("time information: load_time_information returns normally", "constant dt", inputs=inp, detail=tm2, confirmed=True)
                    continue
                if list(tm2.exported_times) != list(tm.exported_times):
                    rep.violation("time information: exported times restored", "constant dt", inputs=inp,
                                  detail=f"wrote {tm.exported_times}, read {tm2.exported_times}", confirmed=True)
                if list(tm2.exported_dt) != list(tm.exported_dt):
                    rep.violation("time information: exported dt restored", "constant dt", inputs=inp,
                                  detail=f"wrote {tm.exported_dt}, read {tm2.exported_dt}", confirmed=True)


def replay(data):
    """Rebuild the recorded md-grid (explicit 2-d cell orders, polytopal and structured 3-d cases) and redo the round trip."""
    import re

    import porepy as pp
    from porepy.applications.test_utils.grids import polytop_grid_2d, polytop_grid_3d

    name = (data.get("inputs") or {}).get("md_grid", "")

    def geo(g):
        g.compute_geometry()
        return g

    m = re.match(r"2d (\w+) order \(([\d, ]+)\)", name)
    if m:
        grids = [_explicit_grid(pp, m.group(1), tuple(int(v) for v in m.group(2).split(",") if v.strip()))]
    elif name == "2d polytop":
        grids = [geo(polytop_grid_2d())]
    elif name == "3d polytop":
        grids = [geo(polytop_grid_3d())]
    elif name.startswith("3d ["):
        mk = {"tet": lambda: geo(pp.StructuredTetrahedralGrid([1, 1, 1])), "hex": lambda: geo(pp.CartGrid([2, 1, 1]))}
        grids = [mk[k.strip()]() for k in name[4:-1].split(",")]
    elif name.startswith("2d subdomains"):
        kinds = re.findall(r"'(\w+)'", name)
        sizes = {"QTTQ": 4, "QPT": 3, "QQQ": 3, "TTTT": 4}
        grids = [_explicit_grid(pp, k, tuple(range(sizes[k])), x0=10.0 * i) for i, k in enumerate(kinds)]
    else:
        print("no native replay for md-grid", name)
        return False
    mdg = pp.MixedDimensionalGrid()
    mdg.add_subdomains(grids)
    with tempfile.TemporaryDirectory(dir="/var/tmp", prefix="verif_c38_") as tmp:
        bad = check_roundtrip(pp, mdg, tmp, "replay")
    print("replay:", bad[:3])
    return bool(bad)
