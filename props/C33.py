"""C33 -- tessellation overlaps partition cell measures.

Tier B (bounded run-time contract sweep).

Contract (statement): for two tessellations of the SAME segment / polygon
  line_tessellation(p1, p2, l1, l2), triangulations(p1, p2, t1, t2):
      (non-neg)  every reported overlap is >= 0 (up to -1e-12 * |domain|);
      (sum-1)    for every cell i of the first tessellation   sum_j overlap(i, j) = measure(cell i);
      (sum-2)    for every cell j of the second tessellation  sum_i overlap(i, j) = measure(cell j);
                 both at 1e-12 relative to the measure of the domain (measures of the cells are EXACT: rational node
                 coordinates, interval length / shoelace formula in fractions.Fraction);
  surface_tessellations([set_1, set_2(, set_3)]):
      the returned polygons have non-negative area, and for every input cell k of set s the areas of the returned polygons j
      with mappings[s][j, k] != 0 add up to the exact area of the cell (also with return_simplexes=True);
  match_1d / match_2d(new_g, old_g, tol, scaling):
      'averaged': entries >= 0 and every row sums to 1; 'integrated': entries >= 0 and every column sums to 1 (1e-12).
  requires: both tessellations cover the same domain, cells non-degenerate; nodes of the two tessellations either coincide
  exactly or are >= 1/48 apart (rational lattices; >= 1/1000 for the fine 2-D triangulations on the lattice k/1000), far outside
  the tolerance (1e-8) of segments_3d.

Enumeration
  1-D  EXHAUSTIVE: the 7-point lattice {0,1/6,...,1} of [0,1]: every pair of tessellations given by a subset of the 5 interior
       nodes (32 x 32 = 1024 pairs), node columns stored in scrambled order and segments with alternating orientation, on 4 lines
       in space: the x-axis, (1,1,0)/(3,4,0)-type oblique lines with rational points, and a line with all three coordinates
       varying; match_1d on the same pairs (x-axis).  thorough: the 9-point lattice {0,1/8,...,1} (128 x 128 pairs).
  2-D  seeded pairs of triangulations of the unit square: structured nx x ny (nx,ny in 1..3) with each cell cut along either
       diagonal, interior nodes displaced by rational offsets (validity: exact positive area), plus Delaunay triangulations of
       seeded rational point clouds; triangulations(), surface_tessellations() (2 and 3 sets, with and without
       return_simplexes) and match_2d() (plane z=0 and the sheared plane z = x + 2y) on the same pairs.
  1-D  far from the origin (the measure of a segment does not depend on its position): every 2nd (thorough: 3rd) of the same
       pairs on two segments ~1e6 cell lengths away from the origin (FAR_LINES: integer node coordinates around 2^23..2^25, so
       that coordinates and lengths are exact), line_tessellation and match_1d 'averaged' / 'integrated'.
  2-D  fine triangulations and other tolerances (the row / column sums do not depend on `tol`): Delaunay triangulations with 30 /
       70 interior nodes (60+ / 140+ cells), match_2d with tol = 1e-4 / 1e-6, every pair having an exact overlap of positive area
       below tol (sweep_2d_fine).  Both families hold on the unchanged tree (quick and thorough, seed 0).
  1-D  cells numbered in ARBITRARY order (a tessellation is a set of cells; the other 1-D families number the cells consecutively
       along the line): the same pairs (thorough: every 2nd) on the 4 lines and the 2 far segments, columns of l1 / l2 permuted
       ('interleaved', seeded 'shuffled', or 'consecutive' for one of the two), and match_1d 'averaged' / 'integrated' on 1-D
       grids with permuted cell numbering (every 2nd / thorough 8th pair); exact measure of cell c = interval perm[c]
       (sweep_1d_numbering).  The 2-D pools already number their cells without geometric order (Delaunay simplices).

Unchanged tree (installed shapely 2.1.2 / GEOS 3.13.1).  line_tessellation, match_1d: hold on every case.  Violations, kept
strict and reported to the lead:
  (a) "surface_tessellations: does not raise on tessellations of one square" / "ValueError: zero-size array to reduction
      operation m": shapely 2 returns `POLYGON EMPTY` (an instance of Polygon) for two disjoint cells whose bounding boxes
      overlap; the function appends its empty coordinate list and `_min_max_coord` fails on `c.min()`.  Happens for most pairs
      of non-trivial tessellations, e.g. the unit square cut along y=x versus the 2x2 grid with every cell cut along the same
      diagonal.
  (b) "match_2d: 'averaged' rows sum to one" / "match_2d: 'integrated' columns sum to one" with signatures
      "plane z=0; only cell pairs with touching boundaries deviate" and "sheared plane z=x+2y; only cell pairs ...", and
      "triangulations: overlaps of a first-/second-tessellation cell sum to its measure" / "rotated coordinates; only cell pairs
      with touching boundaries deviate" (which of these nine (obligation, signature) pairs show up depends on the seed; seed 0
      quick: the two sheared-plane ones).  For every failing case the sidecar recomputes the overlap of every cell pair exactly
      (Sutherland-Hodgman in Fractions) and classifies the deviating pairs: on the unchanged tree ONLY pairs whose boundaries touch
      (shared vertex, vertex on an edge, collinear overlapping edges) deviate.  After match_2d's translation/rotation to the plane
      (or any rotation of the input) such contacts hold only up to rounding.  Two mechanisms: (b1) shapely returns a
      GeometryCollection (Polygon + LineString/Point) and `triangulations` keeps only `isinstance(isect, Polygon)`, so the whole
      overlap of that pair is dropped (a row sum of 0.65 was seen); (b2) GEOS itself returns a wrong polygon for such a pair
      (vertex-order dependent; the overlap goes to the neighbouring cell: one sum exceeds, one falls short) -- (b2) is a robustness
      failure of the trusted library, (b1) is porepy's.  A bug that affects cell pairs in general position gets the signature
      "...; cell pairs in general position deviate" (mutants M3, M4 below), so listing (b) as known does not mask it.

Detection power (scratch copy of /repo/src under /var/tmp, POREPY_SRC=<copy>, one bug at a time, quick tier; each gave
exit 1 with VIOLATION lines whose (obligation, signature) do not occur on the unchanged tree):
  M1  line_tessellation: Euclidean length -> `np.sum(np.abs(X[:,0]-X[:,1]))`      -> "line_tessellation: overlaps of a first-/second-
                                                                                  tessellation cell sum to its measure" (oblique lines)
  M2  match_1d 'averaged': division by the OLD grid's cell volumes                -> "match_1d: 'averaged' rows sum to one"
  M3  triangulations: bounding-box filter `max_x_2 < min_x_1[i]` -> `< max_x_1[i]` -> "triangulations: overlaps ... sum to its measure",
                                                                                  "match_2d: ... sum to one" (plane z=0)
  M4  match_2d 'integrated': division by the NEW grid's cell volumes              -> "match_2d: 'integrated' columns sum to one"
  M5  surface_tessellations: `col_new += [k]` -> `[j % num_new]` (wrong mapping)  -> "surface_tessellations: sub-polygon areas mapped to
                                                                                  a cell sum to its area"
Seeded changes caught only by the two later families (quick tier):
  S1  segments_3d: end-point-touch test `np.allclose(.., rtol=0, atol=tol)` loses `rtol=0` (numpy's relative 1e-5 applies)
        -> "line_tessellation: overlaps of a first-/second-tessellation cell sum to its measure", "match_1d: 'averaged' rows /
           'integrated' columns sum to one", signatures "far from the origin, parallel to the x-axis / general direction"
  S3  match_2d: the `weights > tol` mask applied before the 'averaged' / 'integrated' scaling
        -> "match_2d: 'averaged' rows sum to one" / "'integrated' columns sum to one", signature "plane z=0; cell pairs in general
           position deviate" (fine triangulations with tol 1e-4 / 1e-6)
Seeded change caught only by the family with arbitrary cell numbering (quick tier):
  S2  line_tessellation: inner loop over the second tessellation left at the first non-intersecting segment after a hit (assumes
      that the segments meeting a given segment are numbered consecutively)
        -> "line_tessellation: overlaps of a first-/second-tessellation cell sum to its measure", "match_1d: 'averaged' rows /
           'integrated' columns sum to one", signatures "<line>; cells numbered in arbitrary order"
"""
from __future__ import annotations

import itertools
import math
from fractions import Fraction

META = {
    "level": "exploration",
    "engine": "sweep",
    "technique": "run-time contract sweep (bounded stand-in for deduction): pairs of tessellations of a common segment / square through "
                 "the real overlap and matching functions, sums compared with exact rational cell measures",
    "text": "Tier B only: non-negativity and per-cell sum of overlaps (both tessellations), per-cell area sum through the "
            "surface_tessellations mappings, row/column sums of the averaged/integrated matching matrices, for every pair of node subsets "
            "of a 7-point (thorough 9-point) lattice in 1-D (exhaustive) and seeded pairs of structured/perturbed/Delaunay triangulations of "
            "the unit square in 2-D; in addition every 2nd (thorough 3rd) 1-D pair on two segments ~1e6 cell lengths away from the origin "
            "(line_tessellation, match_1d) and match_2d on fine Delaunay triangulations (60+/140+ cells) with tol 1e-4 / 1e-6 and genuine "
            "overlaps below tol; the 1-D pairs also with the cells of each tessellation numbered in arbitrary (interleaved / seeded shuffled) "
            "order along the line (permuted columns of l1 / l2, match_1d on grids with permuted cell numbering) on all 6 lines. Not covered: segments / squares much smaller than the absolute tolerance 1e-8 of segments_3d, fine "
            "triangulations in tilted planes. The polygon clipping itself is shapely's (trusted library); no deduction.",
    "note": "cell measures exact (fractions.Fraction); sums compared at 1e-12 relative to the domain measure; shapely/GEOS trusted",
}

RTOL = 1e-12

# ----------------------------------------------------------------------------- 1-D


LINES = {
    # name: (base point, direction) with rational entries; the tessellated segment is base + t*direction, t in [0,1]
    "x-axis": ((0, 0, 0), (1, 0, 0)),
    "oblique in z=0": ((1, -2, 0), (3, 4, 0)),
    "negative direction, plane y=1": ((2, 1, 5), (-6, 0, -6)),
    "general line": ((Fraction(1, 2), 0, -1), (2, 3, 6)),
}


# The measure of a segment does not depend on where the segment lies: the same tessellations on segments FAR from the origin
# relative to the cell size (|coordinates| / cell length ~ 1e6, e.g. metre-sized cells in UTM coordinates).  The directions are
# 24 x an integer vector, so that for the lattices k/6 and k/8 every node coordinate is an integer below 2^26: node coordinates,
# cell lengths and the cross products / quotients formed by segments_3d are exact in double precision.
FAR_LINES = {
    "far from the origin, parallel to the x-axis": ((2 ** 23, 0, 0), (24, 0, 0)),
    "far from the origin, general direction": ((2 ** 23, -(2 ** 24), 2 ** 25), (48, -72, 144)),
}


def _dir_len2(d):
    return sum(Fraction(c) ** 2 for c in d)


def tess_1d(ts, line, scramble):
    """nodes (3,n) as floats, lines (2,n-1); ts sorted parameters (Fractions).  scramble: permutation seed (int)."""
    import numpy as np

    base, d = LINES[line] if line in LINES else FAR_LINES[line]
    n = len(ts)
    perm = list(range(n))
    if scramble:
        perm = perm[scramble % n:] + perm[:scramble % n]
        perm = perm[::-1] if scramble % 2 else perm
    pos = {k: perm.index(k) for k in range(n)}  # node k stored in column pos[k]
    P = np.zeros((3, n))
    for k, t in enumerate(ts):
        for c in range(3):
            P[c, pos[k]] = float(Fraction(base[c]) + t * Fraction(d[c]))
    L = np.array([[pos[k], pos[k + 1]] if (k + scramble) % 2 == 0 else [pos[k + 1], pos[k]] for k in range(n - 1)], dtype=int).T
    return P, L


SYMPTOM = [""]  # symptom of the last failed sum check (part of the violation signature: overlap lost vs. overlap misattributed)


def check_overlaps(overlaps, meas1, meas2, total):
    """overlaps: list of (i, j, value); meas*: exact measures; -> list of (clause, detail)"""
    fails = []
    tol = RTOL * float(total)
    s1, s2 = [0.0] * len(meas1), [0.0] * len(meas2)
    for i, j, v in overlaps:
        v = float(v)
        if not v >= -tol:
            fails.append(("non-neg", f"overlap({i},{j}) = {v!r}"))
        if not (0 <= i < len(meas1) and 0 <= j < len(meas2)):
            fails.append(("sum-1", f"index ({i},{j}) out of range"))
            continue
        s1[i] += v
        s2[j] += v
    for k, (s, m) in enumerate(zip(s1, meas1)):
        if not abs(s - float(m)) <= tol:
            fails.append(("sum-1", f"cell {k} of the first tessellation: overlaps sum to {s!r}, measure {m} = {float(m)!r}"))
    for k, (s, m) in enumerate(zip(s2, meas2)):
        if not abs(s - float(m)) <= tol:
            fails.append(("sum-2", f"cell {k} of the second tessellation: overlaps sum to {s!r}, measure {m} = {float(m)!r}"))
    excess = any(s > float(m) + tol for s, m in zip(s1, meas1)) or any(s > float(m) + tol for s, m in zip(s2, meas2))
    SYMPTOM[0] = "some sum exceeds the measure" if excess else "sums fall short"
    return fails


def check_matrix(M, scaling, what):
    import numpy as np

    A = np.asarray(M.todense(), dtype=float)
    fails = []
    if A.size and A.min() < -RTOL:
        fails.append((f"{what}: '{scaling}' entries are non-negative", f"min entry {A.min()!r}"))
    sums = A.sum(axis=1) if scaling == "averaged" else A.sum(axis=0)
    bad = [(k, float(s)) for k, s in enumerate(np.ravel(sums)) if not abs(s - 1.0) <= 1e-12 * max(1, A.shape[0], A.shape[1])]
    if bad:
        name = "rows sum to one" if scaling == "averaged" else "columns sum to one"
        SYMPTOM[0] = "some sum exceeds 1" if any(v > 1 for _k, v in bad) else "sums fall short"
        fails.append((f"{what}: '{scaling}' {name}", f"{'row' if scaling == 'averaged' else 'column'} sums {bad[:4]}"))
    return fails


def sweep_1d(rep, pp, quick):
    import numpy as np

    N = 6 if quick else 8
    lattice = [Fraction(k, N) for k in range(N + 1)]
    interior = lattice[1:-1]
    subsets = [tuple(s) for r in range(len(interior) + 1) for s in itertools.combinations(interior, r)]
    with rep.sweep(
        "line_tessellation",
        rule=f"every ordered pair of tessellations of [0,1] whose nodes are 0, 1 and a subset of the interior points of the lattice k/{N}; "
             "each pair on 4 lines in space (cycled with the pair index; all 4 for every 8th pair), node columns scrambled, segment "
             "orientation alternating; non-trivial = the two node sets differ; distinct by (line, subset 1, subset 2)",
        bound=f"{len(subsets)} x {len(subsets)} pairs",
        exhaustive=True,
    ) as sw:
        names = list(LINES)
        for a, S1 in enumerate(subsets):
            for b, S2 in enumerate(subsets):
                idx = a * len(subsets) + b
                t1, t2 = [lattice[0], *S1, lattice[-1]], [lattice[0], *S2, lattice[-1]]
                for ln in (names if idx % 8 == 0 else [names[idx % 4]]):
                    L2 = _dir_len2(LINES[ln][1])
                    Lf = float(L2) ** 0.5
                    P1, L1 = tess_1d(t1, ln, a)
                    P2, Lb = tess_1d(t2, ln, b + 1)
                    sw.case(key=(ln, S1, S2), nontrivial=(S1 != S2),
                            sample={"line": ln, "nodes_1": [str(t) for t in t1], "nodes_2": [str(t) for t in t2]})
                    inp = {"fn": "line_tessellation", "line": ln, "t1": [str(t) for t in t1], "t2": [str(t) for t in t2], "a": a, "b": b}
                    try:
                        ov = pp.intersections.line_tessellation(P1, P2, L1, Lb)
                    except Exception as ex:  # noqa: BLE001
                        rep.violation("line_tessellation: does not raise on two tessellations of one segment", ln, inputs=inp,
                                      detail=f"{type(ex).__name__}: {ex}")
                        continue
                    # measures in units of the parameter, scaled by the (floating) length of the direction: compare in parameter units
                    ovp = [(i, j, v / Lf) for i, j, v in ov]
                    m1 = [t1[k + 1] - t1[k] for k in range(len(t1) - 1)]
                    m2 = [t2[k + 1] - t2[k] for k in range(len(t2) - 1)]
                    for clause, detail in check_overlaps(ovp, m1, m2, 1)[:3]:
                        rep.violation(f"line_tessellation: {CL[clause]}", ln, inputs=inp, detail=f"nodes {inp['t1']} vs {inp['t2']}: {detail}")
    with rep.sweep(
        "match_1d",
        rule="the same pairs of node subsets as 1-D TensorGrids on the x-axis (every pair in quick for the 7-point lattice; every 4th pair of "
             "the 9-point lattice in thorough), scaling 'averaged' and 'integrated'; non-trivial = node sets differ; distinct by "
             "(subset new, subset old, scaling)",
        bound=f"{len(subsets)} x {len(subsets)} pairs x 2 scalings",
        exhaustive=quick,
    ) as sw:
        grids = {}
        for S in subsets:
            g = pp.TensorGrid(np.array([float(t) for t in (lattice[0], *S, lattice[-1])]))
            g.compute_geometry()
            grids[S] = g
        for a, S1 in enumerate(subsets):
            for b, S2 in enumerate(subsets):
                if not quick and (a * len(subsets) + b) % 4:
                    continue
                for scaling in ("averaged", "integrated"):
                    sw.case(key=(S1, S2, scaling), nontrivial=(S1 != S2), sample={"new": [str(t) for t in S1], "old": [str(t) for t in S2], "scaling": scaling})
                    inp = {"fn": "match_1d", "new": [str(t) for t in S1], "old": [str(t) for t in S2], "N": N, "scaling": scaling}
                    try:
                        M = pp.match_grids.match_1d(grids[S1], grids[S2], tol=1e-8, scaling=scaling)
                    except Exception as ex:  # noqa: BLE001
                        rep.violation("match_1d: does not raise on two grids of one segment", "x-axis", inputs=inp, detail=f"{type(ex).__name__}: {ex}")
                        continue
                    for ob, detail in check_matrix(M, scaling, "match_1d"):
                        rep.violation(ob, "1-D grids on the x-axis", inputs=inp, detail=f"new interior nodes {inp['new']}, old {inp['old']}: {detail}")
    far = list(FAR_LINES)
    step = 2 if quick else 3
    with rep.sweep(
        "line_tessellation / match_1d far from the origin",
        rule=f"the same ordered pairs of node subsets of the lattice k/{N} (every {'2nd' if quick else '3rd'} pair), on two segments whose "
             "distance from the origin is ~1e6 cell lengths (integer node coordinates around 2^23..2^25, cells 3..24 (x-axis) / 21..168 long; "
             "one parallel to the x-axis, one with all three coordinates varying), alternating; line_tessellation with scrambled node columns and alternating "
             "segment orientation, and match_1d 'averaged' / 'integrated' on 1-D grids with these nodes; non-trivial = node sets differ; "
             "distinct by (line, subset 1, subset 2)",
        bound=f"{len(subsets)} x {len(subsets)} pairs / {step}",
        exhaustive=False,
    ) as sw:
        grids = {}

        def far_grid(S, ln):
            if (S, ln) not in grids:
                P, _L = tess_1d([lattice[0], *S, lattice[-1]], ln, 0)
                g = pp.TensorGrid(np.arange(P.shape[1], dtype=float))
                g.nodes = P
                g.compute_geometry()
                grids[(S, ln)] = g
            return grids[(S, ln)]

        for a, S1 in enumerate(subsets):
            for b, S2 in enumerate(subsets):
                idx = a * len(subsets) + b
                if idx % step:
                    continue
                ln = far[(idx // step) % 2]
                t1, t2 = [lattice[0], *S1, lattice[-1]], [lattice[0], *S2, lattice[-1]]
                Lf = float(_dir_len2(FAR_LINES[ln][1])) ** 0.5  # 24 and 168: exact
                P1, L1 = tess_1d(t1, ln, a)
                P2, Lb = tess_1d(t2, ln, b + 1)
                sw.case(key=(ln, S1, S2), nontrivial=(S1 != S2), sample={"line": ln, "nodes_1": [str(t) for t in t1], "nodes_2": [str(t) for t in t2]})
                inp = {"fn": "line_tessellation", "line": ln, "t1": [str(t) for t in t1], "t2": [str(t) for t in t2], "a": a, "b": b}
                try:
                    ov = pp.intersections.line_tessellation(P1, P2, L1, Lb)
                except Exception as ex:  # noqa: BLE001
                    rep.violation("line_tessellation: does not raise on two tessellations of one segment", ln, inputs=inp, detail=f"{type(ex).__name__}: {ex}")
                    ov = None
                if ov is not None:
                    m1 = [t1[k + 1] - t1[k] for k in range(len(t1) - 1)]
                    m2 = [t2[k + 1] - t2[k] for k in range(len(t2) - 1)]
                    for clause, detail in check_overlaps([(i, j, v / Lf) for i, j, v in ov], m1, m2, 1)[:3]:
                        rep.violation(f"line_tessellation: {CL[clause]}", ln, inputs=inp, detail=f"nodes {inp['t1']} vs {inp['t2']}: {detail}")
                for scaling in ("averaged", "integrated"):
                    inp = {"fn": "match_1d", "line": ln, "new": [str(t) for t in S1], "old": [str(t) for t in S2], "N": N, "scaling": scaling}
                    try:
                        M = pp.match_grids.match_1d(far_grid(S1, ln), far_grid(S2, ln), tol=1e-8, scaling=scaling)
                    except Exception as ex:  # noqa: BLE001
                        rep.violation("match_1d: does not raise on two grids of one segment", ln, inputs=inp, detail=f"{type(ex).__name__}: {ex}")
                        continue
                    for ob, detail in check_matrix(M, scaling, "match_1d"):
                        rep.violation(ob, f"1-D grids {ln}", inputs=inp, detail=f"new interior nodes {inp['new']}, old {inp['old']}: {detail}")


NUMBERINGS = ("interleaved", "shuffled", "consecutive")


def cell_perm(n, variant, shuffled):
    """numbering of the n cells of a 1-D tessellation: entry c = position along the line (0 = first) of the cell numbered c"""
    if variant == "interleaved":  # even positions in increasing order, then the odd positions in decreasing order
        return list(range(0, n, 2)) + list(range(1, n, 2))[::-1]
    if variant == "shuffled":
        return list(shuffled)
    return list(range(n))


def _monotone(perm):
    return list(perm) == sorted(perm) or list(perm) == sorted(perm, reverse=True)


def permuted_grid(pp, ts, line, perm):
    """1-D grid with nodes base + t*direction (t in ts, in this order) whose cell c is the perm[c]-th interval along the line"""
    import numpy as np

    P, _L = tess_1d(ts, line, 0)
    g0 = pp.TensorGrid(np.arange(len(ts), dtype=float))
    g = pp.Grid(1, P, g0.face_nodes, g0.cell_faces.tocsc()[:, list(perm)], "line grid, permuted cell numbering")
    g.compute_geometry()
    return g


def sweep_1d_numbering(rep, pp, quick):
    """The statement speaks of tessellations, i.e. SETS of cells: the order in which the cells are numbered is arbitrary (a 1-D grid
    assembled from several pieces, a mortar grid after refinement / replacement, cells of a .msh file).  The other 1-D families
    scramble the node columns and the orientation of the segments, but number the cells consecutively along the line.  Here the
    columns of `l1` / `l2` (and the cells of the grids given to match_1d) are permuted; the exact measure of cell c is that of the
    interval perm[c]."""
    import random

    N = 6 if quick else 8
    lattice = [Fraction(k, N) for k in range(N + 1)]
    interior = lattice[1:-1]
    subsets = [tuple(s) for r in range(len(interior) + 1) for s in itertools.combinations(interior, r)]
    rnd = random.Random(f"C33 cell numbering {rep.seed}")  # own stream: the seeded cases of the other families do not change
    shuffled = {S: rnd.sample(range(len(S) + 1), len(S) + 1) for S in subsets}
    names = list(LINES) + list(FAR_LINES)
    step_lt = 1 if quick else 2
    step_m = 2 if quick else 8
    with rep.sweep(
        "line_tessellation / match_1d with cells numbered in arbitrary order",
        rule=f"ordered pairs of node subsets of the lattice k/{N} (line_tessellation: every {'pair' if quick else '2nd pair'}; match_1d 'averaged' and "
             f"'integrated': every {step_m}{'nd' if step_m == 2 else 'th'} pair), on the 4 lines and the 2 far segments (cycled); the cells of each "
             "tessellation numbered 'interleaved' (even positions ascending, then odd positions descending), 'shuffled' (seeded "
             "permutation per node subset) or 'consecutive' (never both): columns of l1 / l2 permuted (node columns scrambled and segment "
             "orientation alternating as before), match_1d on 1-D grids whose cell_faces columns are permuted; non-trivial = node sets "
             "differ and some numbering is not monotone along the line; distinct by (line, subset 1, subset 2)",
        bound=f"{len(subsets)} x {len(subsets)} pairs",
        exhaustive=False,
    ) as sw:
        grids = {}

        def grid(S, ln, variant):
            if (S, ln, variant) not in grids:
                grids[(S, ln, variant)] = permuted_grid(pp, [lattice[0], *S, lattice[-1]], ln, cell_perm(len(S) + 1, variant, shuffled[S]))
            return grids[(S, ln, variant)]

        for a, S1 in enumerate(subsets):
            for b, S2 in enumerate(subsets):
                idx = a * len(subsets) + b
                if idx % step_lt:
                    continue
                v1, v2 = NUMBERINGS[idx % 3], NUMBERINGS[(idx // 3) % 3]
                if v1 == v2 == "consecutive":
                    v2 = "shuffled"
                ln = names[(idx // 9) % len(names)]
                t1, t2 = [lattice[0], *S1, lattice[-1]], [lattice[0], *S2, lattice[-1]]
                perm1, perm2 = cell_perm(len(t1) - 1, v1, shuffled[S1]), cell_perm(len(t2) - 1, v2, shuffled[S2])
                Lf = float(_dir_len2((LINES[ln] if ln in LINES else FAR_LINES[ln])[1])) ** 0.5
                P1, L1 = tess_1d(t1, ln, a)
                P2, Lb = tess_1d(t2, ln, b + 1)
                sig = f"{ln}; cells numbered in arbitrary order"
                sw.case(key=(ln, S1, S2), nontrivial=(S1 != S2 and not (_monotone(perm1) and _monotone(perm2))),
                        sample={"line": ln, "nodes_1": [str(t) for t in t1], "nodes_2": [str(t) for t in t2], "cell_numbering_1": perm1, "cell_numbering_2": perm2})
                inp = {"fn": "line_tessellation", "line": ln, "t1": [str(t) for t in t1], "t2": [str(t) for t in t2], "a": a, "b": b,
                       "perm1": perm1, "perm2": perm2}
                try:
                    ov = pp.intersections.line_tessellation(P1, P2, L1[:, perm1], Lb[:, perm2])
                except Exception as ex:  # noqa: BLE001
                    rep.violation("line_tessellation: does not raise on two tessellations of one segment", sig, inputs=inp, detail=f"{type(ex).__name__}: {ex}")
                    ov = None
                if ov is not None:
                    m1 = [t1[k + 1] - t1[k] for k in perm1]
                    m2 = [t2[k + 1] - t2[k] for k in perm2]
                    for clause, detail in check_overlaps([(i, j, v / Lf) for i, j, v in ov], m1, m2, 1)[:3]:
                        rep.violation(f"line_tessellation: {CL[clause]}", sig, inputs=inp,
                                      detail=f"nodes {inp['t1']} vs {inp['t2']}, cell c = interval number {perm1}[c] / {perm2}[c] along the line: {detail}")
                if idx % step_m:
                    continue
                for scaling in ("averaged", "integrated"):
                    inp = {"fn": "match_1d", "line": ln, "new": [str(t) for t in S1], "old": [str(t) for t in S2], "N": N, "scaling": scaling,
                           "perm_new": perm1, "perm_old": perm2}
                    try:
                        M = pp.match_grids.match_1d(grid(S1, ln, v1), grid(S2, ln, v2), tol=1e-8, scaling=scaling)
                    except Exception as ex:  # noqa: BLE001
                        rep.violation("match_1d: does not raise on two grids of one segment", sig, inputs=inp, detail=f"{type(ex).__name__}: {ex}")
                        continue
                    for ob, detail in check_matrix(M, scaling, "match_1d"):
                        rep.violation(ob, f"1-D grids, {sig}", inputs=inp,
                                      detail=f"new interior nodes {inp['new']} (cell numbering {perm1}), old {inp['old']} (cell numbering {perm2}): {detail}")


CL = {
    "non-neg": "overlaps are non-negative",
    "sum-1": "overlaps of a first-tessellation cell sum to its measure",
    "sum-2": "overlaps of a second-tessellation cell sum to its measure",
}

# ----------------------------------------------------------------------------- 2-D


def tri_area2(p, t):
    (x0, y0), (x1, y1), (x2, y2) = p[t[0]], p[t[1]], p[t[2]]
    return (x1 - x0) * (y2 - y0) - (x2 - x0) * (y1 - y0)


def structured(nx, ny, diag, rng, perturb):
    """-> (points list of (Fraction, Fraction), triangles list of index triples (ccw)) of the unit square"""
    for _attempt in range(50):
        pts = []
        for j in range(ny + 1):
            for i in range(nx + 1):
                x, y = Fraction(i, nx), Fraction(j, ny)
                if perturb:
                    if 0 < i < nx:
                        x += Fraction(rng.randint(-3, 3), 16 * nx)
                    if 0 < j < ny:
                        y += Fraction(rng.randint(-3, 3), 16 * ny)
                pts.append((x, y))
        tris = []
        for j in range(ny):
            for i in range(nx):
                a, b, c, d = j * (nx + 1) + i, j * (nx + 1) + i + 1, (j + 1) * (nx + 1) + i + 1, (j + 1) * (nx + 1) + i
                mode = diag if diag in "ab" else ("a" if (i + j) % 2 == 0 else "b")
                tris += [(a, b, c), (a, c, d)] if mode == "a" else [(a, b, d), (b, c, d)]
        if all(tri_area2(pts, t) > 0 for t in tris):
            return pts, tris
    raise AssertionError("no valid perturbation found")


def delaunay(n_int, rng, den=24):
    from scipy.spatial import Delaunay
    import numpy as np

    pts = [(Fraction(0), Fraction(0)), (Fraction(1), Fraction(0)), (Fraction(1), Fraction(1)), (Fraction(0), Fraction(1))]
    while len(pts) < 4 + n_int:
        q = (Fraction(rng.randint(1, den - 1), den), Fraction(rng.randint(1, den - 1), den))
        if q not in pts:
            pts.append(q)
    for k in range(rng.randint(0, 2)):  # boundary nodes
        q = rng.choice([(Fraction(rng.randint(1, 7), 8), Fraction(0)), (Fraction(1), Fraction(rng.randint(1, 7), 8)), (Fraction(0), Fraction(rng.randint(1, 7), 8))])
        if q not in pts:
            pts.append(q)
    simp = Delaunay(np.array([[float(x), float(y)] for x, y in pts])).simplices
    tris = []
    for t in simp:
        t = tuple(int(i) for i in t)
        a2 = tri_area2(pts, t)
        if a2 == 0:
            continue  # a degenerate sliver made of three collinear boundary nodes carries no area
        tris.append(t if a2 > 0 else (t[0], t[2], t[1]))
    assert sum(tri_area2(pts, t) for t in tris) == 2, "triangulation does not cover the unit square"
    return pts, tris


def make_triangulations(rng, n_struct, n_del):
    out = []
    shapes = [(nx, ny, d) for nx in (1, 2, 3) for ny in (1, 2, 3) for d in ("a", "b", "x")]
    for k in range(n_struct):
        nx, ny, d = shapes[k % len(shapes)]
        out.append((f"structured {nx}x{ny}{d}{' perturbed' if k >= len(shapes) else ''}",) + structured(nx, ny, d, rng, perturb=(k >= len(shapes))))
    for k in range(n_del):
        out.append((f"delaunay {2 + k % 5} interior",) + delaunay(2 + k % 5, rng))
    return out


def arrays_2d(pts, tris, flip_some=False):
    import numpy as np

    P = np.array([[float(x) for x, y in pts], [float(y) for x, y in pts]])
    T = np.array([(t[0], t[2], t[1]) if (flip_some and k % 3 == 0) else t for k, t in enumerate(tris)], dtype=int).T
    return P, T


def shoelace(poly):
    x, y = poly[0], poly[1]
    n = len(x)
    return 0.5 * sum(float(x[i]) * float(y[(i + 1) % n]) - float(x[(i + 1) % n]) * float(y[i]) for i in range(n))


def check_surface(isect, mappings, cell_areas_per_set, what):
    import numpy as np

    fails = []
    areas = [abs(shoelace(p)) for p in isect]
    for s, (M, cell_areas) in enumerate(zip(mappings, cell_areas_per_set)):
        A = np.asarray(M.todense())
        if A.shape != (len(isect), len(cell_areas)):
            fails.append(("mapping shape", f"set {s}: mapping {A.shape}, {len(isect)} polygons, {len(cell_areas)} cells"))
            continue
        for k, m in enumerate(cell_areas):
            tot = sum(areas[j] for j in range(len(isect)) if A[j, k] != 0)
            if not abs(tot - float(m)) <= RTOL:
                fails.append(("sub-polygon areas mapped to a cell sum to its area", f"{what}: set {s} cell {k}: sum {tot!r}, area {m} = {float(m)!r}"))
    return fails


def _clip2(poly, a, b):
    """part of the convex polygon on the left of (or on) the directed line a->b; exact"""
    out = []
    k = len(poly)
    side = lambda q: (b[0] - a[0]) * (q[1] - a[1]) - (b[1] - a[1]) * (q[0] - a[0])  # noqa: E731
    for i in range(k):
        p, q = poly[i], poly[(i + 1) % k]
        sp, sq = side(p), side(q)
        if sp >= 0:
            out.append(p)
        if (sp > 0 > sq) or (sq > 0 > sp):
            t = Fraction(sp) / (sp - sq)
            out.append((p[0] + t * (q[0] - p[0]), p[1] + t * (q[1] - p[1])))
    return out


def exact_overlap(pa, ta, pb, tb):
    """exact area of the intersection of two counter-clockwise triangles"""
    poly = [pa[v] for v in ta]
    B = [pb[v] for v in tb]
    for i in range(3):
        if len(poly) < 3:
            return Fraction(0)
        poly = _clip2(poly, B[i], B[(i + 1) % 3])
    if len(poly) < 3:
        return Fraction(0)
    return sum(poly[i][0] * poly[(i + 1) % len(poly)][1] - poly[(i + 1) % len(poly)][0] * poly[i][1] for i in range(len(poly))) / 2


def share_part_of_an_edge(pa, ta, pb, tb):
    """some edge of triangle a and some edge of triangle b are collinear and overlap along a positive length"""
    for i in range(3):
        a0, a1 = pa[ta[i]], pa[ta[(i + 1) % 3]]
        d = (a1[0] - a0[0], a1[1] - a0[1])
        L = d[0] * d[0] + d[1] * d[1]
        for j in range(3):
            b0, b1 = pb[tb[j]], pb[tb[(j + 1) % 3]]
            if d[0] * (b0[1] - a0[1]) - d[1] * (b0[0] - a0[0]) != 0 or d[0] * (b1[1] - a0[1]) - d[1] * (b1[0] - a0[0]) != 0:
                continue
            t0 = Fraction((b0[0] - a0[0]) * d[0] + (b0[1] - a0[1]) * d[1]) / L
            t1 = Fraction((b1[0] - a0[0]) * d[0] + (b1[1] - a0[1]) * d[1]) / L
            if max(Fraction(0), min(t0, t1)) < min(Fraction(1), max(t0, t1)):
                return True
    return False


def boundaries_touch(pa, ta, pb, tb):
    """a vertex of one triangle lies on the boundary of the other (incl. shared vertices), or two edges overlap collinearly"""
    if share_part_of_an_edge(pa, ta, pb, tb):
        return True

    def on_seg(q, a, b):
        d, w = (b[0] - a[0], b[1] - a[1]), (q[0] - a[0], q[1] - a[1])
        if d[0] * w[1] - d[1] * w[0] != 0:
            return False
        c = w[0] * d[0] + w[1] * d[1]
        return 0 <= c <= d[0] * d[0] + d[1] * d[1]

    for (P, T, Q, U) in ((pa, ta, pb, tb), (pb, tb, pa, ta)):
        for v in T:
            if any(on_seg(P[v], Q[U[k]], Q[U[(k + 1) % 3]]) for k in range(3)):
                return True
    return False


def classify_discrepancy(tess1, tess2, got):
    """got: dict (i,j) -> overlap area returned (absent = 0).  Which cell pairs deviate from the exact overlap?"""
    (p1, t1), (p2, t2) = tess1, tess2
    other = 0
    shared = 0
    for i, ta in enumerate(t1):
        for j, tb in enumerate(t2):
            ex = exact_overlap(p1, ta, p2, tb)
            if abs(got.get((i, j), 0.0) - float(ex)) > 1e-11:
                if boundaries_touch(p1, ta, p2, tb):
                    shared += 1
                else:
                    other += 1
    if other:
        return "cell pairs in general position deviate"
    return "only cell pairs with touching boundaries deviate" if shared else "no single cell pair deviates"


def _ser(p, t):
    return {"points": [[str(x), str(y)] for x, y in p], "triangles": [list(x) for x in t]}


def _deser(d):
    return [(Fraction(x), Fraction(y)) for x, y in d["points"]], [tuple(int(v) for v in t) for t in d["triangles"]]


def _xy(p, v, ang):
    x, y = float(p[v][0]), float(p[v][1])
    if ang is None:
        return x, y
    co, si = math.cos(ang), math.sin(ang)
    return co * x - si * y, si * x + co * y


def case_triangulations(pp, tess1, tess2, ang, flip):
    """-> list of (obligation, signature, detail)"""
    import numpy as np

    (p1, t1), (p2, t2) = tess1, tess2
    coords = "rotated coordinates" if ang is not None else "axis-aligned coordinates"
    P1 = np.array([_xy(p1, v, ang) for v in range(len(p1))]).T
    P2 = np.array([_xy(p2, v, ang) for v in range(len(p2))]).T
    T1 = np.array([(t[0], t[2], t[1]) if (flip and q % 3 == 0) else t for q, t in enumerate(t1)], dtype=int).T
    T2 = np.array(t2, dtype=int).T
    a1 = [Fraction(tri_area2(p1, t), 2) for t in t1]
    a2 = [Fraction(tri_area2(p2, t), 2) for t in t2]
    try:
        ov = pp.intersections.triangulations(P1, P2, T1, T2)
    except Exception as ex:  # noqa: BLE001
        return [("triangulations: does not raise on two triangulations of one square", f"{coords}: {type(ex).__name__}", f"{type(ex).__name__}: {ex}")]
    fails = check_overlaps(ov, a1, a2, 1)[:3]
    if not fails:
        return []
    got = {}
    for i, j, v in ov:
        got[(int(i), int(j))] = got.get((int(i), int(j)), 0.0) + float(v)
    cls = classify_discrepancy(tess1, tess2, got)
    return [(f"triangulations: {CL[c]}", f"{coords}; {cls}", d) for c, d in fails]


def case_surface(pp, tesss, ang, simplex):
    import numpy as np

    coords = "rotated coordinates" if ang is not None else "axis-aligned coordinates"
    sets = [[np.array([[_xy(p, v, ang)[0] for v in t], [_xy(p, v, ang)[1] for v in t]]) for t in tr] for p, tr in tesss]
    cell_areas = [[Fraction(tri_area2(p, t), 2) for t in tr] for p, tr in tesss]
    try:
        isect, maps = pp.intersections.surface_tessellations(sets, return_simplexes=simplex)
    except Exception as ex:  # noqa: BLE001
        return [("surface_tessellations: does not raise on tessellations of one square", f"{type(ex).__name__}: {str(ex)[:40]}",
                 f"{len(sets)} sets, simplexes={simplex}, {coords}: {type(ex).__name__}: {ex}")]
    return [(f"surface_tessellations: {c}", coords, d) for c, d in check_surface(isect, maps, cell_areas, coords)[:3]]


def make_grid(pp, tess, sheared):
    import numpy as np

    P, T = arrays_2d(tess[0], tess[1])
    if sheared:
        P = np.vstack((P, P[0] + 2 * P[1]))
    g = pp.TriangleGrid(P, T.copy())
    g.compute_geometry()
    return g


def case_match_2d(pp, g_new, g_old, sheared, scaling, tess_new=None, tess_old=None, tol=1e-8):
    import numpy as np

    plane = "sheared plane z=x+2y" if sheared else "plane z=0"
    try:
        M = pp.match_grids.match_2d(g_new, g_old, tol=tol, scaling=scaling)
    except Exception as ex:  # noqa: BLE001
        return [("match_2d: does not raise on two triangulations of one square", f"{plane}: {type(ex).__name__}", f"{type(ex).__name__}: {ex}")]
    fails = check_matrix(M, scaling, "match_2d")
    if not fails:
        return []
    cls = ""
    if tess_new is not None:
        # back to overlap areas in the unit square's own coordinates (the shear multiplies every area by sqrt(6))
        A = np.asarray(M.todense(), dtype=float)
        a_new = [float(Fraction(tri_area2(tess_new[0], t), 2)) for t in tess_new[1]]
        a_old = [float(Fraction(tri_area2(tess_old[0], t), 2)) for t in tess_old[1]]
        got = {(i, j): A[i, j] * (a_new[i] if scaling == "averaged" else a_old[j]) for i in range(A.shape[0]) for j in range(A.shape[1]) if A[i, j] != 0}
        cls = "; " + classify_discrepancy(tess_new, tess_old, got)
    return [(ob, plane + cls, d) for ob, d in fails]


def sweep_2d(rep, pp, quick):
    rng = rep.rng
    tess = make_triangulations(rng, 27 + (13 if quick else 81), 8 if quick else 60)
    pairs = []
    n_pairs = 600 if quick else 6000
    while len(pairs) < n_pairs:
        i, j = rng.randrange(len(tess)), rng.randrange(len(tess))
        pairs.append((i, j))
    with rep.sweep(
        "triangulations / match_2d / surface_tessellations",
        rule="seeded ordered pairs from a pool of triangulations of the unit square (27 structured nx x ny x diagonal pattern, perturbed "
             "copies with rational interior displacements, Delaunay triangulations of rational point clouds with extra boundary nodes); per "
             "pair: triangulations() (one of the inputs with some triangles given clockwise; every 3rd pair with both point sets rotated "
             "by 0.3, 1.0, 2.2 or 3.9 rad), surface_tessellations() on 2 sets (every 4th pair: 3 sets; every 3rd: return_simplexes=True), "
             "match_2d 'averaged' and 'integrated' in the plane z=0 (every 5th pair also in the sheared plane z=x+2y); non-trivial = the "
             "two triangulations differ; distinct by the pair of pool indices",
        bound=f"pool of {len(tess)} triangulations, {n_pairs} pairs",
        exhaustive=False,
    ) as sw:
        grid_cache = {}

        def grid(i, sheared):
            if (i, sheared) not in grid_cache:
                grid_cache[(i, sheared)] = make_grid(pp, tess[i][1:], sheared)
            return grid_cache[(i, sheared)]

        for k, (i, j) in enumerate(pairs):
            n1, p1, t1 = tess[i]
            n2, p2, t2 = tess[j]
            sw.case(key=(i, j), nontrivial=(i != j), sample={"first": n1, "second": n2, "points_1": [[str(x), str(y)] for x, y in p1][:6], "triangles_1": t1[:4]})
            ang = (0.3, 1.0, 2.2, 3.9)[(k // 3) % 4] if k % 3 == 1 else None
            base = {"names": [n1, n2], "tess": [_ser(p1, t1), _ser(p2, t2)], "angle": ang}
            for ob, sig, detail in case_triangulations(pp, (p1, t1), (p2, t2), ang, k % 2 == 0):
                rep.violation(ob, sig, inputs=dict(base, fn="triangulations", flip=(k % 2 == 0)), detail=f"{n1} vs {n2}: {detail}")
            tesss = [(p1, t1), (p2, t2)]
            if k % 4 == 0:
                m = rng.randrange(len(tess))
                tesss.append(tess[m][1:])
            simplex = (k % 3 == 0)
            for ob, sig, detail in case_surface(pp, tesss, ang, simplex):
                rep.violation(ob, sig, inputs=dict(base, fn="surface_tessellations", tess=[_ser(p, t) for p, t in tesss], simplex=simplex),
                              detail=f"{n1} vs {n2}: {detail}")
            for sheared in ((False, True) if k % 5 == 0 else (False,)):
                for scaling in ("averaged", "integrated"):
                    for ob, sig, detail in case_match_2d(pp, grid(i, sheared), grid(j, sheared), sheared, scaling, (p1, t1), (p2, t2)):
                        rep.violation(ob, sig, inputs=dict(base, fn="match_2d", sheared=sheared, scaling=scaling), detail=f"{n1} vs {n2}: {detail}")


def sweep_2d_fine(rep, pp, quick):
    """match_2d on FINE triangulations and with the tolerance values actually passed by callers.  The row / column sums of the
    'averaged' / 'integrated' matrices are stated for every pair of tessellations and do not depend on `tol` (documented as the
    threshold for dropping overlaps from the unscaled 0/1 matrix only).  Delaunay triangulations of 30 / 70 seeded interior
    lattice points (k/24 with tol 1e-4, k/1000 with tol 1e-6) have 60+ / 140+ cells, and pairs of them have genuine overlaps in
    general position with an area below the tolerance (checked exactly per pair: that is the non-triviality criterion): these
    must still be counted.  Only the plane z=0 is used here (the sheared plane adds nothing for this clause)."""
    rng = rep.rng  # drawn after every other family, so that the seeded cases of the other sweeps are unchanged
    # (interior nodes, lattice denominator, pool size, tol)
    plan = [(30, 24, 3, 1e-4), (70, 1000, 2, 1e-6)] if quick else [(30, 24, 6, 1e-4), (30, 1000, 6, 1e-6), (70, 1000, 4, 1e-6), (70, 24, 4, 1e-4)]
    with rep.sweep(
        "match_2d on fine triangulations, tolerance 1e-4 / 1e-6",
        rule="Delaunay triangulations of the unit square with 30 or 70 seeded interior nodes on the lattice k/24 (with tol 1e-4) or k/1000 (with "
             "tol 1e-6) and 0-2 extra boundary nodes (60+ / 140+ cells); consecutive members of each pool matched cyclically (new = k, old = "
             "k+1) in the plane z=0 with scaling 'averaged' and 'integrated'; tol = 1e-4 (the value of the library's tests) or 1e-6 (the "
             "MortarGrid default): quick 30 nodes with 1e-4 and 70 nodes with 1e-6, thorough all four combinations; non-trivial = some exact "
             "cell-cell overlap has positive area below tol; distinct by (pool, pair)",
        bound="quick: pools of 3 and 2 (5 ordered pairs); thorough: 4 pools, 20 ordered pairs",
        exhaustive=False,
    ) as sw:
        for pool_id, (n_int, den, n_tess, tol) in enumerate(plan):
            pool = [delaunay(n_int, rng, den) for _ in range(n_tess)]
            grids = [make_grid(pp, t, False) for t in pool]
            for k in range(n_tess):
                (p1, t1), (p2, t2) = pool[k], pool[(k + 1) % n_tess]
                # non-trivial: a genuine overlap below the tolerance exists (exact areas; bounding boxes first)
                small = 0
                for ta in t1:
                    xa, ya = [p1[v][0] for v in ta], [p1[v][1] for v in ta]
                    for tb in t2:
                        if small >= 1:
                            break
                        xb, yb = [p2[v][0] for v in tb], [p2[v][1] for v in tb]
                        if max(xa) <= min(xb) or max(xb) <= min(xa) or max(ya) <= min(yb) or max(yb) <= min(ya):
                            continue
                        if 0 < exact_overlap(p1, ta, p2, tb) < Fraction(tol):
                            small += 1
                names = [f"delaunay {n_int} interior #{k} ({len(t1)} cells)", f"delaunay {n_int} interior #{(k + 1) % n_tess} ({len(t2)} cells)"]
                sw.case(key=(pool_id, k), nontrivial=bool(small), sample={"first": names[0], "second": names[1], "tol": tol})
                base = {"names": names, "tess": [_ser(p1, t1), _ser(p2, t2)], "angle": None}
                for scaling in ("averaged", "integrated"):
                    for ob, sig, detail in case_match_2d(pp, grids[k], grids[(k + 1) % n_tess], False, scaling, (p1, t1), (p2, t2), tol=tol):
                        rep.violation(ob, sig, inputs=dict(base, fn="match_2d", sheared=False, scaling=scaling, tol=tol),
                                      detail=f"{names[0]} vs {names[1]}, tol={tol}: {detail}")


def run(rep):
    import warnings

    import porepy as pp

    rep.under_contract("pp.intersections.line_tessellation", "pp.intersections.triangulations", "pp.intersections.surface_tessellations",
                       "pp.match_grids.match_1d", "pp.match_grids.match_2d")
    rep.trust("shapely / GEOS polygon intersection and area (library used by the functions under contract)",
              "exact cell measures: interval lengths and shoelace areas in fractions.Fraction (props/C33.py)",
              "pp.TensorGrid / pp.TriangleGrid construction and compute_geometry (cell volumes used by match_*; checked under C19)")
    rep.assume("requires: both tessellations cover the same segment / the unit square; rational node coordinates; nodes of the two "
               "tessellations coincide exactly or are >= 1/48 apart (fine 2-D triangulations on the lattice k/1000: >= 1/1000; far 1-D "
               "segments: integer coordinates, >= 3 apart)",
               "sums compared at 1e-12 relative to the measure of the domain")
    quick = rep.tier == "quick"
    with warnings.catch_warnings():
        warnings.simplefilter("ignore")
        sweep_1d(rep, pp, quick)
        sweep_1d_numbering(rep, pp, quick)
        sweep_2d(rep, pp, quick)
        sweep_2d_fine(rep, pp, quick)


def replay(data):
    import porepy as pp

    inp = data.get("inputs") or {}
    if inp.get("fn") == "line_tessellation":
        t1, t2 = [Fraction(x) for x in inp["t1"]], [Fraction(x) for x in inp["t2"]]
        ln = inp["line"]
        P1, L1 = tess_1d(t1, ln, inp["a"])
        P2, L2 = tess_1d(t2, ln, inp["b"] + 1)
        perm1 = [int(c) for c in inp.get("perm1", range(len(t1) - 1))]  # cell numbering (absent: consecutive along the line)
        perm2 = [int(c) for c in inp.get("perm2", range(len(t2) - 1))]
        Lf = float(_dir_len2((LINES[ln] if ln in LINES else FAR_LINES[ln])[1])) ** 0.5
        try:
            ov = pp.intersections.line_tessellation(P1, P2, L1[:, perm1], L2[:, perm2])
        except Exception as ex:  # noqa: BLE001
            print("replay: raises", type(ex).__name__, ex)
            return True
        fails = check_overlaps([(i, j, v / Lf) for i, j, v in ov], [t1[k + 1] - t1[k] for k in perm1], [t2[k + 1] - t2[k] for k in perm2], 1)
        for f in fails:
            print("replay:", f)
        return bool(fails)
    if inp.get("fn") == "match_1d":
        import numpy as np

        gs = []
        for key in ("new", "old"):
            if "perm_" + key in inp:
                gs.append(permuted_grid(pp, [Fraction(0)] + [Fraction(x) for x in inp[key]] + [Fraction(1)], inp["line"], [int(c) for c in inp["perm_" + key]]))
                continue
            if inp.get("line") in FAR_LINES:
                P, _L = tess_1d([Fraction(0)] + [Fraction(x) for x in inp[key]] + [Fraction(1)], inp["line"], 0)
                g = pp.TensorGrid(np.arange(P.shape[1], dtype=float))
                g.nodes = P
            else:
                g = pp.TensorGrid(np.array([0.0] + [float(Fraction(x)) for x in inp[key]] + [1.0]))
            g.compute_geometry()
            gs.append(g)
        fails = check_matrix(pp.match_grids.match_1d(gs[0], gs[1], tol=1e-8, scaling=inp["scaling"]), inp["scaling"], "match_1d")
        for f in fails:
            print("replay:", f)
        return bool(fails)
    if inp.get("fn") in ("triangulations", "surface_tessellations", "match_2d"):
        import warnings

        tesss = [_deser(d) for d in inp["tess"]]
        with warnings.catch_warnings():
            warnings.simplefilter("ignore")
            if inp["fn"] == "triangulations":
                fails = case_triangulations(pp, tesss[0], tesss[1], inp.get("angle"), bool(inp.get("flip")))
            elif inp["fn"] == "surface_tessellations":
                fails = case_surface(pp, tesss, inp.get("angle"), bool(inp.get("simplex")))
            else:
                sh = bool(inp.get("sheared"))
                fails = case_match_2d(pp, make_grid(pp, tesss[0], sh), make_grid(pp, tesss[1], sh), sh, inp["scaling"], tesss[0], tesss[1],
                                      tol=float(inp.get("tol", 1e-8)))
        for f in fails:
            print("replay:", f)
        return any(f[0] == data.get("obligation") for f in fails)
    return False
