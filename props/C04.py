"""C04 -- flow and energy models conserve mass and energy discretely.

DESIGN lists C04 as not amenable to per-function contracts (the identity spans incidence matrices, MPFA/upwind
matrices, mortar projections and the model's equation assembly); this file is the bounded run-time stand-in: the
algebraic identity of the statement is evaluated on real, prepared porepy models.

Models: pp.SinglePhaseFlow (mass balance) and pp.MassAndEnergyBalance (mass and energy balance), with CLOSED boundaries
(bc_type_darcy_flux / bc_type_fluid_flux / bc_type_fourier_flux / bc_type_enthalpy_flux all Neumann on every
boundary face, all Neumann values zero) and no external sources (the models' default fluid_source / energy_source
contain the interface fluxes only), on
    2-D: unit square, Cartesian, orthogonal fractures {}, {0}, {1}, {0,1} (intersecting in a point);
         [0,2]x[0,1] rectangle, simplex (gmsh), fractures {}, {0}, {0,1}, {2}, {0,1,2}: fracture 0 reaches the domain
         boundary, fracture 2 is tilted and passes through the intersection of 0 and 1 (triple intersection);
         unit square with NON-MATCHING mortar grids (NonMatchingSquareDomainOrthogonalFractures, fracture and interface
         refinement ratios 3 and 2: matrix faces, mortar cells and fracture cells mutually non-matching), {0}, {0,1};
    3-D (thorough): unit cube, Cartesian, {}, {0}, {0,1}, {0,1,2} (intersection lines and an intersection point),
         simplex {0}, {0,1};
    fluid compressibility 0 and 0.3 (thermal expansion 0 / 0.12 for the energy model).
States: seeded ARBITRARY values (not converged, no regime restrictions besides positive p, T) for pressure,
temperature and ALL interface fluxes (interface_darcy_flux, interface_fourier_flux, interface_enthalpy_flux) at the
current iterate, and different values at the previous time step; the upwind discretization is either refreshed at the
state by the model's update_derived_quantities() ("consistent") or left at that of a different random state ("stale"):
conservation may not depend on the upwind directions.

Clauses (oracle = the algebraic identity of the statement; tolerance 1e-9 relative to the sum of |terms|):
  (a) sum over all cells of all subdomains of the residual rows of the balance equation
      (-EquationSystem.assemble(evaluate_jacobian=False, equations=[name], state=x))
        ==  sum_cells (A(x) - A(x_prev)) / dt,   A = the model's own accumulation operator (fluid_mass /
      volume_integral(total_internal_energy)) evaluated at the iterate and via .previous_timestep();
  (b) sum_cells (Div @ flux - source) == 0 with the model's flux (fluid_flux / energy_flux) and source operators;
  (c) per subdomain: sum_cells (Div @ flux - source) restricted to the subdomain == s * (sum of the interface fluxes
      of the interfaces where it is the higher-dimensional neighbour - sum of those where it is the lower-dimensional
      neighbour), with one global sign s (the orientation convention is not part of the statement): what leaves one
      subdomain enters its neighbour, nothing leaks through the closed boundary or is created in a subdomain.

Detection power (scratch copy /var/tmp/src_models, one mutant at a time, POREPY_SRC=/var/tmp/src_models ./check C04
--tier quick):
  M1 fluid_mass_balance.fluid_source: wrong sign of mortar_to_secondary_int @ interface_fluid_flux -> exit 1, mass
     (a), (b), (c) for every configuration with interfaces.
  M2 fluid_source: mortar_to_secondary_avg instead of _int -> equivalent on matching grids (the two projections are the
     same matrix there; exit 0 before the non-matching geometry was added); exit 1 on the non-matching grids, mass (a),
     (b), (c) [dim 1].
  M3 constitutive_laws.AdvectiveFlux.advective_flux: dropped bound_transport_neu @ mortar_to_primary_int @ interface_flux
     -> exit 1, mass and energy (a), (b), (c) [dim 2 / dim 1].
  M4 energy_balance.energy_source: interface Fourier flux forgotten in the lower-dimensional source -> exit 1, energy
     (a), (b), (c) [dim 1 / dim 0]; mass untouched.
  M5 boundary_condition._combine_boundary_operators: Dirichlet and Neumann filters swapped (boundary pressure /
     temperature data enters as a flux through the closed boundary) -> exit 1, mass and energy (a), (b), (c), also with
     0 fractures.
  M6 SolutionStrategySinglePhaseFlow.update_discretization_parameters ignores bc_type_darcy_flux (hard-coded Dirichlet):
     NOT a conservation defect (exit 0): the mass flux through the boundary is governed by bc_type_fluid_flux (upwind
     discretization: zero Neumann mass flux), so mass stays conserved although the Darcy flux is non-zero on the boundary.
  M6b the same with bc_type_fluid_flux ignored as well -> exit 1, mass (a), (b), (c), also with 0 fractures.
  M7 constitutive_laws.FouriersLaw.fourier_flux: dropped mortar_to_primary_int @ interface_fourier_flux -> exit 1,
     energy (a), (b), (c).
  M8 fluid_source: projection built on the reversed subdomain list (interface sources land in the cells of other
     subdomains; totals still cancel) -> exit 1 by (c) only [dim 1 / dim 0].
  Replay: ./check C04 --replay <file> re-runs the stored configuration (REPRODUCED on the mutant tree, NOT-REPRODUCED on
  /repo/src).
"""
from __future__ import annotations

META = {
    "level": "exploration",
    "engine": "sweep",
    "technique": "run-time contract sweep (bounded stand-in; DESIGN classifies the model-level identity as not amenable to per-function deduction): global and per-subdomain "
                 "sums of the balance residual / flux divergence / interface sources of real prepared models compared with the conservation identity of the statement",
    "text": "Exploration: SinglePhaseFlow and MassAndEnergyBalance with closed boundaries on 0-3 (intersecting, boundary-touching, tilted) fractures, Cartesian and simplex, matching and non-matching mortar grids, 2-D "
            "(quick) and 3-D (thorough), compressible and incompressible fluid, seeded arbitrary states incl. random interface fluxes and a different previous time step, "
            "consistent and stale upwind directions; identities (a) residual sum = accumulation rate, (b) total flux divergence minus interface sources = 0, (c) per-subdomain "
            "net outflow = signed sum of its interface fluxes. No obligation is discharged symbolically. Not covered: wells (codimension-2 interfaces), "
            "gravity, compositional flow, the poromechanics families' mass balance (the statement names the flow models), open boundaries.",
    "note": "the accumulation term is the model's own operator (the statement is about flux cancellation, not the accumulation formula); interface-flux totals in (c) use "
            "mdg.interface_to_subdomain_pair and the model's interface flux operators/variables; tolerance 1e-9 * sum of |terms|",
}

import contextlib
import os
import random
import shutil
import tempfile
import warnings

import numpy as np

RTOL = 1e-9

OB_EVAL = "balance equations: evaluates on an admissible model/state"
OB_A = "{b} balance: residual sum equals accumulation rate"
OB_B = "{b} balance: flux divergence minus interface sources sums to zero"
OB_C = "{b} balance: per-subdomain outflow equals its interface fluxes"


@contextlib.contextmanager
def _scratch_cwd():
    """gmsh (simplex grids) writes gmsh_frac_file.* into the current directory: work in a private scratch directory so that
    nothing is left in /verif and concurrent runs do not collide."""
    base = "/var/tmp" if os.path.isdir("/var/tmp") else None
    d = tempfile.mkdtemp(prefix="verif_C04_", dir=base)
    old = os.getcwd()
    os.chdir(d)
    try:
        yield d
    finally:
        os.chdir(old)
        shutil.rmtree(d, ignore_errors=True)


# ----------------------------------------------------------------------------------------- model construction


def _model_class(pp, spec):
    from porepy.applications.md_grids.model_geometries import (
        CubeDomainOrthogonalFractures,
        NonMatchingSquareDomainOrthogonalFractures,
        RectangularDomainThreeFractures,
        SquareDomainOrthogonalFractures,
    )

    geom = {"square": SquareDomainOrthogonalFractures, "rectangle": RectangularDomainThreeFractures, "cube": CubeDomainOrthogonalFractures,
            "square_nonmatching": NonMatchingSquareDomainOrthogonalFractures}[spec["domain"]]
    phys = pp.SinglePhaseFlow if spec["model"] == "flow" else pp.MassAndEnergyBalance

    class Closed(pp.PorePyModel):
        """Zero Neumann flux on every boundary face, for every flux of the flow and energy problems."""

        def _neu(self, sd):
            return pp.BoundaryCondition(sd, self.domain_boundary_sides(sd).all_bf, "neu")

        def bc_type_darcy_flux(self, sd):
            return self._neu(sd)

        def bc_type_fluid_flux(self, sd):
            return self._neu(sd)

        def bc_type_fourier_flux(self, sd):
            return self._neu(sd)

        def bc_type_enthalpy_flux(self, sd):
            return self._neu(sd)

        def bc_values_darcy_flux(self, bg):
            return np.zeros(bg.num_cells)

        def bc_values_fluid_flux(self, bg):
            return np.zeros(bg.num_cells)

        def bc_values_fourier_flux(self, bg):
            return np.zeros(bg.num_cells)

        def bc_values_enthalpy_flux(self, bg):
            return np.zeros(bg.num_cells)

        # Dirichlet-type data is still asked for by the upwind boundary operator; harmless non-zero values
        def bc_values_pressure(self, bg):
            return 0.8 * np.ones(bg.num_cells)

        def bc_values_temperature(self, bg):
            return 1.2 * np.ones(bg.num_cells)

    if spec.get("laws") == "ad":
        # the differentiable-TPFA variants of the flux laws (optional mixins of the flow models)
        return type("C04ModelAdLaws", (Closed, geom, pp.constitutive_laws.FouriersLawAd, pp.constitutive_laws.DarcysLawAd, phys), {})
    return type("C04Model", (Closed, geom, phys), {})


def build_model(pp, spec):
    compressible = spec["compressible"]
    solid = pp.SolidConstants(normal_permeability=0.9, permeability=0.6, porosity=0.15, residual_aperture=0.08, specific_heat_capacity=1.2, thermal_conductivity=0.8, density=1.3)
    fluid = pp.FluidComponent(compressibility=0.3 if compressible else 0.0, density=1.1, normal_thermal_conductivity=0.7, thermal_conductivity=0.9,
                              thermal_expansion=0.12 if compressible else 0.0, specific_heat_capacity=0.85, viscosity=1.25)
    params = {
        "times_to_export": [],
        "fracture_indices": list(spec["fractures"]),
        "material_constants": {"solid": solid, "fluid": fluid},
        "reference_variable_values": pp.ReferenceVariableValues(pressure=0.1, temperature=0.2),
        "time_manager": pp.TimeManager(schedule=[0.0, 0.74], dt_init=0.37, constant_dt=True),
    }
    if spec["domain"] == "rectangle":
        params["cartesian"] = spec["grid"] == "cartesian"
    else:
        params["grid_type"] = spec["grid"]
        params["meshing_arguments"] = {"cell_size": 0.5}
    if spec["domain"] == "square_nonmatching":
        # matrix faces (2 per side), mortar cells (4 per side) and fracture cells (6) mutually non-matching: fractional projection weights
        params["fracture_refinement_ratio"] = 3
        params["interface_refinement_ratio"] = 2
    m = _model_class(pp, spec)(params)
    m.prepare_simulation()
    m.time_manager.increase_time()
    m.time_manager.increase_time_index()
    m.before_nonlinear_loop()
    return m


def _random_state(m, rng):
    es = m.equation_system
    x = np.zeros(es.num_dofs())
    for v in es.variables:
        dofs = np.asarray(es.dofs_of([v]), dtype=int)
        if v.name in ("pressure", "temperature"):
            x[dofs] = [rng.uniform(0.5, 1.5) for _ in dofs]
        else:  # interface fluxes of either sign and different magnitudes
            x[dofs] = [rng.uniform(-1.0, 1.0) * rng.choice((0.1, 1.0, 3.0)) for _ in dofs]
    return x


# ----------------------------------------------------------------------------------------- the contract


def _balances(pp, m, spec):
    sds = m.mdg.subdomains()
    out = [("mass", "mass_balance_equation", m.fluid_mass(sds), m.fluid_flux(sds), m.fluid_source(sds), lambda intf: m.interface_fluid_flux([intf]))]
    if spec["model"] == "mass_energy":
        acc = m.volume_integral(m.total_internal_energy(sds), sds, dim=1)
        out.append(("energy", "energy_balance_equation", acc, m.energy_flux(sds), m.energy_source(sds), lambda intf: m.interface_energy_flux([intf])))
    return out


class _Sink:
    def __init__(self):
        self.violations = []

    def violation(self, obligation, signature, inputs=None, detail="", confirmed=True, solver_output=None):
        self.violations.append((obligation, signature))


def check_case(rep, sw, pp, spec, n_states):
    rng = random.Random(spec["seed"])
    nfr = len(spec["fractures"])
    cfg = f"{spec['model']}/{spec['domain']}/{spec['grid']}/{nfr}frac{spec['fractures']}/{'compressible' if spec['compressible'] else 'incompressible'}"
    try:
        with warnings.catch_warnings():
            warnings.simplefilter("ignore")
            m = build_model(pp, spec)
            sds = m.mdg.subdomains()
            intfs = m.mdg.interfaces()
            balances = _balances(pp, m, spec)
            div = pp.ad.Divergence(sds, dim=1)
    except Exception as e:  # noqa: BLE001
        rep.violation(OB_EVAL, f"{spec['model']}: set-up raises {type(e).__name__}", inputs=spec, detail=f"{cfg}: {e!r}"[:600])
        return 0
    es = m.equation_system
    n_inter = sum(1 for sd in sds if sd.dim <= m.nd - 2)
    topo = f"{nfr} fractures, " + ("interfaces+intersections" if n_inter else ("interfaces, no intersections" if intfs else "no interfaces"))
    if spec["domain"] == "square_nonmatching":
        topo += ", non-matching"
    if spec.get("laws") == "ad":
        topo += ", FouriersLawAd/DarcysLawAd"
    offs = np.cumsum([0] + [sd.num_cells for sd in sds])
    dt = float(m.time_manager.dt)
    done = 0
    for s_i in range(n_states):
        upwind = "consistent" if s_i % 2 == 0 else "stale"
        x, xp = _random_state(m, rng), _random_state(m, rng)
        try:
            with warnings.catch_warnings():
                warnings.simplefilter("ignore")
                if s_i >= 1:
                    # a later solve with another time step (adaptive stepping): the balance must use the CURRENT step size
                    dt = 0.37 * (0.5 if s_i % 2 else 1.7)
                    m.time_manager.dt = dt
                    m.before_nonlinear_loop()
                es.set_variable_values(xp, time_step_index=0)
                es.set_variable_values(x if upwind == "consistent" else _random_state(m, rng), iterate_index=0)
                m.update_derived_quantities()  # upwind directions from the stored iterate
                es.set_variable_values(x, iterate_index=0)
                evald = []
                for bname, eqname, acc, flux, source, iflux in balances:
                    res = -np.asarray(es.assemble(evaluate_jacobian=False, equations=[eqname], state=x), dtype=float)
                    a_now = np.asarray(es.evaluate(acc, state=x), dtype=float)
                    a_prev = np.asarray(es.evaluate(acc.previous_timestep()), dtype=float)
                    f = np.asarray(es.evaluate(flux, state=x), dtype=float)
                    D = es.evaluate(div)
                    src = np.asarray(es.evaluate(source, state=x), dtype=float) * np.ones(offs[-1])
                    q = [float(np.sum(np.asarray(es.evaluate(iflux(intf), state=x), dtype=float))) for intf in intfs]
                    qabs = [float(np.sum(np.abs(np.asarray(es.evaluate(iflux(intf), state=x), dtype=float)))) for intf in intfs]
                    evald.append((bname, res, a_now, a_prev, f, D, src, q, qabs))
        except Exception as e:  # noqa: BLE001
            rep.violation(OB_EVAL, f"{spec['model']}: evaluation raises {type(e).__name__}", inputs=spec, detail=f"{cfg}, {topo}: {e!r}"[:600])
            return done
        for bname, res, a_now, a_prev, f, D, src, q, qabs in evald:
            ncell = offs[-1]
            ok_shape = res.shape == (ncell,) and a_now.shape == (ncell,) and a_prev.shape == (ncell,) and D.shape == (ncell, f.size)
            if not ok_shape or not all(np.all(np.isfinite(v)) for v in (res, a_now, a_prev, f, src)):
                rep.violation(OB_EVAL, f"{spec['model']}: {bname} balance terms have wrong shape or are not finite", inputs=spec, detail=f"{cfg}: {res.shape} {a_now.shape} {D.shape} {f.shape}")
                continue
            divf = D @ f
            mag_flux = float(np.sum(abs(D) @ np.abs(f)))
            mag = mag_flux + float(np.sum(np.abs(src)))
            rate = (a_now - a_prev) / dt
            mag_acc = float(np.sum(np.abs(a_now)) + np.sum(np.abs(a_prev))) / dt
            done += 1
            sig = f"{bname}, {topo}"
            sw.case(key=(cfg, spec["seed"], s_i, bname), nontrivial=bool(mag_flux > 1e-8),
                    sample={"config": cfg, "topology": topo, "balance": bname, "state": s_i, "upwind": upwind, "cells": int(ncell), "interfaces": len(intfs),
                            "sum_residual": float(np.sum(res)), "sum_accumulation_rate": float(np.sum(rate)), "sum_abs_flux_terms": mag})
            # (a)
            lhs, rhs = float(np.sum(res)), float(np.sum(rate))
            tol_a = RTOL * (mag + mag_acc + float(np.sum(np.abs(res))))
            if not abs(lhs - rhs) <= tol_a:
                rep.violation(OB_A.format(b=bname), sig, inputs=spec,
                              detail=f"{cfg}, state {s_i} ({upwind} upwind): sum(residual) = {lhs:.12g}, sum(dA/dt) = {rhs:.12g}, difference {lhs - rhs:.3e}, sum|terms| = {mag + mag_acc:.3g}")
            # (b)
            tot = float(np.sum(divf) - np.sum(src))
            if not abs(tot) <= RTOL * mag:
                rep.violation(OB_B.format(b=bname), sig, inputs=spec,
                              detail=f"{cfg}, state {s_i} ({upwind} upwind): sum(div flux) = {np.sum(divf):.12g}, sum(interface source) = {np.sum(src):.12g}, net {tot:.3e}, sum|terms| = {mag:.3g}")
            # (c)
            S = np.array([np.sum(divf[offs[i]:offs[i + 1]]) - np.sum(src[offs[i]:offs[i + 1]]) for i in range(len(sds))])
            T = np.zeros(len(sds))
            Tabs = np.zeros(len(sds))
            for intf, qi, qa in zip(intfs, q, qabs):
                hi, lo = m.mdg.interface_to_subdomain_pair(intf)
                T[sds.index(hi)] += qi
                T[sds.index(lo)] -= qi
                Tabs[sds.index(hi)] += qa
                Tabs[sds.index(lo)] += qa
            magS = np.array([np.sum((abs(D) @ np.abs(f))[offs[i]:offs[i + 1]]) + np.sum(np.abs(src[offs[i]:offs[i + 1]])) for i in range(len(sds))]) + Tabs
            e_plus, e_minus = np.abs(S - T), np.abs(S + T)
            tol_c = RTOL * magS + 1e-300
            if not (np.all(e_plus <= tol_c) or np.all(e_minus <= tol_c)):
                e = e_plus if np.sum(e_plus) <= np.sum(e_minus) else e_minus
                w = int(np.argmax(e / np.maximum(tol_c, 1e-300)))
                rep.violation(OB_C.format(b=bname), sig + f", dim {sds[w].dim}", inputs=spec,
                              detail=f"{cfg}, state {s_i} ({upwind} upwind): subdomain {w} (dim {sds[w].dim}, {sds[w].num_cells} cells): net outflow {S[w]:.12g}, signed interface fluxes {T[w]:.12g}; "
                                     f"all subdomains S = {np.round(S, 10).tolist()}, T = {np.round(T, 10).tolist()}")
    return done


# ----------------------------------------------------------------------------------------- enumeration


def _specs(rep):
    quick = rep.tier == "quick"
    rng = rep.rng
    specs = []

    def add(model, domain, grid, fr, comp):
        specs.append({"model": model, "domain": domain, "grid": grid, "fractures": list(fr), "compressible": bool(comp), "seed": rng.randrange(2**31)})

    for model in ("flow", "mass_energy"):
        for comp in (False, True):
            for fr in ([], [0], [1], [0, 1]):
                if quick and fr == [1] and not comp:
                    continue
                add(model, "square", "cartesian", fr, comp)
            for fr in ([], [0], [0, 1], [2], [0, 1, 2]):
                if quick and fr in ([], [2]) and not comp:
                    continue
                add(model, "rectangle", "simplex", fr, comp)
            # non-matching mortar grids: integrating and averaging projections differ on both sides
            if comp or not quick:
                add(model, "square_nonmatching", "cartesian", [0, 1], comp)
                add(model, "square_nonmatching", "simplex", [0], comp)
            if quick:
                continue
            add(model, "square_nonmatching", "cartesian", [0], comp)
            add(model, "square_nonmatching", "simplex", [0, 1], comp)
            add(model, "square", "simplex", [0, 1], comp)
            for fr in ([], [0], [0, 1], [0, 1, 2]):
                add(model, "cube", "cartesian", fr, comp)
            for fr in ([0], [0, 1]):
                add(model, "cube", "simplex", fr, comp)
    # the differentiable-TPFA flux laws (FouriersLawAd, DarcysLawAd) on fractured and unfractured domains
    for fr, dom, grid in (([], "square", "cartesian"), ([0], "square", "cartesian"), ([0, 1], "rectangle", "simplex")):
        specs.append({"model": "mass_energy", "domain": dom, "grid": grid, "fractures": list(fr), "compressible": True, "laws": "ad", "seed": rng.randrange(2**31)})
    return specs


def replay(data):
    import porepy as pp

    spec = data.get("inputs")
    if not isinstance(spec, dict) or "model" not in spec:
        return False
    sink = _Sink()

    class _Sw:
        def case(self, *a, **k):
            pass

        def skip(self):
            pass

    import porepy.applications.md_grids.model_geometries  # noqa: F401  (before leaving the working directory)

    with _scratch_cwd():
        check_case(sink, _Sw(), pp, spec, n_states=6)
    return any(ob == data.get("obligation") for ob, _ in sink.violations)


def run(rep):
    import logging

    import porepy as pp

    logging.getLogger("porepy").setLevel(logging.ERROR)
    quick = rep.tier == "quick"
    rep.under_contract("FluidMassBalanceEquations.mass_balance_equation / fluid_flux / fluid_source / interface_fluid_flux", "TotalEnergyBalanceEquations.energy_balance_equation / energy_flux / "
                       "energy_source / interface_energy_flux", "BalanceEquation.balance_equation", "constitutive_laws.AdvectiveFlux / DarcysLaw / FouriersLaw (as composed by the models)",
                       "pp.ad.Divergence, pp.ad.MortarProjections (mortar_to_primary_int / mortar_to_secondary_int), UpwindAd / UpwindCouplingAd, MpfaAd matrices (as used by the models)")
    rep.assume("requires: closed boundaries (every boundary face Neumann for Darcy, fluid, Fourier and enthalpy flux; zero Neumann values; imposed through the models' bc_type_* / "
               "bc_values_* override points) and no external sources (default fluid_source / energy_source = interface fluxes only); no wells",
               "states are arbitrary (seeded) values of pressure, temperature and all interface fluxes at the iterate and the previous time step; upwind matrices from the same or "
               "from a different state")
    rep.trust("the model's own accumulation operators fluid_mass / volume_integral(total_internal_energy) and Operator.previous_timestep() (the statement is about flux cancellation)",
              "mdg.interface_to_subdomain_pair for the per-subdomain accounting")
    n_states = 4 if quick else 8
    with rep.sweep("conservation identities on closed fractured domains",
                   rule="model (flow / mass+energy) x compressibility (0 / 0.3) x domain and fracture set (0-3 fractures incl. intersecting, boundary-touching and tilted ones) x grid "
                        "type; per model seeded arbitrary states (random interface fluxes, different previous time step), alternating consistent / stale upwind directions; one "
                        "evaluation = one (state, balance) pair checked for the global identities (a), (b) and the per-subdomain identity (c); nontrivial = sum of |face flux "
                        "contributions| > 1e-8; distinct by (configuration, seed, state, balance)",
                   bound="cell_size 0.5 (square/cube) or the rectangle geometry's own mesh sizes; quick: 2-D, 4 states per model; thorough: 2-D and 3-D, 8 states per model", exhaustive=False) as sw:
        import porepy.applications.md_grids.model_geometries  # noqa: F401  (before leaving the working directory)

        per = {}
        with _scratch_cwd():
            for spec in _specs(rep):
                k = check_case(rep, sw, pp, spec, n_states)
                key = f"{spec['model']}/{spec['domain']}/{spec['grid']}"
                per[key] = per.get(key, 0) + k
        rep.extra["evaluations_per_model_and_grid"] = per
