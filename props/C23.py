"""C23 -- refinement and extrusion preserve measure and nesting.

Tier B (run-time contract sweeps on the real functions).  Containment / parent oracles are written here with barycentric
coordinates and point-on-segment tests (dense numpy); nothing is derived from the code under test.

refine_grid_1d(g, ratio)            valid 1-D grid with ratio*num_cells cells; total length equal; every child lies in exactly one
                                    parent cell; every parent has exactly ``ratio`` children whose lengths add up to the parent's; old
                                    nodes are kept; frac_num kept.  (No cell map is returned: nesting is checked geometrically.)
refine_triangle_grid(g) -> (h, parent)   4*num_cells cells; parent map total, single valued, in range; total area equal; every child
                                    (centre and all three nodes) lies inside cell parent[child]; every parent gets exactly 4 children
                                    whose areas add up to the parent's
remesh_1d(g, n)                     1-D grid with n nodes / n-1 equal cells on the segment between the old end points; same total
                                    length; the standard face tags of old faces that coincide with new faces are carried over
structured_refinement(g, g_ref)     (num_fine x num_coarse) 0/1 matrix with exactly one entry per row, in the column of the unique
                                    coarse cell that contains the fine cell (oracle: all nodes of the fine cell inside; requires nestedness)
extrude_grid(g, z) -> (h, cell_map, face_map)   dim+1; measure = measure(g) * |z_last - z_first| (a point counts 1); h is a valid grid
                                    (C19 identities: positive volumes, |n| = area, outward normals, closure, sum sigma x.n = dim V;
                                    boundary tags = one-cell faces); cell_map / face_map are total, disjoint, one entry per layer;
                                    each child cell is the prism over its parent in one layer (same xy centre, volume = V_parent *
                                    layer thickness, all layers occupied once); each mapped face likewise; z of the input is ignored

Enumeration: see the ``rule`` of each sweep (base grids Cart / Tensor / structured and Delaunay simplex, perturbed, rigidly embedded,
permuted node numbering, fracture grids; ratios 1..4; node counts 2..7; layer sequences of length 1..3, positive and negative).

Candidate defects found on the unchanged tree (kept strict, see final report): refine_triangle_grid on grids with more than
one cell (a) picks corner nodes for the wrong cells (children overlap / leave the parent; the area is not preserved, e.g.
StructuredTriangleGrid([2,1]): 2.0 -> 2.5) and (b) returns ``np.tile`` parents although children are stored cell-major.

Detection power (scratch copy of /repo/src, POREPY_SRC, one mutant at a time; baseline = the refine_triangle_grid defects; every
mutant added new VIOLATION lines, exit 1):
  * refine_grid_1d: interpolation weights ``start*(1-theta) + end*theta`` swapped     -> "total measure preserved", "valid 1-D grid", "ratio children" (ratio >= 3)
  * remesh_1d: ``linspace(0, 1, n)`` -> ``linspace(0, 1, n+1)[:-1]``                  -> "total measure preserved", "equi-spaced", "covers the segment ..."
  * remesh_1d: tag transfer restricted to ``standard_face_tags()[:1]``                -> "standard face tags of coinciding faces are carried over" (fracture grid with tips)
  * structured_refinement (1-D): ``np.sort`` of the cell end points dropped            -> "returns a mapping for a nested pair" (embedded / reversed grids)
  * _extrude_2d: ``if negative_extrusion: flip = not flip`` disabled                   -> "extrude_grid: returns ..." (compute_geometry rejects the grid; negative z only)
  * _create_mappings: face-map stride ``g.num_faces`` -> ``g.num_cells``                -> "extrude_grid: returns ..." (porepy's own sanity check) / face-map obligations
  * _create_mappings: cell map ``arange(c, nc_new, nc_old)`` -> cell-major blocks       -> "each child is the prism over its parent cell in one layer"
  * _define_tags: intermediate horizontal faces tagged as boundary                      -> "boundary tags of the result = its one-cell faces" (>= 2 layers)
  * _extrude_1d: ``+ k * nc_old`` dropped from the horizontal face offset               -> "extrude_grid: returns ..." (Grid constructor rejects; >= 2 layers)
Root causes of the two refine_triangle_grid defects confirmed on the scratch copy: sorting ``equal`` by column and ``np.tile`` -> ``np.repeat``
make the whole check pass (exit 0).
"""
from __future__ import annotations

import itertools
import math
import warnings

import numpy as np

META = {
    "level": "exploration",
    "engine": "sweep",
    "technique": "run-time contract sweep (bounded stand-in for deduction): measure, nesting and parent-map postconditions of refine_grid_1d, "
                 "refine_triangle_grid, remesh_1d, structured_refinement and extrude_grid with independent containment oracles",
    "text": "Bounded assurance only: the clauses hold on all enumerated base grids, ratios 1-4, node counts 2-7 and layer sequences of length 1-3 "
            "(both extrusion directions), except for the reported refine_triangle_grid defects. extrude_mdg, mdg_refinement and the gmsh-based "
            "GridSequenceFactory are not covered; structured_refinement is exercised only on nested simplex pairs (its documented domain).",
    "note": "containment by barycentric coordinates / point-on-segment with tolerance 1e-9 of the grid diameter; measures compared to 1e-10 relative; "
            "validity of extruded grids re-uses the C19 identities (props.C19.check_geometry)",
}

RTOL = 1e-10
CTOL = 1e-9


# ----------------------------------------------------------------------------- oracles


def _cell_nodes(g):
    CF = np.asarray(g.cell_faces.toarray()) != 0
    FN = np.asarray(g.face_nodes.toarray()) != 0
    CN = (FN.astype(int) @ CF.astype(int)) > 0
    return [np.where(CN[:, c])[0] for c in range(g.num_cells)]


def _bary(P, X):
    """barycentric coordinates of points X (3 x m) w.r.t. the simplex with vertices P (3 x (k+1)); also the distance of X
    from the simplex's affine hull.  Least squares, so it works for simplices embedded in 3-D."""
    k = P.shape[1] - 1
    T = P[:, :k] - P[:, [k]]
    lam, *_ = np.linalg.lstsq(T, X - P[:, [k]], rcond=None)
    res = np.linalg.norm(T @ lam - (X - P[:, [k]]), axis=0)
    return np.vstack([lam, 1 - lam.sum(axis=0)]), res


def _inside(P, X, tol):
    lam, res = _bary(P, X)
    scale = float(np.max(np.linalg.norm(P - P[:, [0]], axis=0))) or 1.0
    return np.all(lam >= -tol, axis=0) & (res <= tol * scale)


def _containing(gc, cn_c, pts_per_fine, tol):
    """for each fine cell (3 x k array of its nodes) the list of coarse cells containing all of them"""
    out = []
    for X in pts_per_fine:
        out.append([c for c in range(gc.num_cells) if np.all(_inside(gc.nodes[:, cn_c[c]], X, tol))])
    return out


def _valid_1d_incidence(g):
    CF = np.asarray(g.cell_faces.toarray()).astype(int)
    FN = np.asarray(g.face_nodes.toarray()) != 0
    if CF.shape != (g.num_faces, g.num_cells) or FN.shape != (g.num_nodes, g.num_faces):
        return "shape"
    if np.any((CF != 0).sum(axis=0) != 2) or np.any(np.abs(CF).max(axis=0) != 1):
        return "each cell must have exactly two faces with entries +-1"
    if np.any(np.abs(CF.sum(axis=1)) > 1):
        return "the two cells of an internal face must have opposite signs"
    if np.any((CF != 0).sum(axis=1) > 2) or np.any((CF != 0).sum(axis=1) < 1):
        return "each face must have 1 or 2 cells"
    if np.any(FN.sum(axis=0) != 1):
        return "each 1-D face must have exactly one node"
    return None


def _c19_valid(h, measure, g_old, who):
    """validity of a produced 1-D grid: the C19 identities (normals follow the sign convention, closure, sum sigma x.n = V)"""
    from props import C19

    d = g_old.nodes - g_old.nodes[:, [0]]
    far = int(np.argmax(np.linalg.norm(d, axis=0)))
    tang = d[:, far] / np.linalg.norm(d[:, far])
    CF, fnodes = C19.topo(h)
    return [(f"{who}: result is a valid 1-D grid", ob.split(": ", 1)[1] + " -- " + detail) for ob, detail in C19.check_geometry(h, 1, CF, fnodes, measure, True, tang)]


# ----------------------------------------------------------------------------- base grids


def _rot_list(C19, rng, quick):
    rots = [("id", np.eye(3), np.zeros(3)),
            ("x->y", np.array([[0.0, -1, 0], [1, 0, 0], [0, 0, 1]]), np.array([1.0, 2.0, -1.0])),
            ("rand", C19.rodrigues([rng.gauss(0, 1) for _ in range(3)], rng.uniform(0.4, 2.6)), np.array([rng.uniform(-2, 2) for _ in range(3)]))]
    if not quick:
        rots.append(("x->z", np.array([[0.0, 0, -1], [0, 1, 0], [1, 0, 0]]), np.array([0.0, 0.0, 5.0])))
        rots.append(("rand2", C19.rodrigues([rng.gauss(0, 1) for _ in range(3)], rng.uniform(0.4, 2.6)), np.array([10.0, -3.0, 0.5])))
    return rots


def _permuted_1d(pp, x, perm):
    """1-D grid with node (= face) numbering permuted: node i of the tensor grid becomes node perm[i]"""
    import scipy.sparse as sps

    g0 = pp.TensorGrid(np.array(x, dtype=float))
    n = g0.num_nodes
    P = sps.csc_matrix((np.ones(n), (np.array(perm), np.arange(n))), shape=(n, n))
    nodes = np.zeros((3, n))
    nodes[:, perm] = g0.nodes
    cf = sps.csc_matrix(P @ g0.cell_faces)
    return pp.Grid(1, nodes, sps.identity(n, format="csc"), cf, "permuted 1d grid")


def _grids_1d(pp, C19, rng, quick):
    """yield (desc, grid with geometry)"""
    xs = [[0.0, 1.0], [0.0, 1.0, 2.0], [0.0, 1.0, 2.0, 3.0], [0.0, 0.3, 1.0, 1.5], [-1.0, 0.0, 2.5], [0.2, 0.25, 4.0, 4.5, 6.0]]
    if not quick:
        xs += [sorted(rng.uniform(-3, 3) for _ in range(k)) for k in (2, 3, 4, 5, 6, 6)]
    for x in xs:
        for tag, R, t in _rot_list(C19, rng, quick):
            g = pp.TensorGrid(np.array(x))
            g.nodes = R @ g.nodes + t[:, None]
            g.compute_geometry()
            yield {"kind": "tensor", "x": x, "R": R.tolist(), "t": t.tolist(), "emb": tag}, g
    for x, perm in (([0.0, 1.0, 2.5], [2, 0, 1]), ([0.0, 0.5, 1.0, 3.0], [1, 3, 0, 2]), ([0.0, 1.0, 2.0, 3.0, 4.0], [4, 3, 2, 1, 0])):
        for tag, R, t in _rot_list(C19, rng, quick)[:2]:
            g = _permuted_1d(pp, x, perm)
            g.nodes = R @ g.nodes + t[:, None]
            g.compute_geometry()
            yield {"kind": "permuted", "x": x, "perm": perm, "R": R.tolist(), "t": t.tolist(), "emb": tag}, g


def _rebuild_1d(pp, d):
    g = pp.TensorGrid(np.array(d["x"])) if d["kind"] == "tensor" else _permuted_1d(pp, d["x"], d["perm"])
    g.nodes = np.array(d["R"]) @ g.nodes + np.array(d["t"])[:, None]
    g.compute_geometry()
    return g


def _tri_descs(rng, quick):
    out = [{"kind": "tri", "p": [[0.0, 1.0, 0.0], [0.0, 0.0, 1.0]], "tri": [[0], [1], [2]]},
           {"kind": "tri", "p": [[0.0, 2.0, 0.5], [0.0, 0.3, 1.5]], "tri": [[0], [1], [2]]},
           {"kind": "tri", "p": [[0.0, 1.0, 0.0, 1.0], [0.0, 0.0, 1.0, 1.0]], "tri": [[0, 1], [1, 3], [2, 2]]}]
    for nx, ny in itertools.product((1, 2, 3), repeat=2):
        if quick and nx * ny > 4 and (nx, ny) != (3, 3):
            continue
        out.append({"kind": "stri", "n": [nx, ny], "phys": [1.0 * nx, 0.75 * ny]})
    import scipy.spatial

    for k in range(1 if quick else 4):
        pts = np.hstack([np.array([[0, 1, 1, 0], [0, 0, 1, 1.0]]), np.array([[0.15 + 0.7 * rng.random() for _ in range(1 + k)] for _ in range(2)])])
        tri = scipy.spatial.Delaunay(pts.T).simplices.T
        out.append({"kind": "tri", "p": pts.tolist(), "tri": tri.tolist()})
    return out


def _build_tri(pp, d, R=None, t=None):
    if d["kind"] == "stri":
        g = pp.StructuredTriangleGrid(np.array(d["n"]), np.array(d["phys"]))
    else:
        g = pp.TriangleGrid(np.array(d["p"], dtype=float), np.array(d["tri"], dtype=int))
    if R is not None:
        g.nodes = np.array(R) @ g.nodes + np.array(t)[:, None]
    with warnings.catch_warnings():
        warnings.simplefilter("ignore")
        g.compute_geometry()
    return g


# ----------------------------------------------------------------------------- contracts


def check_refine_1d(pp, g, ratio):
    bad = []
    try:
        g.frac_num = 7
        h = pp.refinement.refine_grid_1d(g, ratio)
    except Exception as e:
        return [("refine_grid_1d: returns a grid", f"{type(e).__name__}: {e}")]
    L = float(np.max(np.linalg.norm(g.nodes - g.nodes[:, [0]], axis=0))) or 1.0
    if h.dim != 1 or h.num_cells != ratio * g.num_cells or h.num_nodes != g.num_nodes + (ratio - 1) * g.num_cells:
        return [("refine_grid_1d: ratio * num_cells cells, (ratio-1) new nodes per cell", f"cells {h.num_cells} nodes {h.num_nodes}")]
    msg = _valid_1d_incidence(h)
    if msg:
        return [("refine_grid_1d: result is a valid 1-D grid", msg)]
    if not hasattr(h, "cell_volumes") or np.any(np.asarray(h.cell_volumes) <= 0):
        bad.append(("refine_grid_1d: result is a valid 1-D grid", "geometry missing or non-positive cell length"))
        return bad
    bad += _c19_valid(h, float(g.cell_volumes.sum()), g, "refine_grid_1d")
    if abs(h.cell_volumes.sum() - g.cell_volumes.sum()) > RTOL * g.cell_volumes.sum():
        bad.append(("refine_grid_1d: total measure preserved", f"{g.cell_volumes.sum()!r} -> {h.cell_volumes.sum()!r}"))
    cn_g, cn_h = _cell_nodes(g), _cell_nodes(h)
    cont = _containing(g, cn_g, [h.nodes[:, v] for v in cn_h], CTOL)
    if any(len(c) != 1 for c in cont):
        k = [i for i, c in enumerate(cont) if len(c) != 1][0]
        bad.append(("refine_grid_1d: every child lies inside exactly one parent cell", f"child {k} is inside parents {cont[k]}"))
        return bad
    par = np.array([c[0] for c in cont])
    cnt = np.bincount(par, minlength=g.num_cells)
    vol = np.bincount(par, weights=h.cell_volumes, minlength=g.num_cells)
    if np.any(cnt != ratio) or np.any(np.abs(vol - g.cell_volumes) > RTOL * L):
        bad.append(("refine_grid_1d: each parent has `ratio` children that add up to its length", f"counts {cnt.tolist()} lengths {vol.tolist()} vs {g.cell_volumes.tolist()}"[:400]))
    d = np.linalg.norm(h.nodes[:, :, None] - g.nodes[:, None, :], axis=0)
    if np.any(d.min(axis=0) > CTOL * L):
        bad.append(("refine_grid_1d: the nodes of the old grid are kept", "an old node has no counterpart"))
    if getattr(h, "frac_num", None) != 7:
        bad.append(("refine_grid_1d: frac_num is kept", f"{getattr(h, 'frac_num', None)}"))
    return bad


def check_refine_tri(pp, g):
    bad = []
    try:
        with warnings.catch_warnings():
            warnings.simplefilter("ignore")
            h, parent = pp.refinement.refine_triangle_grid(g)
            h.compute_geometry()
    except Exception as e:
        return [("refine_triangle_grid: returns a grid and a parent map", f"{type(e).__name__}: {e}")]
    parent = np.asarray(parent)
    nc = g.num_cells
    if h.dim != 2 or h.num_cells != 4 * nc:
        return [("refine_triangle_grid: 4 * num_cells cells", f"{h.num_cells}")]
    if parent.shape != (4 * nc,) or not np.all(parent == np.round(parent)) or parent.min() < 0 or parent.max() >= nc:
        return [("refine_triangle_grid: parent map is total, single valued and in range", f"{parent.tolist()}"[:300])]
    parent = parent.astype(int)
    A0, A1 = float(g.cell_volumes.sum()), float(h.cell_volumes.sum())
    if np.any(h.cell_volumes <= 0) or abs(A1 - A0) > RTOL * A0:
        bad.append(("refine_triangle_grid: total measure preserved", f"{A0!r} -> {A1!r}"))
    cn_g, cn_h = _cell_nodes(g), _cell_nodes(h)
    seen_wrong_parent = seen_outside = False
    for i in range(h.num_cells):
        P = g.nodes[:, cn_g[parent[i]]]
        if not (np.all(_inside(P, h.nodes[:, cn_h[i]], CTOL)) and np.all(_inside(P, h.cell_centers[:, [i]], CTOL))):
            geo = [c for c in range(nc) if np.all(_inside(g.nodes[:, cn_g[c]], h.nodes[:, cn_h[i]], CTOL))]
            if geo and not seen_wrong_parent:
                seen_wrong_parent = True
                bad.append(("refine_triangle_grid: every child lies inside the cell given by the parent map",
                            f"[parent map points to another cell] child {i}: parent map says {parent[i]}, contained in {geo}"))
            if not geo and not seen_outside:
                seen_outside = True
                bad.append(("refine_triangle_grid: every child lies inside one coarse cell",
                            f"child {i} with nodes {h.nodes[:, cn_h[i]].T.tolist()} is not contained in any coarse cell"))
    cnt = np.bincount(parent, minlength=nc)
    vol = np.bincount(parent, weights=h.cell_volumes, minlength=nc)
    if np.any(cnt != 4) or np.any(np.abs(vol - g.cell_volumes) > RTOL * A0):
        bad.append(("refine_triangle_grid: each parent has 4 children that add up to its area", f"counts {cnt.tolist()} areas {vol.tolist()} vs {g.cell_volumes.tolist()}"[:400]))
    return bad


def check_remesh(pp, g, n):
    bad = []
    try:
        with warnings.catch_warnings():
            warnings.simplefilter("ignore")
            h = pp.refinement.remesh_1d(g, n)
    except Exception as e:
        return [("remesh_1d: returns a grid", f"{type(e).__name__}: {e}")]
    L = float(g.cell_volumes.sum())
    if h.dim != 1 or h.num_nodes != n or h.num_cells != n - 1:
        return [("remesh_1d: n nodes and n-1 cells", f"nodes {h.num_nodes} cells {h.num_cells}")]
    msg = _valid_1d_incidence(h)
    if msg:
        return [("remesh_1d: result is a valid 1-D grid", msg)]
    if np.any(h.cell_volumes <= 0) or abs(h.cell_volumes.sum() - L) > RTOL * L:
        bad.append(("remesh_1d: total measure preserved", f"{L!r} -> {h.cell_volumes.sum()!r}"))
    else:
        bad += _c19_valid(h, L, g, "remesh_1d")
    if np.any(np.abs(h.cell_volumes - L / (n - 1)) > RTOL * L):
        bad.append(("remesh_1d: the new grid is equi-spaced", f"{h.cell_volumes.tolist()}"[:300]))
    # end points of the old grid = the two nodes that belong to a single cell
    deg = np.zeros(g.num_nodes, dtype=int)
    for v in _cell_nodes(g):
        deg[v] += 1
    ends = g.nodes[:, deg == 1]
    CFh = np.asarray(h.cell_faces.toarray()) != 0
    FNh = np.asarray(h.face_nodes.toarray()) != 0
    endf = np.where(CFh.sum(axis=1) == 1)[0]
    hend = h.nodes[:, [int(np.where(FNh[:, f])[0][0]) for f in endf]]
    d = np.linalg.norm(ends[:, :, None] - hend[:, None, :], axis=0)
    if ends.shape[1] != 2 or hend.shape[1] != 2 or np.any(d.min(axis=1) > CTOL * L) or np.any(d.min(axis=0) > CTOL * L):
        bad.append(("remesh_1d: covers the segment between the old end points", f"old ends {ends.T.tolist()} new ends {hend.T.tolist()}"[:400]))
    elif not np.all(_inside(ends, h.nodes, CTOL)):
        bad.append(("remesh_1d: covers the segment between the old end points", "a new node is off the old segment"))
    # tags
    for fo in range(g.num_faces):
        dist = np.linalg.norm(h.face_centers - g.face_centers[:, [fo]], axis=0)
        hit = np.where(dist < 1e-6)[0]
        for tg in ("fracture_faces", "tip_faces", "domain_boundary_faces"):
            if hit.size == 1 and bool(h.tags[tg][hit[0]]) != bool(g.tags[tg][fo]):
                bad.append(("remesh_1d: standard face tags of coinciding faces are carried over", f"{tg}: old face {fo} -> new face {hit[0]}"))
    return bad


def check_structured(pp, gc, gf):
    """-> 'skip' or list of violations"""
    cn_c, cn_f = _cell_nodes(gc), _cell_nodes(gf)
    cont = _containing(gc, cn_c, [gf.nodes[:, v] for v in cn_f], CTOL)
    if any(len(c) != 1 for c in cont) or not gc.num_cells < gf.num_cells:
        return "skip"  # requires: nested refinement, strictly more fine cells
    # the fine centre must not sit on a coarse cell boundary (the function decides by the centre)
    exp = np.array([c[0] for c in cont])
    try:
        with warnings.catch_warnings():
            warnings.simplefilter("ignore")
            M = pp.refinement.structured_refinement(gc, gf)
    except Exception as e:
        return [("structured_refinement: returns a mapping for a nested pair", f"{type(e).__name__}: {e}")]
    Md = np.asarray(M.toarray())
    if Md.shape != (gf.num_cells, gc.num_cells):
        return [("structured_refinement: shape (num_fine, num_coarse)", f"{Md.shape}")]
    bad = []
    if not np.all((Md == 0) | (Md == 1)) or np.any(Md.sum(axis=1) != 1):
        bad.append(("structured_refinement: every fine cell maps to exactly one coarse cell", f"row sums {Md.sum(axis=1).tolist()}"[:300]))
    elif not np.array_equal(np.argmax(Md, axis=1), exp):
        k = int(np.where(np.argmax(Md, axis=1) != exp)[0][0])
        bad.append(("structured_refinement: fine cell maps to the coarse cell that contains it", f"fine {k}: got {int(np.argmax(Md[k]))} expected {int(exp[k])}"))
    return bad


def check_extrude(pp, C19, g, z, measure, frame_t, fractured):
    """g: 0/1/2-D grid in the xy-plane; frame_t: unit tangent of a 1-D input (for the plane normal of the result)"""
    bad = []
    z = np.asarray(z, dtype=float)
    nl = z.size - 1
    try:
        with warnings.catch_warnings():
            warnings.simplefilter("ignore")
            h, cmap, fmap = pp.grid_extrusion.extrude_grid(g, z)
    except Exception as e:
        return [("extrude_grid: returns grid, cell map, face map", f"{type(e).__name__}: {e}")]
    H = abs(z[-1] - z[0])
    thick = np.abs(np.diff(z))
    zlo, zhi = np.minimum(z[:-1], z[1:]), np.maximum(z[:-1], z[1:])
    if h.dim != g.dim + 1 or h.num_cells != g.num_cells * nl:
        return [("extrude_grid: dimension + 1 and num_cells * layers cells", f"dim {h.dim} cells {h.num_cells}")]
    if abs(float(h.cell_volumes.sum()) - measure * H) > RTOL * measure * H:
        bad.append(("extrude_grid: total measure = measure(g) * height", f"{float(h.cell_volumes.sum())!r} vs {measure * H!r}"))
    # valid grid (C19 identities)
    CF, fnodes = C19.topo(h)
    frame = None
    if h.dim == 1:
        frame = np.array([0.0, 0.0, 1.0])
    elif h.dim == 2:
        frame = np.cross(frame_t, np.array([0.0, 0.0, 1.0]))
        frame = frame / np.linalg.norm(frame)
    for ob, detail in C19.check_geometry(h, h.dim, CF, fnodes, measure * H, True, frame):
        bad.append(("extrude_grid: result is a valid grid (" + ob.split(": ", 1)[1] + ")", detail))
    one = np.where((CF != 0).sum(axis=1) == 1)[0]
    if not np.array_equal(np.sort(h.get_all_boundary_faces()), one):
        bad.append(("extrude_grid: boundary tags of the result = its one-cell faces", f"{np.sort(h.get_all_boundary_faces()).tolist()} vs {one.tolist()}"[:400]))
    if not set(np.round(h.nodes[2], 12).tolist()) <= set(np.round(z, 12).tolist()):
        bad.append(("extrude_grid: node z-coordinates are the given layers (input z ignored)", f"{sorted(set(h.nodes[2].tolist()))}"[:200]))
    # cell map
    L = float(np.max(np.linalg.norm(h.nodes - h.nodes[:, [0]], axis=0))) or 1.0
    pc = np.asarray(g.cell_centers, dtype=float)
    pv = np.asarray(g.cell_volumes, dtype=float)
    try:
        rows = [np.asarray(r).astype(int).ravel() for r in cmap]
    except Exception:
        rows = None
    if rows is None or len(rows) != g.num_cells or any(r.size != nl for r in rows) or \
            sorted(np.concatenate(rows).tolist()) != list(range(h.num_cells)):
        bad.append(("extrude_grid: cell map assigns each new cell to exactly one parent, one per layer", f"{[r.tolist() for r in rows] if rows is not None else cmap}"[:300]))
    else:
        for c, r in enumerate(rows):
            cz = h.cell_centers[2, r]
            lay = [int(np.where((zlo < v) & (v < zhi))[0][0]) if np.any((zlo < v) & (v < zhi)) else -1 for v in cz]
            ok = sorted(lay) == list(range(nl))
            ok = ok and np.all(np.linalg.norm(h.cell_centers[:2, r] - pc[:2, [c]], axis=0) <= CTOL * L)
            ok = ok and np.all(np.abs(h.cell_volumes[r] - pv[c] * thick[lay]) <= RTOL * max(measure * H, 1e-300))
            if ok and g.dim > 0:
                cn_g, cn_h = _cell_nodes(g), _cell_nodes(h)
                pxy = g.nodes[:2, cn_g[c]]
                for k in r:
                    hx = h.nodes[:2, cn_h[k]]
                    dmin = np.min(np.linalg.norm(hx[:, :, None] - pxy[:, None, :], axis=0), axis=1)
                    ok = ok and np.all(dmin <= CTOL * L)
            if not ok:
                bad.append(("extrude_grid: each child is the prism over its parent cell in one layer", f"parent {c}: children {r.tolist()} layers {lay}"))
                break
    # face map
    if g.dim > 0:
        try:
            frows = [np.asarray(r).astype(int).ravel() for r in fmap]
        except Exception:
            frows = None
        if frows is None or len(frows) != g.num_faces or any(r.size != nl for r in frows) or \
                len(set(np.concatenate(frows).tolist())) != g.num_faces * nl or np.concatenate(frows).max() >= h.num_faces:
            bad.append(("extrude_grid: face map lists one new face per layer for every old face, disjoint", f"{[r.tolist() for r in frows][:6] if frows is not None else fmap}"[:300]))
        else:
            pf, pa = np.asarray(g.face_centers, float), np.asarray(g.face_areas, float)
            for f, r in enumerate(frows):
                fz = h.face_centers[2, r]
                lay = [int(np.where((zlo < v) & (v < zhi))[0][0]) if np.any((zlo < v) & (v < zhi)) else -1 for v in fz]
                ok = sorted(lay) == list(range(nl)) and np.all(np.linalg.norm(h.face_centers[:2, r] - pf[:2, [f]], axis=0) <= CTOL * L) \
                    and np.all(np.abs(h.face_areas[r] - pa[f] * thick[lay]) <= RTOL * max(L ** g.dim, 1e-300))
                if not ok:
                    bad.append(("extrude_grid: each mapped face is the extrusion of its old face in one layer", f"old face {f}: new {r.tolist()} layers {lay}"))
                    break
    return bad


# ----------------------------------------------------------------------------- sweeps


def _sweep_1d(rep, pp, C19, quick):
    with rep.sweep(
        "refine_grid_1d / remesh_1d",
        rule="1-D grids (uniform, non-uniform, permuted node numbering) x rigid embeddings (identity, axis swaps, seeded rotations) x "
             "ratio 1..4 for refine_grid_1d and num_nodes in {2,3,4,5,7} for remesh_1d, plus remesh_1d on immersed 1-D fracture grids (tip tags); "
             "non-trivial = ratio > 1 / more than one new cell; distinct by (function, grid, embedding, parameter)",
        bound="<= 5 coarse cells; ratios <= 4; <= 7 new nodes",
        exhaustive=False,
    ) as sw:
        for desc, g in _grids_1d(pp, C19, rep.rng, quick):
            key0 = (desc["kind"], tuple(desc["x"]), tuple(desc.get("perm", ())), desc["emb"])
            for ratio in (1, 2, 3, 4):
                bad = check_refine_1d(pp, g, ratio)
                sw.case(("refine1d",) + key0 + (ratio,), nontrivial=ratio > 1, sample={"function": "refine_grid_1d", "x": desc["x"], "emb": desc["emb"], "ratio": ratio})
                for ob, detail in bad:
                    rep.violation(ob, f"{desc['kind']} {'embedded' if desc['emb'] != 'id' else 'on x-axis'} ratio={ratio}",
                                  inputs={"fn": "refine_grid_1d", "grid": desc, "ratio": ratio}, detail=detail, confirmed=True)
            for n in (2, 3, 4, 5, 7):
                bad = check_remesh(pp, g, n)
                sw.case(("remesh",) + key0 + (n,), nontrivial=n > 2, sample={"function": "remesh_1d", "x": desc["x"], "emb": desc["emb"], "num_nodes": n})
                for ob, detail in bad:
                    rep.violation(ob, f"{desc['kind']} {'embedded' if desc['emb'] != 'id' else 'on x-axis'}",
                                  inputs={"fn": "remesh_1d", "grid": desc, "n": n}, detail=detail, confirmed=True)
        # 1-D fracture grids with tip tags
        for fr, nx in (([[[1.0, 3.0], [1.0, 1.0]]], [4, 2]), ([[[1.0, 1.0], [1.0, 2.0]]], [2, 3])):
            with warnings.catch_warnings():
                warnings.simplefilter("ignore")
                mdg = pp.meshing.cart_grid([np.array(f) for f in fr], np.array(nx))
            g = mdg.subdomains(dim=1)[0]
            for n in (2, 3, 5):
                bad = check_remesh(pp, g, n)
                sw.case(("remesh", "fracture", repr(fr), n), nontrivial=True, sample={"function": "remesh_1d", "fracture": fr, "num_nodes": n})
                for ob, detail in bad:
                    rep.violation(ob, "immersed fracture grid", inputs={"fn": "remesh_1d", "fracture": fr, "nx": nx, "n": n}, detail=detail, confirmed=True)


def _sweep_tri(rep, pp, C19, quick):
    with rep.sweep(
        "refine_triangle_grid",
        rule="triangle grids (single triangles, the two-cell grid of porepy's tests, StructuredTriangleGrid 1..3 x 1..3, Delaunay on the unit "
             "square) x rigid embeddings in 3-D; non-trivial = more than one cell; distinct by (grid, embedding)",
        bound="<= 18 coarse cells",
        exhaustive=False,
    ) as sw:
        for d in _tri_descs(rep.rng, quick):
            for tag, R, t in _rot_list(C19, rep.rng, quick):
                g = _build_tri(pp, d, R, t)
                bad = check_refine_tri(pp, g)
                sw.case((repr(d)[:300], tag), nontrivial=g.num_cells > 1, sample={"grid": d if len(repr(d)) < 200 else d["kind"], "emb": tag})
                for ob, detail in bad:
                    rep.violation(ob, "single cell" if g.num_cells == 1 else "more than one cell",
                                  inputs={"fn": "refine_triangle_grid", "grid": d, "R": R.tolist(), "t": t.tolist()}, detail=detail, confirmed=True)


def _subdivide_tensor(x, pattern):
    out = [x[0]]
    for i, (a, b) in enumerate(zip(x, x[1:])):
        r = pattern[i % len(pattern)]
        out += [a + (b - a) * k / r for k in range(1, r + 1)]
    return out


def _nested_pairs(pp, C19, rng, quick):
    """yield (desc, coarse, fine) with geometry computed; nestedness is (re)checked by the oracle"""
    rots = _rot_list(C19, rng, quick)
    # 1-D: own subdivision of a tensor grid
    for x in ([0.0, 1.0], [0.0, 1.0, 2.0], [0.0, 0.3, 1.0, 1.5]):
        for pat in ([2], [3], [1, 4], [2, 1, 3]):
            xf = _subdivide_tensor(x, pat)
            if len(xf) == len(x):
                continue
            for tag, R, t in rots:
                gc, gf = pp.TensorGrid(np.array(x)), pp.TensorGrid(np.array(xf))
                for g in (gc, gf):
                    g.nodes = R @ g.nodes + t[:, None]
                    g.compute_geometry()
                yield {"dim": 1, "x": x, "pattern": pat, "emb": tag}, gc, gf
    # 2-D: structured triangles n vs k*n on the same domain; own midpoint subdivision of arbitrary triangle grids
    for n in ([1, 1], [2, 1], [2, 2], [1, 3]):
        for k in (2, 3):
            if quick and k == 3 and n != [1, 1]:
                continue
            for tag, R, t in rots:
                gc = pp.StructuredTriangleGrid(np.array(n), np.array([1.0, 1.5]))
                gf = pp.StructuredTriangleGrid(np.array(n) * k, np.array([1.0, 1.5]))
                for g in (gc, gf):
                    g.nodes = R @ g.nodes + t[:, None]
                    with warnings.catch_warnings():
                        warnings.simplefilter("ignore")
                        g.compute_geometry()
                yield {"dim": 2, "kind": "stri", "n": n, "k": k, "emb": tag}, gc, gf
    for d in _tri_descs(rng, True)[:5]:
        g0 = _build_tri(pp, d)
        cn = _cell_nodes(g0)
        pts = [g0.nodes[:2, i] for i in range(g0.num_nodes)]
        mid = {}
        tris = []
        for v in cn:
            a, b, c = (int(q) for q in v)
            m = []
            for u, w in ((a, b), (b, c), (c, a)):
                key = (min(u, w), max(u, w))
                if key not in mid:
                    mid[key] = len(pts)
                    pts.append(0.5 * (g0.nodes[:2, u] + g0.nodes[:2, w]))
                m.append(mid[key])
            tris += [[a, m[0], m[2]], [b, m[1], m[0]], [c, m[2], m[1]], [m[0], m[1], m[2]]]
        P = np.array(pts).T
        for tag, R, t in rots[:2]:
            gc = _build_tri(pp, d, R, t)
            gf = pp.TriangleGrid(P, np.array(tris).T)
            gf.nodes = R @ gf.nodes + t[:, None]
            with warnings.catch_warnings():
                warnings.simplefilter("ignore")
                gf.compute_geometry()
            yield {"dim": 2, "kind": "midpoint", "grid": d if len(repr(d)) < 200 else d["kind"], "emb": tag}, gc, gf
    # 3-D: structured tetrahedra n vs 2n (kept only if nested), own centroid subdivision
    for n in ([1, 1, 1], [2, 1, 1]):
        gc = pp.StructuredTetrahedralGrid(np.array(n), np.array([1.0, 1.0, 2.0]))
        gf = pp.StructuredTetrahedralGrid(np.array(n) * 2, np.array([1.0, 1.0, 2.0]))
        gc.compute_geometry()
        gf.compute_geometry()
        yield {"dim": 3, "kind": "stet", "n": n, "k": 2}, gc, gf
    for n in ([1, 1, 1], [2, 1, 1], [2, 2, 1]):
        if quick and n == [2, 2, 1]:
            continue
        for tag, R, t in rots[:2]:
            gc = pp.StructuredTetrahedralGrid(np.array(n))
            cn = _cell_nodes(gc)
            pts = [gc.nodes[:, i] for i in range(gc.num_nodes)]
            tets = []
            for v in cn:
                ctr = len(pts)
                pts.append(gc.nodes[:, v].mean(axis=1))
                for skip in range(4):
                    tets.append([int(v[j]) for j in range(4) if j != skip] + [ctr])
            gf = pp.TetrahedralGrid(np.array(pts).T.copy(), np.array(tets).T.copy())
            for g in (gc, gf):
                g.nodes = R @ g.nodes + t[:, None]
                g.compute_geometry()
            yield {"dim": 3, "kind": "centroid", "n": n, "emb": tag}, gc, gf


def _sweep_structured(rep, pp, C19, quick):
    with rep.sweep(
        "structured_refinement",
        rule="nested (coarse, fine) pairs: 1-D tensor grids with an independently built subdivision (patterns 2 | 3 | 1,4 | 2,1,3 per cell); 2-D "
             "StructuredTriangleGrid n vs k*n (k=2,3) and an independent midpoint subdivision of arbitrary triangle grids; 3-D "
             "StructuredTetrahedralGrid n vs 2n (skipped unless nested) and an independent centroid subdivision; 1-D/2-D pairs also rigidly "
             "embedded in 3-D; requires nestedness (checked by the oracle); distinct by (pair, embedding)",
        bound="<= 8 coarse cells (1-D/2-D), <= 24 coarse tetrahedra",
        exhaustive=False,
    ) as sw:
        for desc, gc, gf in _nested_pairs(pp, C19, rep.rng, quick):
            res = check_structured(pp, gc, gf)
            if res == "skip":
                sw.skip()
                continue
            sw.case(repr(desc)[:300], nontrivial=gc.num_cells > 1, sample=desc)
            for ob, detail in res:
                rep.violation(ob, f"{desc['dim']}-d {desc.get('kind', 'tensor')}" + (" embedded" if desc.get("emb", "id") != "id" else ""),
                              inputs={"fn": "structured_refinement", "pair": desc}, detail=detail, confirmed=True)


ZS = ([0.0, 1.0], [0.0, 0.5, 2.0], [0.0, 1.0, 2.0, 3.5], [1.0, 2.0], [0.0, -1.0], [0.0, -0.5, -2.0], [-1.0, -3.0, -3.5])


def _extrude_inputs(pp, C19, rng, quick):
    """yield (desc, grid in the xy-plane with geometry, measure, tangent, fractured)"""
    for pt in ([0.0, 0.0, 0.0], [1.5, -2.0, 0.0]):
        g = pp.PointGrid(np.array(pt))
        g.compute_geometry()
        yield {"dim": 0, "pt": pt}, g, 1.0, None, False
    angs = (0.0, 0.7, math.pi / 2) if quick else (0.0, 0.7, math.pi / 2, 2.5, -1.1)
    for x in ([0.0, 1.0], [0.0, 0.3, 1.0, 1.5], [-1.0, 0.0, 2.5]):
        for a in angs:
            for zoff in (0.0, 0.7):
                if zoff and a != 0.7:
                    continue
                R = C19.rodrigues([0, 0, 1], a) if a else np.eye(3)
                g = pp.TensorGrid(np.array(x))
                g.nodes = R @ g.nodes + np.array([[0.5], [-1.0], [zoff]])
                g.compute_geometry()
                yield {"dim": 1, "x": x, "angle": a, "zoff": zoff}, g, x[-1] - x[0], R[:, 0], False
    # a valid 1-d grid whose node numbering (and hence cell-face orientation) does not follow the line: nodes at x = 1, 0, 2, 3, cells
    # (1,0), (0->... ) given by an explicit signed incidence; and its refinement
    import scipy.sparse as _sps

    xs = np.array([[1.0, 0.0, 2.0, 3.0], [0.0, 0.0, 0.0, 0.0], [0.0, 0.0, 0.0, 0.0]])
    cf = _sps.csc_matrix(np.array([[-1, 1, 0], [0, -1, 0], [1, 0, -1], [0, 0, 1]]))
    gp = pp.Grid(1, xs.copy(), _sps.identity(4, format="csc"), cf, "permuted 1d")
    gp.compute_geometry()
    yield {"dim": 1, "x": "permuted nodes [1,0,2,3]", "angle": 0.0, "zoff": 0.0}, gp, 3.0, np.array([1.0, 0.0, 0.0]), False
    try:
        gr = pp.refinement.refine_grid_1d(gp, 2)
        gr.compute_geometry()
        yield {"dim": 1, "x": "refinement of permuted nodes [1,0,2,3]", "angle": 0.0, "zoff": 0.0}, gr, 3.0, np.array([1.0, 0.0, 0.0]), False
    except Exception:  # noqa: BLE001  (refine_grid_1d has its own clauses)
        pass
    extra = [] if quick else [("cart", {"n": [3, 2]}, 6.0), ("stri", {"n": [3, 3], "phys": [3.0, 3.0]}, 9.0), ("stri", {"n": [1, 3], "phys": [0.5, 3.0]}, 1.5),
                             ("tensor", {"x": [[0.0, 0.1, 0.2, 2.0], [-1.0, 0.0, 0.5, 4.0]]}, 10.0)]
    fams = extra + [("cart", {"n": [1, 1]}, 1.0), ("cart", {"n": [2, 1]}, 2.0), ("cart", {"n": [2, 3], "phys": [1.0, 0.75]}, 0.75), ("cart", {"n": [3, 3]}, 9.0),
            ("stri", {"n": [1, 1], "phys": [1.0, 1.0]}, 1.0), ("stri", {"n": [2, 2], "phys": [2.0, 1.0]}, 2.0), ("tensor", {"x": [[0.0, 0.5, 2.0], [0.0, 1.0, 1.5]]}, 3.0)]
    for family, args, meas in fams:
        base = np.array(C19.build(pp, family, args).nodes, dtype=float)
        variants = [("plain", base)]
        inter = C19._interior_nodes(base, 2, base.min(axis=1), base.max(axis=1))
        if inter.size:
            dd = np.linalg.norm(base[:, :, None] - base[:, None, :], axis=0)
            hmin = float(np.min(dd[dd > 0]))
            for sd in range(1 if quick else 5):
                pert = base.copy()
                for i in inter:
                    pert[:2, i] += (0.3 if sd % 2 == 0 else 0.45) * hmin * np.array([rng.uniform(-1, 1), rng.uniform(-1, 1)]) / math.sqrt(2)
                variants.append((f"perturb{sd}", pert))
        for op, nodes in variants:
            for a in angs[:2] if quick else angs[:3]:
                for zoff in (0.0, 0.4):
                    if zoff and not (a == 0.7 and op == "plain"):  # one lifted variant per grid
                        continue
                    R = C19.rodrigues([0, 0, 1], a) if a else np.eye(3)
                    g = C19.build(pp, family, args)
                    g.nodes = R @ nodes + np.array([[0.25], [1.0], [zoff]])
                    with warnings.catch_warnings():
                        warnings.simplefilter("ignore")
                        g.compute_geometry()
                    yield {"dim": 2, "family": family, "args": args, "op": op, "angle": a, "zoff": zoff, "nodes": g.nodes.tolist()}, g, meas, None, False
                    if op == "plain" and zoff == 0.0 and a == (angs[:2] if quick else angs[:3])[-1]:
                        # the same grid at other length scales (millimetre and kilometre domains); the layer sequence is scaled alike
                        for s in (1.0e-4, 1.0e3):
                            gs = C19.build(pp, family, args)
                            gs.nodes = s * (R @ nodes + np.array([[0.25], [1.0], [0.0]]))
                            with warnings.catch_warnings():
                                warnings.simplefilter("ignore")
                                gs.compute_geometry()
                            yield {"dim": 2, "family": family, "args": args, "op": op, "angle": a, "zoff": 0.0, "scale": s, "nodes": gs.nodes.tolist()}, gs, meas * s * s, None, False
    # fracture-split 2-D grid and its 1-D fracture grid
    with warnings.catch_warnings():
        warnings.simplefilter("ignore")
        mdg = pp.meshing.cart_grid([np.array([[0.0, 2.0], [1.0, 1.0]])], np.array([2, 2]))
    yield {"dim": 2, "family": "fractured through-h [2,2]"}, mdg.subdomains(dim=2)[0], 4.0, None, True
    yield {"dim": 1, "family": "fracture grid of through-h [2,2]"}, mdg.subdomains(dim=1)[0], 2.0, np.array([1.0, 0.0, 0.0]), True


def _sweep_extrude(rep, pp, C19, quick):
    with rep.sweep(
        "extrude_grid",
        rule="0-D points, 1-D tensor grids rotated about z and translated in the xy-plane (one variant lifted to z=0.7: input z must be ignored), "
             "2-D Cart / Tensor / StructuredTriangle grids plain and with seeded convex perturbation, rotated about z, a fracture-split 2-D grid "
             "and its fracture grid x layer sequences z of length 2..4 (1..3 layers), increasing from 0, from 1, and decreasing (negative); "
             "non-trivial = more than one layer or negative direction; distinct by (grid, z)",
        bound="<= 9 cells per base grid; <= 3 layers",
        exhaustive=False,
    ) as sw:
        for desc, g, meas, tang, fractured in _extrude_inputs(pp, C19, rep.rng, quick):
            for z in ZS:
                z = [zz * desc.get("scale", 1.0) for zz in z]
                bad = check_extrude(pp, C19, g, z, meas, tang, fractured)
                sw.case((repr({k: v for k, v in desc.items() if k != "nodes"})[:300], tuple(z)), nontrivial=len(z) > 2 or z[-1] < 0,
                        sample={"grid": {k: v for k, v in desc.items() if k != "nodes"}, "z": z})
                for ob, detail in bad:
                    rep.violation(ob, f"{desc['dim']}-d " + ("fractured " if fractured else "") + ("negative z" if z[-1] < 0 else "positive z"),
                                  inputs={"fn": "extrude_grid", "grid": desc, "z": z}, detail=detail, confirmed=True)


def run(rep):
    import porepy as pp
    from props import C19

    rep.under_contract("refinement.refine_grid_1d", "refinement.refine_triangle_grid", "refinement.remesh_1d", "refinement.structured_refinement",
                       "grid_extrusion.extrude_grid", "grid_extrusion._extrude_0d/_1d/_2d", "grid_extrusion._define_tags", "grid_extrusion._create_mappings")
    rep.assume("requires (remesh_1d): the old grid has geometry and exactly two end points (no internal boundaries)",
               "requires (structured_refinement): simplex cells, the fine grid is nested in the coarse one with strictly more cells (nestedness is "
               "established by the oracle, non-nested generated pairs are skipped)",
               "requires (extrude_grid): grid in the xy-plane with convex cells, z monotone and of one sign")
    quick = rep.tier == "quick"
    _sweep_1d(rep, pp, C19, quick)
    _sweep_tri(rep, pp, C19, quick)
    _sweep_structured(rep, pp, C19, quick)
    _sweep_extrude(rep, pp, C19, quick)


def replay(data):
    import porepy as pp
    from props import C19

    inp = data["inputs"]
    fn = inp["fn"]
    if fn == "refine_grid_1d":
        bad = check_refine_1d(pp, _rebuild_1d(pp, inp["grid"]), inp["ratio"])
    elif fn == "remesh_1d":
        if "fracture" in inp:
            with warnings.catch_warnings():
                warnings.simplefilter("ignore")
                mdg = pp.meshing.cart_grid([np.array(f) for f in inp["fracture"]], np.array(inp["nx"]))
            g = mdg.subdomains(dim=1)[0]
        else:
            g = _rebuild_1d(pp, inp["grid"])
        bad = check_remesh(pp, g, inp["n"])
    elif fn == "refine_triangle_grid":
        bad = check_refine_tri(pp, _build_tri(pp, inp["grid"], inp["R"], inp["t"]))
    elif fn == "extrude_grid":
        d = inp["grid"]
        if d["dim"] == 0:
            g = pp.PointGrid(np.array(d["pt"]))
            g.compute_geometry()
            bad = check_extrude(pp, C19, g, inp["z"], 1.0, None, False)
        elif d["dim"] == 1 and "x" in d:
            R = C19.rodrigues([0, 0, 1], d["angle"]) if d["angle"] else np.eye(3)
            g = pp.TensorGrid(np.array(d["x"]))
            g.nodes = R @ g.nodes + np.array([[0.5], [-1.0], [d["zoff"]]])
            g.compute_geometry()
            bad = check_extrude(pp, C19, g, inp["z"], d["x"][-1] - d["x"][0], R[:, 0], False)
        elif "nodes" in d:
            g = C19.build(pp, d["family"], d["args"])
            g.nodes = np.array(d["nodes"])
            g.compute_geometry()
            g0 = C19.build(pp, d["family"], d["args"])
            g0.compute_geometry()
            bad = check_extrude(pp, C19, g, inp["z"], float(g.cell_volumes.sum()), None, False)
        else:
            return False
    else:
        import random

        for desc, gc, gf in _nested_pairs(pp, C19, random.Random(0), False):
            if {k: v for k, v in desc.items() if k != "emb"} == {k: v for k, v in inp["pair"].items() if k != "emb"}:
                res = check_structured(pp, gc, gf)
                if res != "skip" and any(o == data["obligation"] for o, _ in res):
                    return True
        return False
    print("replay:", bad)
    return any(o == data["obligation"] for o, _ in bad)
