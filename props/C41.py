"""C41 -- interpolation tables are exact for multilinear functions (tier B, run-time contract sweep).

Classes under contract (real porepy): porepy.utils.interpolation_tables.InterpolationTable (interpolate, gradient) and
AdaptiveInterpolationTable (interpolate, gradient; values filled on demand through its function, and through
quadrature_points_from_coordinates + assign_values).

Oracle (from the statement, exact rational arithmetic): a multilinear function is given by a coefficient tensor
c_S (S a subset of the parameter axes, rational entries), f(x) = sum_S c_S prod_{i in S} x_i.  The table is built from the
float64 rounding of the exact node values; every query point x (float64) is evaluated exactly with fractions.Fraction(x_i).
  ensures  interpolate(x) = f(x)                      to 1e-12 * (1 + max |node value|)
  ensures  gradient(x, axis) = c_{axis}  (linear f)   to 1e-10 * (|c_axis| + max|node value| / h_axis)  (difference quotient)
  ensures  adaptive.interpolate(x) = standard.interpolate(x) (same tolerance), adaptive gradient = exact gradient
Query points: the product lattice low + t (high - low), t in {0, half a cell, first grid line, 1/3, 5/7, 1} per axis: cell
interiors, cell boundaries, the lower faces and the upper faces / corner of the box; as one vectorised call, as single 1-d
points, and (adaptive table) in several batches so that the on-demand storage is extended in between.

Finding on the unchanged tree (kept strict): InterpolationTable.gradient at a point on an upper face of the box uses the node
index base+1 on that axis, which is outside the grid: IndexError when the linear index leaves the value array (last axis, or
the upper corner), otherwise the index wraps to the next grid row and a wrong derivative is returned.  interpolate() handles
the same situation (weight 0 / index filter); gradient() does not.  Signature "query on an upper face of the box".

Detection power (scratch copy, POREPY_SRC, quick tier; exit 1, named obligation, signature other than the upper-face one):
  M1 InterpolationTable._right_left_weights: `/ self._h[i]` -> `/ self._h[0]` -> "InterpolationTable.interpolate: exact ..." (non-cubic cells).
  M2 InterpolationTable.gradient: `2 * incr[axis] - 1` -> `1 - 2 * incr[axis]` (sign) -> "InterpolationTable.gradient: exact for linear f".
  M3 InterpolationTable._set_sizes: `np.hstack((1, self._npt))` -> `np.hstack((1, self._npt[::-1]))` (strides from the reversed resolution)
     -> "InterpolationTable.interpolate: exact for multilinear f" / "...: returns normally" for unequal npt.
  M4 AdaptiveInterpolationTable._find_base_vertex: `(x_i - base_i) // h_i` -> `(x_i) // h_i` (base point ignored)
     -> "AdaptiveInterpolationTable.interpolate: returns normally" (its own weight assertion fires) on the skew box.
"""
from __future__ import annotations

META = {
    "level": "exploration",
    "engine": "sweep",
    "technique": "run-time contract sweep (bounded stand-in for deduction): tables built for multilinear functions with rational coefficient "
                 "tensors, queried on a rational lattice (cell interiors, cell boundaries, lower and upper faces), compared with exact "
                 "rational evaluation",
    "text": "Bounded assurance: 1-3 parameters, 2-4 points per axis (all combinations), two boxes, seeded rational coefficient tensors plus the "
            "constant / pure linear / pure top-degree ones; interpolate and gradient of both table classes and their agreement are "
            "evaluated natively at every lattice point. The Ps attempt (symbolic base index, bilinear NRA) was not made. Functions with "
            "range dimension > 1 are not covered.",
    "note": "trusted: fractions.Fraction arithmetic, numpy; tolerances 1e-12 (values) and 1e-10 scaled by 1/h (difference quotients)",
}

import itertools
import warnings
from fractions import Fraction as Fr

import numpy as np

SIG_UPPER = "query on an upper face of the box"


def _subsets(n):
    return [s for k in range(n + 1) for s in itertools.combinations(range(n), k)]


class MultiLinear:
    def __init__(self, nparam, coeffs):
        self.n = nparam
        self.c = coeffs  # dict subset -> Fraction

    def exact(self, x):
        tot = Fr(0)
        xs = [Fr(float(v)) for v in x]
        for s, c in self.c.items():
            if c == 0:
                continue
            t = c
            for i in s:
                t *= xs[i]
            tot += t
        return tot

    def __call__(self, *x):
        return float(self.exact(x))

    def is_linear(self):
        return all(c == 0 for s, c in self.c.items() if len(s) > 1)

    def describe(self):
        return {",".join(map(str, s)) or "const": str(c) for s, c in self.c.items() if c != 0}


def _tensors(n, rng, count):
    pool = [Fr(-2), Fr(-1, 2), Fr(0), Fr(1, 3), Fr(1), Fr(3, 2), Fr(-7, 5), Fr(4)]
    subs = _subsets(n)
    out = []
    out.append(("constant", MultiLinear(n, {s: (Fr(5, 2) if not s else Fr(0)) for s in subs})))
    lin = {s: Fr(0) for s in subs}
    lin[()] = Fr(1, 2)
    for i in range(n):
        lin[(i,)] = [Fr(2), Fr(-3, 2), Fr(5, 3)][i]
    out.append(("linear", MultiLinear(n, lin)))
    top = {s: Fr(0) for s in subs}
    top[tuple(range(n))] = Fr(-3, 2)
    top[()] = Fr(1)
    out.append(("top-degree", MultiLinear(n, top)))
    for k in range(count):
        c = {s: rng.choice(pool) for s in subs}
        if all(v == 0 for s, v in c.items() if len(s) == n):
            c[tuple(range(n))] = Fr(3, 2)
        out.append((f"seeded{k}", MultiLinear(n, c)))
        l = {s: (rng.choice(pool) if len(s) <= 1 else Fr(0)) for s in subs}
        out.append((f"seeded-linear{k}", MultiLinear(n, l)))
    return out


BOXES = {
    "unit": ([Fr(0), Fr(0), Fr(0)], [Fr(1), Fr(1), Fr(1)]),
    "skew": ([Fr(-1), Fr(1, 2), Fr(2)], [Fr(1, 2), Fr(2), Fr(5)]),
    # a small box far from the origin (coordinates 1e3 times the box size): used for 1 and 2 parameters
    "far": ([Fr(1000), Fr(1000), Fr(1000)], [Fr(1001), Fr(10013, 10), Fr(1002)]),
}


def _lattice(low, high, npt, quick):
    """per-axis positions and whether they are on the upper face"""
    axes = []
    for lo, hi, m in zip(low, high, npt):
        ts = [Fr(0), Fr(1, 2 * (m - 1)), Fr(1, m - 1), Fr(5, 7), Fr(1)]
        if not quick:
            ts += [Fr(1, 3), Fr(m - 2, m - 1) if m > 2 else Fr(1, 5)]
        seen, pos = set(), []
        for t in ts:
            if t not in seen:
                seen.add(t)
                pos.append((float(lo + t * (hi - lo)), t == 1))
        axes.append(pos)
    pts = []
    for combo in itertools.product(*axes):
        pts.append(([c[0] for c in combo], [c[1] for c in combo]))
    return pts


def _call(f):
    try:
        with warnings.catch_warnings():
            warnings.simplefilter("ignore")
            return True, f()
    except Exception as e:  # noqa
        return False, f"{type(e).__name__}: {str(e)[:200]}"


def run(rep):
    import porepy as pp  # noqa
    from porepy.utils.interpolation_tables import AdaptiveInterpolationTable, InterpolationTable

    quick = rep.tier == "quick"
    rng = rep.rng
    rep.under_contract("InterpolationTable.__init__/interpolate/gradient", "AdaptiveInterpolationTable.interpolate/gradient",
                       "AdaptiveInterpolationTable.quadrature_points_from_coordinates/assign_values")
    rep.assume("node values handed to the tables are the float64 roundings of the exact rational values",
               "tolerances: 1e-12 (1 + max|node value|) for values; 1e-10 (|c_axis| + max|node value| / h_axis) for difference quotients",
               "the adaptive table is given dx = (high - low) / (npt - 1) and base_point = low, so both tables share the grid",
               "range dimension 1")
    rep.trust("fractions.Fraction", "numpy")
    rep.explanation = "B only: exact rational oracle vs the real tables on a lattice of query points (all resolutions 2-4 per axis, 1-3 parameters)."

    def viol(ob, sig, inp, detail):
        rep.violation(ob, sig, inputs=inp, detail=detail, confirmed=True)

    with rep.sweep(
        "interpolation tables",
        rule="parameters 1-3 x every npt in {2,3,4}^n x boxes {unit, skew} x coefficient tensors {constant, linear, top-degree, %d seeded "
             "multilinear, %d seeded linear} x lattice of query points t in {0, half cell, first grid line, 5/7, 1%s} per axis; one case "
             "= (table configuration, function, query point, operation); nontrivial = the point is not a grid node or the function is "
             "not constant; distinct by (nparam, npt, box, function, point, operation)" % ((1, 1, "") if quick else (3, 3, ", 1/3, last grid line")),
        bound="1-3 parameters, 2-4 points per axis, rational coefficients with denominators <= 5",
        exhaustive=False,
    ) as sw:
        for n in (1, 2, 3):
            tensors = _tensors(n, rng, 1 if quick else 3)
            for npt in itertools.product((2, 3, 4), repeat=n):
                for bname, (blo, bhi) in BOXES.items():
                    if quick and n == 3 and bname == "unit" and len(set(npt)) == 1 and npt[0] != 3:
                        continue
                    if bname == "far" and (n == 3 or (quick and len(set(npt)) > 1)):
                        continue
                    low_f, high_f = blo[:n], bhi[:n]
                    low = np.array([float(v) for v in low_f])
                    high = np.array([float(v) for v in high_f])
                    npt_a = np.array(npt)
                    h = (high - low) / (npt_a - 1)
                    pts = _lattice(low_f, high_f, npt, quick)
                    X = np.array([p[0] for p in pts]).T  # n x npts
                    upper = np.array([p[1] for p in pts]).T  # n x npts bool
                    for fname, f in tensors:
                        cfg = {"nparam": n, "npt": list(npt), "box": bname, "low": low.tolist(), "high": high.tolist(), "function": f.describe()}
                        ok, T = _call(lambda: InterpolationTable(low.copy(), high.copy(), npt_a.copy(), f))
                        if not ok:
                            viol("InterpolationTable: construction returns normally", "construction", cfg, T)
                            continue
                        ok, A = _call(lambda: AdaptiveInterpolationTable(h.copy(), low.copy(), f))
                        if not ok:
                            viol("AdaptiveInterpolationTable: construction returns normally", "construction", cfg, A)
                            continue
                        exact = np.array([float(f.exact(X[:, k])) for k in range(X.shape[1])])
                        if bname == "unit" and len(set(npt)) == 1:
                            # adaptive table with the DEFAULT base point (the origin, a node of the unit-box grids): same values
                            ok, A0 = _call(lambda: AdaptiveInterpolationTable(h.copy(), function=f))
                            okv, V0 = _call(lambda: A0.interpolate(X.copy())) if ok else (False, A0)
                            if not (ok and okv):
                                viol("AdaptiveInterpolationTable: default base point works for any number of parameters", f"{n} parameter(s)", cfg, V0)
                            elif np.shape(V0)[-1] != exact.size or float(np.max(np.abs(np.ravel(V0) - exact))) > 1e-12 * (1.0 + float(np.max(np.abs(exact)))):
                                viol("AdaptiveInterpolationTable: default base point works for any number of parameters", f"{n} parameter(s)", cfg,
                                     f"max error {float(np.max(np.abs(np.ravel(V0) - exact))) if np.shape(V0)[-1] == exact.size else np.shape(V0)}")
                        if len(set(npt)) == 1:
                            # adaptive table whose base point is the UPPER corner of the box (every query lies below the base point)
                            ok, Ah = _call(lambda: AdaptiveInterpolationTable(h.copy(), high.copy(), f))
                            okv, Vh = _call(lambda: Ah.interpolate(X.copy())) if ok else (False, Ah)
                            if not (ok and okv):
                                viol("AdaptiveInterpolationTable: any grid node can serve as base point", f"base point = upper corner, {n} parameter(s)", cfg, Vh)
                            elif np.shape(Vh)[-1] != exact.size or float(np.max(np.abs(np.ravel(Vh) - exact))) > 1e-12 * (1.0 + float(np.max(np.abs(exact)))) * (1e3 if bname == "far" else 1.0):
                                viol("AdaptiveInterpolationTable: any grid node can serve as base point", f"base point = upper corner, {n} parameter(s)", cfg,
                                     f"max error {float(np.max(np.abs(np.ravel(Vh) - exact))) if np.shape(Vh)[-1] == exact.size else np.shape(Vh)}")
                        # node values for scaling
                        nodes = itertools.product(*[[lo + (hi - lo) * Fr(k, m - 1) for k in range(m)] for lo, hi, m in zip(low_f, high_f, npt)])
                        scale = 1.0 + max(abs(float(f.exact([float(v) for v in nd]))) for nd in nodes)
                        tol = 1e-12 * scale
                        any_up = upper.any(axis=0)

                        def sig_of(k, extra=""):
                            if any_up[k]:
                                return SIG_UPPER
                            return ("interior or lower-face point" + extra)

                        # ---- standard table: vectorised interpolate
                        ok, V = _call(lambda: T.interpolate(X.copy()))
                        if not ok:
                            viol("InterpolationTable.interpolate: returns normally inside the box", "vectorised query", dict(cfg, x=X.tolist()), V)
                            V = None
                        else:
                            V = np.asarray(V)
                            if V.shape != (1, X.shape[1]):
                                viol("InterpolationTable.interpolate: shape (dim, npoints)", "vectorised query", dict(cfg, x=X.tolist()), f"shape {V.shape}")
                                V = None
                        for k in range(X.shape[1]):
                            node = all(abs(((X[i, k] - low[i]) / h[i]) - round((X[i, k] - low[i]) / h[i])) < 1e-9 for i in range(n))
                            sw.case((n, npt, bname, fname, k, "interp"), nontrivial=(not node) or fname != "constant",
                                    sample=dict(cfg, x=X[:, k].tolist(), op="interpolate"))
                            if V is not None and not abs(V[0, k] - exact[k]) <= tol:
                                viol("InterpolationTable.interpolate: exact for multilinear f", sig_of(k), dict(cfg, x=X[:, k].tolist()),
                                     f"got {V[0, k]!r}, exact {exact[k]!r}, tol {tol:.2e}")
                        # single 1-d points (reshape path): corners and a generic point
                        for k in sorted({0, X.shape[1] - 1, X.shape[1] // 2}):
                            ok, v1 = _call(lambda: T.interpolate(X[:, k].copy()))
                            sw.case((n, npt, bname, fname, k, "interp-1d"), nontrivial=True)
                            if not ok:
                                viol("InterpolationTable.interpolate: returns normally inside the box", sig_of(k, " passed as 1-d array"), dict(cfg, x=X[:, k].tolist()), v1)
                            elif np.asarray(v1).shape != (1, 1) or not abs(np.asarray(v1)[0, 0] - exact[k]) <= tol:
                                viol("InterpolationTable.interpolate: exact for multilinear f", sig_of(k, " passed as 1-d array"), dict(cfg, x=X[:, k].tolist()),
                                     f"got {np.asarray(v1).tolist()}, exact {exact[k]!r}")
                        # ---- gradients (linear f)
                        if f.is_linear():
                            for ax in range(n):
                                cax = float(f.c.get((ax,), Fr(0)))
                                gtol = 1e-10 * (abs(cax) + scale / h[ax])
                                good = ~upper[ax]  # points not on the upper face of the differentiated axis ... and of any axis (index wrap)
                                inner = ~any_up
                                ok, G = _call(lambda: T.gradient(X[:, inner].copy(), ax))
                                if not ok:
                                    viol("InterpolationTable.gradient: returns normally inside the box", "interior or lower-face point",
                                         dict(cfg, x=X[:, inner].tolist(), axis=ax), G)
                                else:
                                    G = np.asarray(G)
                                    idx = np.where(inner)[0]
                                    for j, k in enumerate(idx):
                                        sw.case((n, npt, bname, fname, int(k), "grad", ax), nontrivial=True)
                                        if G.shape != (1, idx.size) or not abs(G[0, j] - cax) <= gtol:
                                            viol("InterpolationTable.gradient: exact for linear f", "interior or lower-face point",
                                                 dict(cfg, x=X[:, k].tolist(), axis=ax), f"got {G[0, j] if G.shape == (1, idx.size) else G.shape}, exact {cax}")
                                for k in np.where(any_up)[0]:
                                    ok, g1 = _call(lambda: T.gradient(X[:, [k]].copy(), ax))
                                    sw.case((n, npt, bname, fname, int(k), "grad", ax), nontrivial=True,
                                            sample=dict(cfg, x=X[:, k].tolist(), op="gradient", axis=ax))
                                    if not ok:
                                        viol("InterpolationTable.gradient: returns normally inside the box", SIG_UPPER, dict(cfg, x=X[:, k].tolist(), axis=ax), g1)
                                    elif not abs(np.asarray(g1)[0, 0] - cax) <= gtol:
                                        viol("InterpolationTable.gradient: exact for linear f", SIG_UPPER, dict(cfg, x=X[:, k].tolist(), axis=ax),
                                             f"got {np.asarray(g1)[0, 0]!r}, exact {cax}")
                        # ---- adaptive table, values through the function: three shuffled batches, then everything again
                        order = list(range(X.shape[1]))
                        rng.shuffle(order)
                        third = max(1, len(order) // 3)
                        batches = [order[:third], order[third:2 * third], order[2 * third:], order]
                        for bi, b in enumerate(batches):
                            if not b:
                                continue
                            ok, VA = _call(lambda: A.interpolate(X[:, b].copy()))
                            if not ok:
                                viol("AdaptiveInterpolationTable.interpolate: returns normally", f"batch {bi} of the query history", dict(cfg, x=X[:, b].tolist()), VA)
                                break
                            VA = np.asarray(VA)
                            for j, k in enumerate(b):
                                sw.case((n, npt, bname, fname, int(k), "adaptive", bi), nontrivial=True)
                                if VA.shape != (1, len(b)) or not abs(VA[0, j] - exact[k]) <= tol:
                                    viol("AdaptiveInterpolationTable.interpolate: exact for multilinear f", "on-demand values" + (" (revisited)" if bi == 3 else ""),
                                         dict(cfg, x=X[:, k].tolist()), f"got {VA[0, j] if VA.shape == (1, len(b)) else VA.shape}, exact {exact[k]!r}")
                                elif V is not None and not abs(VA[0, j] - V[0, k]) <= tol:
                                    viol("AdaptiveInterpolationTable.interpolate: agrees with the standard table", "on-demand values",
                                         dict(cfg, x=X[:, k].tolist()), f"adaptive {VA[0, j]!r}, standard {V[0, k]!r}")
                        if f.is_linear():
                            for ax in range(n):
                                cax = float(f.c.get((ax,), Fr(0)))
                                gtol = 1e-10 * (abs(cax) + scale / h[ax])
                                ok, GA = _call(lambda: A.gradient(X.copy(), ax))
                                if not ok:
                                    viol("AdaptiveInterpolationTable.gradient: returns normally", "vectorised query", dict(cfg, x=X.tolist(), axis=ax), GA)
                                    continue
                                GA = np.asarray(GA)
                                for k in range(X.shape[1]):
                                    sw.case((n, npt, bname, fname, k, "adaptive-grad", ax), nontrivial=True)
                                    if GA.shape != (1, X.shape[1]) or not abs(GA[0, k] - cax) <= gtol:
                                        viol("AdaptiveInterpolationTable.gradient: exact for linear f", "on-demand values", dict(cfg, x=X[:, k].tolist(), axis=ax),
                                             f"got {GA[0, k] if GA.shape == (1, X.shape[1]) else GA.shape}, exact {cax}")
                        # ---- adaptive table fed through quadrature_points_from_coordinates + assign_values (no function)
                        if fname in ("linear", "seeded0", "top-degree"):
                            ok, A2 = _call(lambda: AdaptiveInterpolationTable(h.copy(), low.copy(), None))
                            if ok:
                                for bi, b in enumerate(batches[:3]):
                                    if not b:
                                        continue

                                    def feed_and_query():
                                        coord, ind = A2.quadrature_points_from_coordinates(X[:, b].copy())
                                        if coord.shape[1]:
                                            vals = np.array([f(*coord[:, j]) for j in range(coord.shape[1])])
                                            A2.assign_values(vals, coord, ind)
                                        return A2.interpolate(X[:, b].copy())

                                    ok, VB = _call(feed_and_query)
                                    if not ok:
                                        viol("AdaptiveInterpolationTable (assign_values): returns normally", f"batch {bi} of the query history", dict(cfg, x=X[:, b].tolist()), VB)
                                        break
                                    VB = np.asarray(VB)
                                    for j, k in enumerate(b):
                                        sw.case((n, npt, bname, fname, int(k), "adaptive-assign", bi), nontrivial=True)
                                        if VB.shape != (1, len(b)) or not abs(VB[0, j] - exact[k]) <= tol:
                                            viol("AdaptiveInterpolationTable (assign_values): exact for multilinear f", "externally assigned values",
                                                 dict(cfg, x=X[:, k].tolist()), f"got {VB[0, j] if VB.shape == (1, len(b)) else VB.shape}, exact {exact[k]!r}")


def replay(data):
    """Rebuild the recorded table and query natively (standard table obligations)."""
    import porepy as pp  # noqa
    from porepy.utils.interpolation_tables import AdaptiveInterpolationTable, InterpolationTable

    inp = data.get("inputs") or {}
    ob = data.get("obligation") or ""
    if "function" not in inp or "x" not in inp:
        return False
    n = inp["nparam"]
    coeffs = {s: Fr(0) for s in _subsets(n)}
    for k, v in inp["function"].items():
        coeffs[() if k == "const" else tuple(int(i) for i in k.split(","))] = Fr(v)
    f = MultiLinear(n, coeffs)
    low, high, npt = np.array(inp["low"], dtype=float), np.array(inp["high"], dtype=float), np.array(inp["npt"])
    h = (high - low) / (npt - 1)
    x = np.array(inp["x"], dtype=float)
    if x.ndim == 1:
        x = x.reshape(-1, 1)
    T = InterpolationTable(low, high, npt, f) if not ob.startswith("Adaptive") else AdaptiveInterpolationTable(h, low, f)
    try:
        if "gradient" in ob:
            ax = inp["axis"]
            got = np.asarray(T.gradient(x.copy(), ax))[0]
            exp = np.full(x.shape[1], float(f.c.get((ax,), Fr(0))))
            tol = 1e-8 * (1 + abs(exp).max()) / h[ax]
        else:
            got = np.asarray(T.interpolate(x.copy()))[0]
            exp = np.array([float(f.exact(x[:, k])) for k in range(x.shape[1])])
            tol = 1e-10 * (1 + abs(exp).max())
    except Exception as e:  # noqa
        print("replay: raised", type(e).__name__, e)
        return True
    print("replay: got", got.tolist(), "exact", exp.tolist())
    return bool(np.any(np.abs(got - exp) > tol))
