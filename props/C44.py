"""C44 -- geometric clipping keeps exactly the parts inside the domain.

Tier B (bounded run-time contract sweep).

Contracts (statement: "returns pieces that lie inside the clipping region and whose union equals the intersection of
the input with that region"); TOL = 1e-9 * max(1, |coordinates|):
  lines_by_polygon(poly, pts, edges) -> (int_pts, int_edges, edges_kept)
    requires  simple integer polygon (catalogue, convex and non-convex), integer segments of non-zero length; segments that
              overlap a polygon EDGE along a piece of positive length are excluded (for them "inside" depends on whether the
              region is open or closed -- the function documents that it drops boundary pieces); decided exactly.
    ensures   (shape)   int_edges has the tag rows of edges, edges_kept has one entry per returned piece;
              (inside)  both end points and the mid point of every piece lie in the closed polygon (exact test on the
                        returned doubles, distance <= TOL);
              (on-seg)  both end points of piece k lie on input segment edges_kept[k] (distance <= TOL);
              (tags)    piece k carries the tag rows of segment edges_kept[k];
              (exact)   for every input segment the parameter intervals of its pieces are pairwise disjoint, each lies in the
                        exact inside-set, and their total length equals the exact length of segment /\\ polygon -- hence the
                        union of the pieces equals the intersection.  Exact inside-set: all crossing parameters with polygon
                        edges (rational), sorted; a sub-interval is inside iff its mid point is (exact crossing-number test).
  polygons_by_polyhedron(polygons, polyhedron) -> (pieces, index)
    requires  convex integer polygons (rectangles, triangles, parallelograms), convex integer polyhedron given by its faces: cube
              [0,4]^3, tetrahedron, and the non-cubic box [0,4]x[-2,1]x[2,8] whose sides are given once as six rectangles and once
              as twelve triangles (two coplanar polygons per side); the polygon's plane is not the plane of a face of the
              polyhedron (decided exactly).  For the two box descriptions only polygons in GENERAL POSITION are admitted (no vertex
              in a side plane, outline neither through a polyhedron edge/corner nor through a point of a subdivision line, no
              polyhedron corner in the polygon's plane; decided exactly); the degenerate placements are enumerated with the cube
              and the tetrahedron, where they fail on the unchanged tree, (b)-(e) below.
    ensures   (index)   every piece refers to an existing input polygon;
              (inside)  every vertex of a piece lies in the exact intersection polygon (hence in the polyhedron and in the
                        input polygon), distance <= TOL;
              (exact)   the total area of the pieces of polygon i equals the exact area of polygon_i /\\ polyhedron (computed by
                        Sutherland-Hodgman clipping in fractions.Fraction against the half-spaces that DEFINE the solid;
                        area^2 = |sum v_i x v_{i+1}|^2 / 4 compared without square root).  With (inside) and convexity this
                        gives union = intersection.
Oracles are exact and written from the definitions (parameter-interval clipping, Sutherland-Hodgman); none is derived from
the code under test (which uses shapely resp. pp.intersections.polygons_3d).

Enumeration
  lines_by_polygon        7 catalogue polygons (triangle, square, hexagon, L, chevron, U, star) x ALL segments between integer points
                          of [-1,5]^2 (1176 undirected; directed both ways for every 5th), one vectorised call per polygon with tags
                          and a single-segment call for every 4th segment; thorough: polygons also reversed (cw).
  polygons_by_polyhedron  cube: axis-parallel rectangles in the planes {x,y,z} = 1, 2 (thorough: also 3) with corner coordinates from
                          {-1,0,2,4,5} (thorough {-1,0,1,3,4,5}); tetrahedron: the same rectangles in the planes = 1; seeded integer
                          triangles of [-1,5]^3 for both solids; polygons given one per call and (every 7th) in a batch of three.
                          box [0,4]x[-2,1]x[2,8] (all six bounds distinct; zmax > ymax), sides as 6 rectangles / as 12 triangles:
                          axis-parallel rectangles in planes strictly between the bounds with corner coordinates one unit inside /
                          outside the bounds, seeded integer triangles and parallelograms near the box, general position only.  With
                          the triangulated sides the clipped outline crosses the subdivision lines (0, 1, 2-4 hanging nodes, part of
                          the case class); the oracle clips against the six half-spaces and does not know about the subdivision.

Unchanged tree.  lines_by_polygon: holds for every segment against the convex polygons and for all segments against the non-convex
ones except (a).  polygons_by_polyhedron: holds for EVERY enumerated polygon in generic position (no polygon vertex in a face
plane, polygon boundary not through a polyhedron edge), cube and tetrahedron, quick and thorough; it fails in the degenerate
placements (b)-(e).  All kept strict and reported to the lead:
  (a) "lines_by_polygon: pieces are exactly the part inside the polygon" / "non-convex, partly inside + isolated boundary contact":
      when a segment has a piece inside the polygon AND touches the boundary at a separate isolated point, shapely returns a
      GeometryCollection (Point + LineString); only LineString / MultiLineString are handled, so the inside piece is dropped:
      L-polygon (0,0),(4,0),(4,2),(2,2),(2,4),(0,4), segment (3,2)->(-1,4): nothing returned, exact inside part t in [1/4,3/4].
  (b) "polygons_by_polyhedron: pieces lie inside polyhedron and polygon" / "cube, cut; a vertex in a face plane": cube [0,4]^3,
      triangle (4,3,0),(5,0,4),(3,1,2) (first vertex on a cube edge): the returned piece (4,.5,3),(4,3,0),(5,0,4) is the part
      OUTSIDE the cube; exact intersection (4,3,0),(4,1/2,3),(3,1,2).
  (c) "polygons_by_polyhedron: does not raise" / "..., cut; an edge in a face plane: AssertionError": rectangle x=2, 0<=y<=4, -1<=z<=1
      (two edges in the planes y=0, y=4): `assert np.sum(count == 1) == 2`  (the source has a FIXME for this placement).
  (d) thorough: "... does not raise" / "cube, inside, vertices on the boundary; a vertex in a face plane: AssertionError":
      triangle (2,2,2),(0,3,3),(1,2,2) with one vertex on the face x=0: `assert False` ("inside_polyhedron test is bad").
  (e) thorough: "... piece area equals the exact clipped area" / "..., cut; boundary through a polyhedron edge" (and "a vertex in a
      face plane", "an edge in a face plane"): e.g. triangle (-1,1,5),(1,3,3),(5,2,-1) whose edge passes through the cube edge
      x=0,z=4: the piece (0,2,4),(1,3,3),(4,2.25,0) misses vertices (area 2.65, exact 6.19); sometimes no piece at all.

Detection power (scratch copy of /repo/src under /var/tmp, POREPY_SRC=<copy>, one bug at a time in constrain_geometry.py, quick
tier; each gave exit 1 with VIOLATION lines whose (obligation, signature) do not occur on the unchanged tree):
  M1  lines_by_polygon: `reshape((2, -1), order="F")` -> order="C" (end points paired wrongly)
        -> "pieces lie on their input segment", "pieces lie inside the polygon", "pieces are exactly the part inside ..."
  M2  lines_by_polygon: tag rows taken from `edges[2:, :n_kept]` instead of `edges[2:, edges_kept]`
        -> "pieces carry their segment's tags"
  M3  lines_by_polygon: MultiLineString branch disabled       -> "pieces are exactly the part inside the polygon" (several pieces)
  M4  polygons_by_polyhedron: `start_pairs` 0 <-> 1 (inside / outside sub-segments swapped)
        -> "pieces lie inside polyhedron and polygon", "piece area equals the exact clipped area" (generic position)
  M5  polygons_by_polyhedron: bounding-box rejection `np.max(poly[0]) < xmin` -> `np.min(poly[0]) < xmin`
        -> "piece area equals the exact clipped area" (cube/tetrahedron, cut; generic position)
  M6  polygons_by_polyhedron: `orig_poly_ind.append(pi)` -> `append(0)`
        -> both obligations with signature "..., three polygons in one call (each of them passes alone)"
  M7  polygons_by_polyhedron: hanging-node removal without the `decrease` index compensation (wrong edges merged from the second
      hanging node on) -> "piece area equals the exact clipped area" and "does not raise" (IndexError) with signature
      "box 4x3x6 (sides as two triangles), cut; generic position; several hanging nodes"; invisible with one polygon per side
  M8  polygons_by_polyhedron: bounding-box rejection `np.min(poly[2]) > zmax` -> `> ymax`
        -> "piece area equals the exact clipped area" / "box 4x3x6, cut; generic position" (and the triangulated box); invisible
        for the cube and the tetrahedron (ymax == zmax)
"""
from __future__ import annotations

import itertools
from fractions import Fraction

META = {
    "level": "exploration",
    "engine": "sweep",
    "technique": "run-time contract sweep (bounded stand-in for deduction): integer segments vs catalogue polygons and integer rectangles/"
                 "triangles/parallelograms vs cube/tetrahedron/non-cubic box (sides as single and as several coplanar polygons) through the real "
                 "clipping functions, results compared with exact rational clipping oracles",
    "text": "Tier B only: lines_by_polygon on 7 polygons x all integer segments of [-1,5]^2 (exhaustive for the box), polygons_by_polyhedron on "
            "axis-parallel integer rectangles (exhaustive over a coordinate set) and seeded integer triangles against a cube and a tetrahedron "
            "(all placements, incl. degenerate ones), and -- polygons in general position only -- against a non-cubic, shifted box whose sides "
            "are given as six rectangles and as twelve triangles (two coplanar polygons per side; clipped outlines with 0, 1 and several "
            "hanging nodes). Degenerate placements w.r.t. a polyhedron with subdivided sides are NOT covered. "
            "Non-convex polyhedra and non-convex input polygons of polygons_by_polyhedron are NOT covered (the exact oracle is "
            "Sutherland-Hodgman, valid for convex clipping regions only). No deduction.",
    "note": "exact oracles in fractions.Fraction; returned doubles evaluated exactly, distances compared at 1e-9 relative",
}

RTOL = 1e-9

# ----------------------------------------------------------------------------- exact 2-D helpers


def sub(p, q):
    return tuple(a - b for a, b in zip(p, q))


def dot(u, v):
    return sum(a * b for a, b in zip(u, v))


def x2(u, v):
    return u[0] * v[1] - u[1] * v[0]


def cross3(u, v):
    return (u[1] * v[2] - u[2] * v[1], u[2] * v[0] - u[0] * v[2], u[0] * v[1] - u[1] * v[0])


def on_segment(q, a, b):
    d, w = sub(b, a), sub(q, a)
    c, L = dot(w, d), dot(d, d)
    if c < 0 or c > L:
        return False
    return dot(w, w) * L == c * c


def polygon_status(poly, q):
    k = len(poly)
    for i in range(k):
        if on_segment(q, poly[i], poly[(i + 1) % k]):
            return "on"
    inside = False
    for i in range(k):
        a, b = poly[i], poly[(i + 1) % k]
        if (a[1] > q[1]) != (b[1] > q[1]):
            xi = a[0] + Fraction(q[1] - a[1]) * (b[0] - a[0]) / (b[1] - a[1])
            if xi > q[0]:
                inside = not inside
    return "in" if inside else "out"


def d2_point_seg(p, s, e):
    d, w = sub(e, s), sub(p, s)
    L, c = dot(d, d), dot(w, d)
    if c <= 0:
        return Fraction(dot(w, w))
    if c >= L:
        w2 = sub(p, e)
        return Fraction(dot(w2, w2))
    return Fraction(dot(w, w)) - Fraction(c * c) / L


def d2_point_polygon2(poly, q):
    if polygon_status(poly, q) != "out":
        return Fraction(0)
    k = len(poly)
    return min(d2_point_seg(q, poly[i], poly[(i + 1) % k]) for i in range(k))


_II_CACHE = {}


def inside_intervals(poly, s, e):
    """-> (list of (t0, t1) parameter intervals of [s,e] inside the closed polygon, runs_along_boundary); memoised"""
    key = (tuple(poly), s, e)
    if key not in _II_CACHE:
        if len(_II_CACHE) > 200000:
            _II_CACHE.clear()
        _II_CACHE[key] = _inside_intervals(poly, s, e)
    return _II_CACHE[key]


def _inside_intervals(poly, s, e):
    d = sub(e, s)
    ts = {Fraction(0), Fraction(1)}
    k = len(poly)
    along = False
    for i in range(k):
        a, b = poly[i], poly[(i + 1) % k]
        ed = sub(b, a)
        den = x2(d, ed)
        w = sub(a, s)
        if den == 0:
            if x2(w, d) == 0:  # collinear: overlap of positive length?
                L = dot(d, d)
                ta, tb = Fraction(dot(w, d), L), Fraction(dot(sub(b, s), d), L)
                lo, hi = max(Fraction(0), min(ta, tb)), min(Fraction(1), max(ta, tb))
                if lo < hi:
                    along = True
                for t in (ta, tb):
                    if 0 <= t <= 1:
                        ts.add(t)
            continue
        t = Fraction(x2(w, ed), den)
        u = Fraction(x2(w, d), den)
        if 0 <= t <= 1 and 0 <= u <= 1:
            ts.add(t)
    ts = sorted(ts)
    out = []
    for t0, t1 in zip(ts, ts[1:]):
        m = (t0 + t1) / 2
        q = (s[0] + m * d[0], s[1] + m * d[1])
        if polygon_status(poly, q) == "in":
            if out and out[-1][1] == t0:
                out[-1] = (out[-1][0], t1)
            else:
                out.append((t0, t1))
    return out, along


POLYGONS_2D = {
    "triangle": [(0, 0), (4, 0), (0, 4)],
    "square": [(0, 0), (4, 0), (4, 4), (0, 4)],
    "hexagon": [(1, 0), (3, 0), (4, 2), (3, 4), (1, 4), (0, 2)],
    "L": [(0, 0), (4, 0), (4, 2), (2, 2), (2, 4), (0, 4)],
    "chevron": [(0, 0), (2, 1), (4, 0), (2, 4)],
    "U": [(0, 0), (4, 0), (4, 4), (3, 4), (3, 1), (1, 1), (1, 4), (0, 4)],
    "star": [(0, 0), (2, 1), (4, 0), (3, 2), (4, 4), (2, 3), (0, 4), (1, 2)],
}


def _F(p):
    return tuple(Fraction(float(c)) for c in p)


def check_lines(pp, poly, segs, how):
    """one call of lines_by_polygon with all `segs` (list of (s,e) integer points); -> list of (clause, signature, detail)"""
    import numpy as np

    pts = []
    e0, e1 = [], []
    for s, e in segs:
        e0.append(len(pts))
        pts.append(s)
        e1.append(len(pts))
        pts.append(e)
    tags = [[100 + k for k in range(len(segs))], [(3 * k) % 7 for k in range(len(segs))]]
    edges = np.array([e0, e1] + tags, dtype=int)
    convex = "convex" if _is_convex(poly) else "non-convex"
    try:
        ip, ie, kept = pp.constrain_geometry.lines_by_polygon(np.array(poly, dtype=float).T, np.array(pts, dtype=float).T, edges)
    except Exception as ex:  # noqa: BLE001
        return [("lines_by_polygon: does not raise", f"{convex} polygon [{how}]", f"{type(ex).__name__}: {ex}")]
    fails = []
    ip, ie, kept = np.asarray(ip, dtype=float), np.asarray(ie), np.asarray(kept)
    if ie.shape[0] != edges.shape[0] or ie.shape[1] != kept.shape[0] or ip.shape[0] != 2:
        return [("lines_by_polygon: output arrays are consistent", f"{convex} polygon [{how}]", f"points {ip.shape}, edges {ie.shape}, kept {kept.shape}")]
    scale = max([1.0] + [abs(c) for p in pts for c in p])
    tol2 = Fraction(RTOL * scale) ** 2
    pieces = {}  # input index -> list of (t0, t1)
    for k in range(ie.shape[1]):
        i = int(kept[k])
        if not (0 <= i < len(segs)):
            fails.append(("lines_by_polygon: output arrays are consistent", f"{convex} polygon [{how}]", f"edges_kept[{k}]={i}"))
            continue
        s, e = segs[i]
        cls = _seg_class(poly, s, e)
        sig = f"{convex}, {cls} [{how}]"
        a, b = _F(ip[:, int(ie[0, k])]), _F(ip[:, int(ie[1, k])])
        mid = ((a[0] + b[0]) / 2, (a[1] + b[1]) / 2)
        if any(d2_point_polygon2(poly, q) > tol2 for q in (a, b, mid)):
            fails.append(("lines_by_polygon: pieces lie inside the polygon", sig,
                          f"segment {s}-{e}: piece {tuple(map(float, a))}-{tuple(map(float, b))} leaves the polygon"))
        if d2_point_seg(a, s, e) > tol2 or d2_point_seg(b, s, e) > tol2:
            fails.append(("lines_by_polygon: pieces lie on their input segment", sig,
                          f"segment {s}-{e} (index {i}): piece {tuple(map(float, a))}-{tuple(map(float, b))}"))
        if [int(v) for v in ie[2:, k]] != [tags[0][i], tags[1][i]]:
            fails.append(("lines_by_polygon: pieces carry their segment's tags", sig,
                          f"piece {k} of segment {i}: tags {ie[2:, k].tolist()} expected {[tags[0][i], tags[1][i]]}"))
        d = sub(e, s)
        L = dot(d, d)
        ta, tb = dot(sub(a, s), d) / L, dot(sub(b, s), d) / L
        pieces.setdefault(i, []).append((min(ta, tb), max(ta, tb)))
    for i, (s, e) in enumerate(segs):
        exact, along = inside_intervals(poly, s, e)
        assert not along
        cls = _seg_class(poly, s, e)
        sig = f"{convex}, {cls} [{how}]"
        got = sorted(pieces.get(i, []))
        ptol = Fraction(RTOL * scale)  # parameter tolerance (segments have length >= 1)
        bad = None
        for (l0, h0), (l1, h1) in zip(got, got[1:]):
            if l1 < h0 - ptol:
                bad = f"pieces overlap: {[(float(l), float(h)) for l, h in got]}"
        for lo, hi in got:
            if not any(lo >= a - ptol and hi <= b + ptol for a, b in exact):
                bad = f"piece [{float(lo)!r},{float(hi)!r}] is not inside the exact inside-set {[(str(a), str(b)) for a, b in exact]}"
        tot, ex = sum((h - l for l, h in got), Fraction(0)), sum((b - a for a, b in exact), Fraction(0))
        if abs(tot - ex) > ptol * (1 + len(got)):
            bad = bad or f"pieces cover parameter length {float(tot)!r}, exact {ex} ({[(str(a), str(b)) for a, b in exact]}); pieces {[(float(l), float(h)) for l, h in got]}"
        if bad:
            fails.append(("lines_by_polygon: pieces are exactly the part inside the polygon", sig, f"segment {s}-{e}: {bad}"))
    return fails


def _is_convex(poly):
    k = len(poly)
    t = [x2(sub(poly[(i + 1) % k], poly[i]), sub(poly[(i + 2) % k], poly[(i + 1) % k])) for i in range(k)]
    return all(v > 0 for v in t) or all(v < 0 for v in t)


def _seg_class(poly, s, e):
    exact, _ = inside_intervals(poly, s, e)
    if not exact:
        touches = any(polygon_status(poly, q) == "on" for q in (s, e)) or _touches(poly, s, e)
        return "outside (touching)" if touches else "outside"
    iso = " + isolated boundary contact" if _isolated_contact(poly, s, e, exact) else ""
    if len(exact) > 1:
        return "several pieces" + iso
    if exact[0] == (0, 1):
        return "completely inside"
    return "partly inside" + iso


def _isolated_contact(poly, s, e, exact):
    """the segment meets the polygon boundary at a point that does not belong to any of its inside pieces"""
    d = sub(e, s)
    k = len(poly)
    for i in range(k):
        a, b = poly[i], poly[(i + 1) % k]
        ed = sub(b, a)
        den = x2(d, ed)
        if den == 0:
            continue
        w = sub(a, s)
        t, u = Fraction(x2(w, ed), den), Fraction(x2(w, d), den)
        if 0 <= t <= 1 and 0 <= u <= 1 and not any(lo <= t <= hi for lo, hi in exact):
            return True
    return False


def _touches(poly, s, e):
    d = sub(e, s)
    k = len(poly)
    for i in range(k):
        a, b = poly[i], poly[(i + 1) % k]
        ed = sub(b, a)
        den = x2(d, ed)
        if den == 0:
            continue
        w = sub(a, s)
        t, u = Fraction(x2(w, ed), den), Fraction(x2(w, d), den)
        if 0 <= t <= 1 and 0 <= u <= 1:
            return True
    return False


def sweep_lines(rep, pp, quick):
    P = list(itertools.product(range(-1, 6), repeat=2))
    und = [(a, b) for a, b in itertools.combinations(P, 2)]
    with rep.sweep(
        "lines_by_polygon",
        rule="7 catalogue polygons (thorough: also clockwise) x all segments between distinct integer points of [-1,5]^2 (every 5th also "
             "reversed); per polygon one call with all admissible segments (two tag rows) and a single-segment call for every 4th; segments "
             "overlapping a polygon edge along a positive length are excluded by the requires; non-trivial = the segment is cut (partly inside "
             "or several pieces) or only touches the polygon; distinct by (polygon, orientation, segment)",
        bound="7 polygons x 1176 undirected segments",
        exhaustive=True,
    ) as sw:
        for name, base in POLYGONS_2D.items():
            for orient in (("ccw",) if quick else ("ccw", "cw")):
                poly = base if orient == "ccw" else base[::-1]
                segs = []
                for k, (a, b) in enumerate(und):
                    if inside_intervals(poly, a, b)[1]:
                        sw.skip()
                        continue
                    segs.append((a, b))
                    if k % 5 == 0:
                        segs.append((b, a))
                for s, e in segs:
                    c = _seg_class(poly, s, e)
                    sw.case(key=(name, orient, s, e), nontrivial=(c not in ("outside", "completely inside")),
                            sample={"polygon": poly, "segment": [s, e], "class": c})
                fails = check_lines(pp, poly, segs, "batch")
                for k in range(0, len(segs), 4):
                    fails += check_lines(pp, poly, [segs[k]], "single")
                for ob, sig, detail in fails:
                    rep.violation(ob, sig, inputs={"fn": "lines_by_polygon", "polygon": poly, "note": detail[:200]}, detail=f"{name} {orient}: {detail}")


# ----------------------------------------------------------------------------- 3-D: polygons by polyhedron

CUBE_PLANES = [((-1, 0, 0), 0), ((1, 0, 0), 4), ((0, -1, 0), 0), ((0, 1, 0), 4), ((0, 0, -1), 0), ((0, 0, 1), 4)]  # n.x <= c
TET_PLANES = [((-1, 0, 0), 0), ((0, -1, 0), 0), ((0, 0, -1), 0), ((1, 1, 1), 4)]


def _sq(axis, val):
    o = [i for i in range(3) if i != axis]
    out = []
    for a, b in ((0, 0), (4, 0), (4, 4), (0, 4)):
        p = [0, 0, 0]
        p[axis], p[o[0]], p[o[1]] = val, a, b
        out.append(tuple(p))
    return out


# A box that is NOT a cube and not anchored at the origin: all six bounds differ (x in [0,4], y in [-2,1], z in [2,8]).  Its sides
# are given either as six rectangles or -- as in any triangulated surface description -- as twelve triangles (two coplanar
# triangles per side, the diagonal alternating between the sides).  The solid, and hence the oracle, is the same in both cases.
BOX_LO, BOX_HI = (0, -2, 2), (4, 1, 8)
BOX_PLANES = [((-1, 0, 0), -BOX_LO[0]), ((1, 0, 0), BOX_HI[0]), ((0, -1, 0), -BOX_LO[1]), ((0, 1, 0), BOX_HI[1]),
              ((0, 0, -1), -BOX_LO[2]), ((0, 0, 1), BOX_HI[2])]
BOX = "box 4x3x6"
BOX_TRI = "box 4x3x6 (sides as two triangles)"


def _box_faces(lo, hi, triangulate):
    faces = []
    for axis in range(3):
        o = [i for i in range(3) if i != axis]
        for val in (lo[axis], hi[axis]):
            q = []
            for a, b in ((lo[o[0]], lo[o[1]]), (hi[o[0]], lo[o[1]]), (hi[o[0]], hi[o[1]]), (lo[o[0]], hi[o[1]])):
                p = [0, 0, 0]
                p[axis], p[o[0]], p[o[1]] = val, a, b
                q.append(tuple(p))
            if not triangulate:
                faces.append(q)
            elif len(faces) % 4 == 0:
                faces += [[q[0], q[1], q[2]], [q[0], q[2], q[3]]]
            else:
                faces += [[q[0], q[1], q[3]], [q[1], q[2], q[3]]]
    return faces


SOLIDS = {
    "cube": (CUBE_PLANES, [_sq(0, 0), _sq(0, 4), _sq(1, 0), _sq(1, 4), _sq(2, 0), _sq(2, 4)]),
    "tetrahedron": (TET_PLANES, [[(0, 0, 0), (0, 4, 0), (4, 0, 0)], [(0, 0, 0), (4, 0, 0), (0, 0, 4)], [(0, 0, 0), (0, 0, 4), (0, 4, 0)],
                                 [(4, 0, 0), (0, 4, 0), (0, 0, 4)]]),
    BOX: (BOX_PLANES, _box_faces(BOX_LO, BOX_HI, False)),
    BOX_TRI: (BOX_PLANES, _box_faces(BOX_LO, BOX_HI, True)),
}
# solids whose polygons are restricted to general position (see _general_position); the degenerate placements are enumerated
# with the cube and the tetrahedron
GENERAL_POSITION_ONLY = (BOX, BOX_TRI)


def clip_halfspace(poly, n, c):
    """Sutherland-Hodgman step: part of the (convex, planar) polygon with n.x <= c; exact"""
    out = []
    k = len(poly)
    for i in range(k):
        a, b = poly[i], poly[(i + 1) % k]
        va, vb = dot(n, a) - c, dot(n, b) - c
        if va <= 0:
            out.append(a)
        if (va < 0 < vb) or (vb < 0 < va):
            t = Fraction(va) / (va - vb)
            out.append(tuple(x + t * (y - x) for x, y in zip(a, b)))
    # remove consecutive duplicates
    res = []
    for p in out:
        if not res or p != res[-1]:
            res.append(p)
    if len(res) > 1 and res[0] == res[-1]:
        res.pop()
    return res


def exact_clip(poly, planes):
    cur = [tuple(Fraction(c) for c in p) for p in poly]
    for n, c in planes:
        if len(cur) < 3:
            return []
        cur = clip_halfspace(cur, n, c)
    return cur if len(cur) >= 3 else []


def area_vec(poly):
    n = (0, 0, 0)
    k = len(poly)
    for i in range(k):
        c = cross3(poly[i], poly[(i + 1) % k])
        n = tuple(a + b for a, b in zip(n, c))
    return n


def area2(poly):
    """4 * area^2 (exact for exact input)"""
    if len(poly) < 3:
        return Fraction(0)
    n = area_vec([sub(p, poly[0]) for p in poly])
    return dot(n, n)


def d2_point_convex_planar(q, poly):
    """squared distance from q to the convex planar polygon `poly` (exact points, >= 3 vertices)"""
    n = area_vec([sub(p, poly[0]) for p in poly])
    nn = dot(n, n)
    h = dot(n, sub(q, poly[0]))
    proj = tuple(a - h * b / nn for a, b in zip(q, n))
    k = len(poly)
    inside = True
    for i in range(k):
        a, b = poly[i], poly[(i + 1) % k]
        if dot(cross3(sub(b, a), sub(proj, a)), n) < 0:
            inside = False
            break
    if inside:
        return Fraction(h * h) / nn
    return min(d2_point_seg(q, poly[i], poly[(i + 1) % k]) for i in range(k))


def check_polyhedron(pp, solid, polys, how):
    """-> list of (obligation, signature, detail)"""
    import numpy as np

    planes, faces = SOLIDS[solid]
    try:
        out, idx = pp.constrain_geometry.polygons_by_polyhedron([np.array(p, dtype=float).T for p in polys], [np.array(f, dtype=float).T for f in faces])
    except Exception as ex:  # noqa: BLE001
        cls = (_poly_class(polys[0], planes) + _hang_class(polys[0], solid)) if len(polys) == 1 else "batch"
        return [("polygons_by_polyhedron: does not raise", f"{solid}, {cls}: {type(ex).__name__}",
                 f"{polys}: {type(ex).__name__}: {ex}")]
    fails = []
    idx = [int(i) for i in np.asarray(idx).ravel()]
    if len(idx) != len(out) or any(not (0 <= i < len(polys)) for i in idx):
        return [("polygons_by_polyhedron: every piece refers to an input polygon", f"{solid} [{how}]", f"{len(out)} pieces, index {idx}")]
    scale = max([1.0] + [abs(c) for p in polys for q in p for c in q])
    tol = RTOL * scale
    for i, p in enumerate(polys):
        ex = exact_clip(p, planes)
        cls = _poly_class(p, planes)
        sig = f"{solid}, {cls}" + _hang_class(p, solid)
        mine = [np.asarray(o, dtype=float) for o, j in zip(out, idx) if j == i]
        tot = 0.0
        for piece in mine:
            V = [_F(piece[:, k]) for k in range(piece.shape[1])]
            tot += float(area2(V)) ** 0.5 / 2  # area of the returned (floating) polygon in its returned vertex order
            if not ex or any(d2_point_convex_planar(v, ex) > Fraction(tol) ** 2 for v in V):
                fails.append(("polygons_by_polyhedron: pieces lie inside polyhedron and polygon", sig,
                              f"polygon {p}: piece {piece.T.tolist()}, exact intersection {[tuple(str(c) for c in v) for v in ex]}"))
        A2 = area2(ex) / 4  # exact area^2
        atol = 4 * tol * scale
        lo = max(0.0, tot - atol)
        if not (Fraction(lo) ** 2 <= A2 <= Fraction(tot + atol) ** 2):
            fails.append(("polygons_by_polyhedron: piece area equals the exact clipped area", sig,
                          f"polygon {p}: {len(mine)} piece(s) of total area {tot!r}, exact area^2 {A2} (area {float(A2) ** 0.5!r}); "
                          f"pieces {[m.T.tolist() for m in mine]}"))
    return fails


def _poly_class(p, planes):
    ex = exact_clip(p, planes)
    vals = [[dot(n, q) - c for n, c in planes] for q in p]
    on_b = any(all(v <= 0 for v in vs) and any(v == 0 for v in vs) for vs in vals)
    k = len(p)
    edge_in_plane = any(vals[i][j] == 0 and vals[(i + 1) % k][j] == 0 for i in range(k) for j in range(len(planes)))
    vert_in_plane = any(v == 0 for vs in vals for v in vs)
    through_edge = False  # the polygon's boundary crosses the polyhedron's surface at a point lying in two face planes (an edge or corner)
    for i in range(k):
        a, b = p[i], p[(i + 1) % k]
        for j, (n, c) in enumerate(planes):
            va, vb = vals[i][j], vals[(i + 1) % k][j]
            if (va < 0 < vb) or (vb < 0 < va):
                t = Fraction(va) / (va - vb)
                x = tuple(u + t * (w - u) for u, w in zip(a, b))
                vx = [dot(m, x) - cc for m, cc in planes]
                if all(v <= 0 for v in vx) and sum(1 for v in vx if v == 0) >= 2:
                    through_edge = True
    # ... or an edge/corner of the polyhedron lies in the polygon's plane inside the polygon (the surface is crossed at a corner)
    deg = "; an edge in a face plane" if edge_in_plane else ("; a vertex in a face plane" if vert_in_plane else
                                                            ("; boundary through a polyhedron edge" if through_edge else "; generic position"))
    if not ex or area2(ex) == 0:
        return "outside" + (" (touching)" if on_b or ex else "") + deg
    if all(all(v < 0 for v in vs) for vs in vals):
        return "completely inside" + deg
    if all(all(v <= 0 for v in vs) for vs in vals):
        return "inside, vertices on the boundary" + deg
    return "cut" + deg


def _coplanar_with_face(p, planes):
    return any(all(dot(n, q) == c for q in p) for n, c in planes)


def _general_position(p, planes, faces):
    """Exact.  The (planar, convex, integer) polygon p is in general position w.r.t. the polyhedron given by `faces`:
      * no vertex of p lies in the plane of a side;
      * wherever an edge of p passes through a plane of a side, the point of passage -- if it belongs to the closed solid -- lies in
        the interior of one of the given side polygons, i.e. not on a polyhedron edge/corner and not on a line along which a side
        is subdivided into several coplanar polygons;
      * no vertex of a side polygon (corner of the polyhedron) lies in the plane of p.
    """
    vals = [[dot(n, q) - c for n, c in planes] for q in p]
    if any(v == 0 for vs in vals for v in vs):
        return False
    k = len(p)
    nrm = area_vec([sub(q, p[0]) for q in p])
    for f in faces:
        for v in f:
            if dot(nrm, sub(v, p[0])) == 0:
                return False
    for i in range(k):
        a, b = p[i], p[(i + 1) % k]
        for j in range(len(planes)):
            va, vb = vals[i][j], vals[(i + 1) % k][j]
            if (va < 0 < vb) or (vb < 0 < va):
                t = Fraction(va) / (va - vb)
                x = tuple(u + t * (w - u) for u, w in zip(a, b))
                if any(dot(m, x) - cc > 0 for m, cc in planes):
                    continue
                for f in faces:
                    if any(on_segment(x, f[e], f[(e + 1) % len(f)]) for e in range(len(f))):
                        return False
    return True


def _hang_class(p, solid):
    """signature suffix; empty for solids whose sides are single polygons (cube, tetrahedron, box)"""
    if not _subdivision_lines(solid):
        return ""
    h = _hanging_nodes(p, solid)
    return "; no hanging node" if h == 0 else ("; one hanging node" if h == 1 else "; several hanging nodes")


_SUBDIV = {}


def _subdivision_lines(solid):
    """edges shared by two COPLANAR side polygons of the solid (lines along which a planar side is subdivided)"""
    if solid not in _SUBDIV:
        faces = SOLIDS[solid][1]
        inner = []
        for a_i, f in enumerate(faces):
            for e in range(len(f)):
                s, t = f[e], f[(e + 1) % len(f)]
                for g in faces[a_i + 1:]:
                    if any({g[h], g[(h + 1) % len(g)]} == {s, t} for h in range(len(g))):
                        nf, ng = area_vec([sub(q, f[0]) for q in f]), area_vec([sub(q, g[0]) for q in g])
                        if not any(cross3(nf, ng)):
                            inner.append((s, t))
        _SUBDIV[solid] = inner
    return _SUBDIV[solid]


def _hanging_nodes(p, solid):
    """number of points at which the outline of (p /\\ solid) crosses a line separating two coplanar side polygons (exact); these are
    the hanging nodes of the clipped outline.  Used to classify cases only."""
    inner = _subdivision_lines(solid)
    ex = exact_clip(p, SOLIDS[solid][0]) if inner else []
    if not ex:
        return 0
    cnt = 0
    k = len(ex)
    for s, t in inner:
        for i in range(k):
            a, b = ex[i], ex[(i + 1) % k]
            # proper crossing of the segments [a,b] and [s,t]: coplanar, not parallel, s,t strictly on opposite sides of the line ab
            # and a,b strictly on opposite sides of the line st
            d, e2 = sub(b, a), sub(t, s)
            n = cross3(d, e2)
            if not any(n) or dot(sub(s, a), n) != 0:
                continue
            if dot(cross3(d, sub(s, a)), n) * dot(cross3(d, sub(t, a)), n) < 0 and \
                    dot(cross3(e2, sub(a, s)), n) * dot(cross3(e2, sub(b, s)), n) < 0:
                cnt += 1
    return cnt


def sweep_polyhedron(rep, pp, quick):
    vals = (-1, 0, 1, 3, 4, 5)
    rects = []
    for axis in range(3):
        for off in ((2,) if quick else (1, 2, 3)):
            o = [i for i in range(3) if i != axis]
            for (a0, a1) in itertools.combinations(vals, 2):
                for (b0, b1) in itertools.combinations(vals, 2):
                    r = []
                    for a, b in ((a0, b0), (a1, b0), (a1, b1), (a0, b1)):
                        q = [0, 0, 0]
                        q[axis], q[o[0]], q[o[1]] = off, a, b
                        r.append(tuple(q))
                    rects.append(r)
    rng = rep.rng
    ntri = 100 if quick else 2500
    with rep.sweep(
        "polygons_by_polyhedron",
        rule="cube [0,4]^3: every axis-parallel rectangle in the planes {x,y,z} = 1,2 (thorough 1,2,3) with corner coordinates from "
             f"{vals}; tetrahedron (0,0,0),(4,0,0),(0,4,0),(0,0,4): the rectangles of the planes = 1; both solids: seeded integer triangles of "
             "[-1,5]^3 (non-degenerate); one polygon per call, every 7th polygon additionally in a batch of three; polygons coplanar with a face "
             "are excluded by the requires; non-trivial = the polygon is cut by or touches the boundary; distinct by (solid, polygon)",
        bound=f"{len(rects)} rectangles (cube) + {len(rects) // (2 if quick else 3)} (tetrahedron) + 2 x {ntri} triangles",
        exhaustive=False,
    ) as sw:
        for solid in ("cube", "tetrahedron"):
            planes = SOLIDS[solid][0]
            polys = [r for r in rects if solid == "cube" or (2 if quick else 1) in {r[0][a] for a in range(3) if len({q[a] for q in r}) == 1}]
            box = list(itertools.product(range(-1, 6), repeat=3))
            tris = []
            while len(tris) < ntri:
                t = [rng.choice(box) for _ in range(3)] if len(tris) % 2 else [tuple(rng.choice((-1, 1, 2, 3, 5)) for _ in range(3)) for _ in range(3)]
                if any(cross3(sub(t[1], t[0]), sub(t[2], t[0]))):
                    tris.append(t)
            polys = polys + tris
            for k, p in enumerate(polys):
                if _coplanar_with_face(p, planes):
                    sw.skip()
                    continue
                cls = _poly_class(p, planes)
                sw.case(key=(solid, tuple(p)), nontrivial=(not cls.startswith(("outside;", "completely inside"))), sample={"solid": solid, "polygon": p, "class": cls})
                fails = check_polyhedron(pp, solid, [p], "single polygon")
                if k % 7 == 0:
                    batch = [q for q in (p, polys[(k + 1) % len(polys)], polys[(k + 5) % len(polys)]) if not _coplanar_with_face(q, planes)]
                    single = [check_polyhedron(pp, solid, [q], "single polygon") for q in batch[1:]]
                    bf = check_polyhedron(pp, solid, batch, "batch")
                    # a failure of the batch is reported only if it is not explained by a failure of one of its members alone
                    if bf and not fails and not any(single):
                        fails += [(ob, f"{solid}, three polygons in one call (each of them passes alone)", d) for ob, sig, d in bf]
                for ob, sig, detail in fails:
                    rep.violation(ob, sig, inputs={"fn": "polygons_by_polyhedron", "solid": solid, "polygon": p}, detail=detail)


def sweep_box(rep, pp, quick):
    """Non-cubic box, sides given as rectangles and as pairs of coplanar triangles; polygons in general position only."""
    lo, hi = BOX_LO, BOX_HI
    # corner coordinates per axis: one unit outside / inside either bound (never a bound itself -> no vertex in a face plane)
    cval = [(lo[a] - 1, lo[a] + 1, hi[a] - 1, hi[a] + 1) for a in range(3)]
    offs = [(1,), (-1,), (3,)] if quick else [(1, 2, 3), (-1, 0), (3, 4, 5, 6, 7)]  # planes strictly between the bounds
    rects = []
    for axis in range(3):
        o = [i for i in range(3) if i != axis]
        for off in offs[axis]:
            for (a0, a1) in itertools.combinations(cval[o[0]], 2):
                for (b0, b1) in itertools.combinations(cval[o[1]], 2):
                    r = []
                    for a, b in ((a0, b0), (a1, b0), (a1, b1), (a0, b1)):
                        q = [0, 0, 0]
                        q[axis], q[o[0]], q[o[1]] = off, a, b
                        r.append(tuple(q))
                    rects.append(r)
    rng = rep.rng
    nseed = 50 if quick else 2500
    rngs = [range(lo[a] - 1, hi[a] + 2) for a in range(3)]
    with rep.sweep(
        "polygons_by_polyhedron: non-cubic box, sides as one or as several coplanar polygons",
        rule=f"box [{lo[0]},{hi[0]}]x[{lo[1]},{hi[1]}]x[{lo[2]},{hi[2]}] (all six bounds distinct, zmax > ymax, xmax > ymax) with its sides given "
             "(i) as six rectangles, (ii) as twelve triangles (every side split along a diagonal, alternating direction): every axis-parallel "
             f"rectangle in the planes x={offs[0]}, y={offs[1]}, z={offs[2]} with corner coordinates one unit inside/outside the bounds; seeded "
             "integer triangles and parallelograms (a, a+u, a+u+v, a+v) near the box without a vertex in a side plane; only polygons in GENERAL "
             "POSITION are admitted (no vertex in a side plane, outline not through a polyhedron edge/corner nor through a point of a "
             "subdivision line, no corner of the polyhedron in the polygon's plane; decided exactly) -- the others are skipped; one polygon "
             "per call, every 10th additionally in a batch of three; non-trivial = the polygon is cut by the box; for (ii) the number of "
             "hanging nodes of the clipped outline (its crossings with the subdivision lines) is part of the case class; distinct by "
             "(solid, polygon)",
        bound=f"2 x ({len(rects)} rectangles + {nseed} seeded triangles/parallelograms)",
        exhaustive=False,
    ) as sw:
        box = list(itertools.product(*rngs))
        seeded = []
        while len(seeded) < nseed:
            if len(seeded) % 2:
                t = [rng.choice(box) for _ in range(3)]
                if not any(cross3(sub(t[1], t[0]), sub(t[2], t[0]))):
                    continue
            else:
                a = rng.choice(box)
                u = tuple(rng.randint(-4, 4) for _ in range(3))
                v = tuple(rng.randint(-4, 4) for _ in range(3))
                if not any(cross3(u, v)):
                    continue
                t = [a, tuple(x + y for x, y in zip(a, u)), tuple(x + y + z for x, y, z in zip(a, u, v)), tuple(x + z for x, z in zip(a, v))]
                if any(not (rngs[i][0] - 2 <= q[i] <= rngs[i][-1] + 2) for q in t for i in range(3)):
                    continue
            if any(q[i] in (lo[i], hi[i]) for q in t for i in range(3)):
                continue  # a vertex in a side plane: never in general position, draw again
            seeded.append(t)
        for solid in GENERAL_POSITION_ONLY:
            planes, faces = SOLIDS[solid]
            polys = [p for p in rects + seeded]
            ok = [_general_position(p, planes, faces) for p in polys]
            for k, p in enumerate(polys):
                if not ok[k]:
                    sw.skip()
                    continue
                cls = _poly_class(p, planes) + _hang_class(p, solid)
                sw.case(key=(solid, tuple(p)), nontrivial=cls.startswith("cut"), sample={"solid": solid, "polygon": p, "class": cls})
                fails = check_polyhedron(pp, solid, [p], "single polygon")
                if k % 10 == 0:
                    batch = [polys[j] for j in (k, (k + 1) % len(polys), (k + 5) % len(polys)) if ok[j]]
                    single = [check_polyhedron(pp, solid, [q], "single polygon") for q in batch[1:]]
                    bf = check_polyhedron(pp, solid, batch, "batch")
                    if bf and not fails and not any(single):
                        fails += [(ob, f"{solid}, three polygons in one call (each of them passes alone)", d) for ob, sig, d in bf]
                for ob, sig, detail in fails:
                    rep.violation(ob, sig, inputs={"fn": "polygons_by_polyhedron", "solid": solid, "polygon": p}, detail=detail)


def run(rep):
    import warnings

    import porepy as pp

    rep.under_contract("pp.constrain_geometry.lines_by_polygon", "pp.constrain_geometry.polygons_by_polyhedron")
    rep.trust("exact oracles of props/C44.py: parameter-interval clipping with the crossing-number test; Sutherland-Hodgman clipping in "
              "fractions.Fraction against the half-spaces defining cube / tetrahedron; exact squared areas and distances")
    rep.assume("requires: integer coordinates; segments overlapping a polygon edge along a positive length and polygons coplanar with a face of the "
               "polyhedron are excluded (open/closed ambiguity of the region); convex input polygons and convex polyhedra only in 3-D",
               "requires (box with sides as rectangles / as pairs of triangles): polygon in general position w.r.t. the polyhedron and the "
               "subdivision of its sides, decided exactly; other polygons are skipped for these two solids",
               "returned doubles are evaluated exactly; distances compared at 1e-9 * max(1, |coordinates|)")
    quick = rep.tier == "quick"
    with warnings.catch_warnings():
        warnings.simplefilter("ignore")
        sweep_lines(rep, pp, quick)
        sweep_polyhedron(rep, pp, quick)
        sweep_box(rep, pp, quick)


def replay(data):
    import warnings

    import porepy as pp

    inp = data.get("inputs") or {}
    with warnings.catch_warnings():
        warnings.simplefilter("ignore")
        if inp.get("fn") == "polygons_by_polyhedron":
            p = [tuple(int(c) for c in q) for q in inp["polygon"]]
            fails = check_polyhedron(pp, inp["solid"], [p], "single polygon")
        elif inp.get("fn") == "lines_by_polygon":
            poly = [tuple(int(c) for c in q) for q in inp["polygon"]]
            P = list(itertools.product(range(-1, 6), repeat=2))
            segs = [(a, b) for a, b in itertools.combinations(P, 2) if not inside_intervals(poly, a, b)[1]]
            fails = check_lines(pp, poly, segs, "batch")
            for k in range(0, len(segs), 3):
                fails += check_lines(pp, poly, [segs[k]], "single")
        else:
            return False
    for f in fails[:5]:
        print("replay:", f[0], "|", f[1], "|", f[2][:300])
    return any(f[0] == data.get("obligation") for f in fails)
