"""C25 -- fractured mixed-dimensional grids are geometrically conforming (structured / Cartesian path only).

Simplex meshing goes through gmsh (external process) and is out of scope.  Covered entry points:
  * ``pp.meshing.cart_grid(fracs, nx, physdims=...)`` -> ``structured._cart_grid_2d/_3d`` + ``meshing._tag_faces /
    _assemble_mdg`` + ``split_grid.split_fractures`` + ``meshing.create_interfaces``, for axis-aligned line (2-D) and
    rectangle (3-D) fractures whose vertices lie on grid nodes; unit, dyadic and decimal (0.1/5, 0.9/3, 1.2/12, ...) cell sizes;
  * ``pp.create_mdg("cartesian" | "tensor_grid", {"cell_size": h} | {"cell_size_x": ..}, network)`` with ``network =
    pp.create_fracture_network([pp.LineFracture | pp.PlaneFracture ...], pp.Domain(box))`` -> ``mdg_generation.
    _preprocess_cartesian_args / _preprocess_tensor_grid_args`` + ``meshing.cart_grid / tensor_grid`` + ``structured.
    _tensor_grid_2d/_3d``: target sizes that divide and that do not divide the side lengths (0.3 on a unit box, 0.35 on
    2 x 1), decimal cell sizes (0.02 on 0.1, 0.1 on 1.2), domains whose lower corner is not the origin.  The expected
    grid lines are  lower corner + k * L / n  with n = round(L / h) computed in exact rational arithmetic from the given
    domain and target size (the uniform grid whose cell size is closest to the target); the fractures are placed on these
    lines, so no snapping is involved and the expected geometry is a function of the given domain and fractures only.

  * tensor grids with user-supplied node lines: ``pp.meshing.tensor_grid(fracs, x, y(, z))`` and ``pp.create_mdg("tensor_grid",
    {"x_pts": .., "y_pts": .. (, "z_pts": ..)} | {"cell_size": h, "<axis>_pts": ..}, network)`` with non-uniform lines that differ
    between the axes (in number, in extent, or in grading only), lower corner at / not at the origin; the expected grid lines
    are the given ones (uniform lines from the target size on the axes without given lines) and the fractures lie on them;
  * fractures lying in the domain boundary (2-D, ``pp.meshing.cart_grid`` and ``pp.meshing.tensor_grid``): alone, with interior
    fractures ending on / crossing next to them, end to end, meeting in a domain corner.  Such a fracture has the host on one
    side only: each cell is coupled to exactly one host face, which must be tagged ``fracture_faces``; an interior fracture
    ending on it couples to the intersection point through an end face lying in the domain boundary (same clauses, the
    box model decides the side count: two sides exactly for cells in the relative interior of the higher-dimensional object).
    Not part of this family (behaviour of the unchanged library, observed when the family was added): ``pp.create_mdg`` removes
    a fracture lying in the domain boundary from the network (``impose_external_boundary`` in ``_validate_args``, with the
    warning "Found n fractures outside the domain boundary"), and in 3-D ``cart_grid`` / ``tensor_grid`` raise (AssertionError in
    ``intersections.vector_pointset_point`` resp. ValueError "There should be at most two intersections", both from
    ``structured._create_lower_dim_grids_3d`` -> ``FractureNetwork3d.impose_external_boundary``) for a rectangle lying in a
    boundary plane, e.g. cart_grid([x = 0 plane, y, z in [0, 2]], nx = (2, 2, 2)).

The host clause ("host volume equals the domain volume") is evaluated as: the host nodes lie in the given domain box and
the sum of the host cell volumes equals the domain volume (for cart_grid, and where node lines are given on every axis, also:
prod(nx) cells).  When it fails the
remaining clauses, which are formulated on the grid lines of the given domain, are not evaluated for that case.

KNOWN DEFECT OF THE UNCHANGED LIBRARY kept in the sweep (not loosened): ``create_mdg("cartesian", ...)`` on a domain whose
lower corner is not the origin.  ``_preprocess_cartesian_args`` computes the cell counts from (xmax - xmin) / h but passes
physdims = [xmax, ymax(, zmax)] to ``cart_grid``, which meshes [0, xmax] x [0, ymax]: Domain [1, 3] x [0, 1], h = 0.5 gives a
host of volume 3 on [0, 3] x [0, 1] (and fractures snapped on that grid); with a negative lower corner cart_grid can also
raise ("Elements are not colinear").  Reported with signature "create_mdg cartesian, domain lower corner not at the origin"
under the obligations "host: volume equals the domain volume" and "create_mdg: returns a mixed-dimensional grid for an
admissible network".  ``tensor_grid`` on the same inputs is correct.

Oracle (independent of porepy, exact integer arithmetic on grid-index boxes): every fracture is an axis-aligned box
with one degenerate axis; its unit cells, the pairwise intersections (dimension nd-2), the points where intersection
lines meet, which pairs of objects must be coupled and on how many sides (one side exactly where the lower-dimensional
cell lies on the relative boundary of the higher-dimensional object, i.e. where a fracture ends at another fracture)
all follow from interval arithmetic.  The run-time postconditions of the statement are then evaluated on the real
md-grid: per lower-dimensional cell the coupled host faces (from the interface's ``face_cells`` and, independently,
from the mortar projections) are boundary ("split") faces, one per side, coincide with the cell in centre and measure
and have opposite outward normals; ``fracture_faces`` tags mark exactly the coupled faces; the host volume is the
domain volume; lower-dimensional cells tile exactly their fracture / intersection; every mortar side grid matches
the lower-dimensional cells in number, centre and size.

Detection power (scratch copy of /repo/src, POREPY_SRC=<copy>, quick tier; every mutant run exited 1 with VIOLATION lines):
  M1 split_grid.update_cell_connectivity: sign of the duplicated faces' cell_faces entries flipped (``-data``)
       caught by "coupling: the two coupled faces have opposite outward normals"
  M2 split_grid._duplicate_specific_faces: duplicated face centres copied from ``frac_id[::-1]``
       caught by "coupling: coupled face and cell coincide in centre"
  M3 split_grid._duplicate_specific_faces: ``tags["fracture_faces"][frac_id[rem]] = True`` dropped (tip faces ending on another
       fracture no longer tagged)
       caught by "tags: fracture_faces marks exactly the coupled faces" (T/L configurations only)
  M4 structured._find_nodes_on_line: y-line stride ``nx[0] + 1`` -> ``nx[1] + 1``
       caught by "fractures: cells lie on their fracture and tile it exactly", "lower-dimensional cells: measure ...", cart_grid raising
  M5 meshing.create_interfaces: two-sided mortar chosen with ``num_sides > 0``
       caught by "cart_grid: returns a mixed-dimensional grid for an admissible network" (MortarGrid rejects the map)
  M6 mortar_grid._init_projections: side reordering ``order="F"`` -> ``order="C"``
       caught by "mortar: cell (side, c) projects to cell c and one host face per side"
  M7 structured._create_lower_dim_grids_3d: snapping ``np.round(f * nx / physdims)`` -> ``(f * nx / physdims).astype(int)``
       (truncation; differs only where the float product lands one ulp below the integer, e.g. 0.06 * 5 / 0.1)
       caught by "fractures: cells lie on their fracture and tile it exactly" (+ intersections / coupling / tags clauses and
       cart_grid / create_mdg raising) on the decimal cell-size families of cart_grid and create_mdg("cartesian") in 3-D
  M8 mdg_generation._preprocess_tensor_grid_args: ``np.linspace(xmin, xmax, n)`` -> ``xmin + cell_size * np.arange(n)``
       caught by "host: volume equals the domain volume" on create_mdg("tensor_grid") with non-dividing cell sizes (2-D, 3-D)
  M9 mdg_generation._preprocess_tensor_grid_args: ``meshing_args.get("y_pts", y_pts)`` -> ``get("x_pts", y_pts)``
       caught by "host: volume equals the domain volume" (lines differing in extent / number) and "lower-dimensional cells: centres
       lie on grid lines/planes", "fractures: cells lie on their fracture and tile it exactly" (lines differing in grading only)
       on the given-node-lines family of create_mdg("tensor_grid")
  M10 split_grid._duplicate_specific_faces: unsplit coupled faces tagged ``fracture_faces`` only if they were tip faces
       caught by "tags: fracture_faces marks exactly the coupled faces" on the fractures-in-the-domain-boundary family
       (cart_grid and tensor_grid, 2-D; host faces of the boundary fracture and the end face of a fracture ending on it)

Observation (not a violation): for non-dyadic cell sizes in 3-D the embedded 2-d fracture grids carry coordinate errors up
to 5e-11 because structured._create_embedded_2d_grid rounds local coordinates to 1e-10; those cases use tolerance 1e-9.
The same holds for non-uniform node lines in 3-D, dyadic ones included (the fracture nodes are centred at their mean before
the rounding; x_pts = y_pts = (0, 0.5, 1), z_pts = (0, 0.25, 0.5, 1): centres off by 3.3e-11), so that family uses 1e-9 too.
"""
from __future__ import annotations

META = {
    "level": "exploration",
    "engine": "sweep",
    "technique": "run-time contract sweep (bounded stand-in for deduction): postconditions of the statement evaluated on the real "
                 "pp.meshing.cart_grid and pp.create_mdg('cartesian' | 'tensor_grid') output over enumerated axis-aligned fracture sets; "
                 "expected objects, couplings and side counts from an exact integer box model of the input, grid lines from the given "
                 "domain and target cell size in exact rational arithmetic",
    "text": "Bounded (tier B), structured path only: 2-D line fractures and 3-D rectangle fractures on grid lines/planes, 0-3 fractures "
            "(all sets of <= 2 fractures and a seeded sample of triples on the base grids in the quick tier; all triples in 2-D and a larger "
            "3-D sample in the thorough tier), X / T / L / end-to-end configurations, fractures touching the domain boundary, unit, "
            "dyadic and decimal (non-dyadic) cell sizes through pp.meshing.cart_grid; in addition pp.create_mdg with grid types "
            "'cartesian' and 'tensor_grid' on pp.Domain + pp.create_fracture_network networks (sampled sets of <= 2 fractures plus fixed "
            "X / T / L sets) with target cell sizes dividing and not dividing the side lengths, per-axis cell sizes (cartesian), "
            "decimal cell sizes in 3-D, and domains whose lower corner is not the origin (on which create_mdg('cartesian') of the "
            "unchanged library violates the host-volume clause: kept as a finding). Added families: tensor grids with user-supplied, "
            "non-uniform node lines that differ between the axes (pp.meshing.tensor_grid(fracs, x, y, z) and pp.create_mdg('tensor_grid', "
            "{'x_pts', 'y_pts', 'z_pts'} or {'cell_size' + one '<axis>_pts'}), 2-D and 3-D, fractures on the given lines); fractures "
            "lying in the domain boundary in 2-D (pp.meshing.cart_grid / tensor_grid; one coupled, tagged host face per cell; interior "
            "fractures ending on them, end-to-end and domain-corner contacts). Not covered (not applicable here): simplex meshes "
            "(gmsh is an external process), fractures not aligned with grid lines (snapping), fractures lying in the domain boundary "
            "through pp.create_mdg (removed from the network with a warning) and in 3-D (cart_grid / tensor_grid raise), "
            "overlapping coplanar fractures (rejected by porepy), more than 3 fractures, "
            "target sizes for which L / h is a tie k + 1/2. Exploration level, no claim beyond the enumerated family.",
    "note": "requires: fracture vertices on grid nodes, fractures on interior grid lines/planes (2-D through pp.meshing.cart_grid / "
            "tensor_grid: also on the boundary lines of the domain), two fractures never share a cell "
            "(no coplanar overlap), three fractures never share a line segment; create_mdg: the structured grid has round(L / h) cells per "
            "direction (uniform grid closest to the target size), resp. the given node lines (strictly increasing, first and last on the "
            "domain boundary), and the fractures lie on its lines; tolerance 1e-12 relative to the domain "
            "size for centres/measures, except 1e-9 (not below 1e-10 absolute) for non-dyadic "
            "cell sizes and for non-uniform node lines in 3-D where structured._create_embedded_2d_grid rounds local coordinates to 1e-10; the integer box "
            "model of the fracture network is the trusted oracle",
}

import itertools
from fractions import Fraction

# ----------------------------------------------------------------------------- exact box model (oracle)
# A box is a tuple of (lo, hi) integer index intervals, one per axis; lo == hi on degenerate axes.


def box_dim(b):
    return sum(1 for lo, hi in b if hi > lo)


def box_isect(a, b):
    out = []
    for (l1, h1), (l2, h2) in zip(a, b):
        lo, hi = max(l1, l2), min(h1, h2)
        if lo > hi:
            return None
        out.append((lo, hi))
    return tuple(out)


def unit_cells(b):
    """Unit cells of a box: tuples of (lo, hi) with hi-lo == 1 on the non-degenerate axes."""
    axes = [[(i, i + 1) for i in range(lo, hi)] if hi > lo else [(lo, lo)] for lo, hi in b]
    return list(itertools.product(*axes))


def cell_center2(c):
    """Twice the centre (integers) of a unit cell / point."""
    return tuple(lo + hi for lo, hi in c)


def in_box(c2, b):
    """Twice-centre c2 lies in the closed box b."""
    return all(2 * lo <= x <= 2 * hi for x, (lo, hi) in zip(c2, b))


def strictly_inside(c2, b):
    """Twice-centre c2 lies in the relative interior of b (strict on b's non-degenerate axes)."""
    return all((2 * lo < x < 2 * hi) if hi > lo else (x == 2 * lo) for x, (lo, hi) in zip(c2, b))


def frac_box_2d(f):
    # f = (orientation, c, lo, hi): 'h' horizontal y=c, x in [lo,hi]; 'v' vertical x=c
    o, c, lo, hi = f
    return ((lo, hi), (c, c)) if o == "h" else ((c, c), (lo, hi))


def frac_box_3d(f):
    # f = (axis, c, (lo1,hi1), (lo2,hi2)) : plane x_axis = c, ranges on the two other axes in increasing axis order
    a, c, r1, r2 = f
    rng = [r1, r2]
    return tuple((c, c) if ax == a else rng.pop(0) for ax in range(3))


def network_model(boxes, nd):
    """Expected objects of every dimension.  Returns None when the set is inadmissible (two fractures share a cell, or
    three fractures share a line segment)."""
    nF = len(boxes)
    for i, j in itertools.combinations(range(nF), 2):
        x = box_isect(boxes[i], boxes[j])
        if x is not None and box_dim(x) == nd - 1:
            return None
    frac_cells = [set(cell_center2(c) for c in unit_cells(b)) for b in boxes]
    # intersections of dimension nd-2
    segs = []
    for i, j in itertools.combinations(range(nF), 2):
        x = box_isect(boxes[i], boxes[j])
        if x is not None and box_dim(x) == nd - 2:
            segs.append(x)
    # requires: intersection lines of different fracture pairs meet in points only (no three fractures along one line)
    for s1, s2 in itertools.combinations(segs, 2):
        x = box_isect(s1, s2)
        if x is not None and box_dim(x) >= 1:
            return None
    low_cells = set()
    for s in segs:
        low_cells |= set(cell_center2(c) for c in unit_cells(s))
    points = set()
    if nd == 3:
        # nodes contained in at least two distinct intersection segments
        nodes = {}
        for n, s in enumerate(segs):
            for p in itertools.product(*[range(lo, hi + 1) for lo, hi in s]):
                nodes.setdefault(p, set()).add(n)
        for p, ns in nodes.items():
            if len({segs[n] for n in ns}) >= 2:
                points.add(tuple(2 * x for x in p))
    return {"frac_cells": frac_cells, "low_cells": low_cells, "points": points, "segs": segs}


# ----------------------------------------------------------------------------- enumeration of fracture sets


def all_fracs_2d(nx):
    out = []
    for c in range(1, nx[1]):
        for lo, hi in itertools.combinations(range(nx[0] + 1), 2):
            out.append(("h", c, lo, hi))
    for c in range(1, nx[0]):
        for lo, hi in itertools.combinations(range(nx[1] + 1), 2):
            out.append(("v", c, lo, hi))
    return out


def all_fracs_3d(nx):
    out = []
    for a in range(3):
        others = [ax for ax in range(3) if ax != a]
        for c in range(1, nx[a]):
            for r1 in itertools.combinations(range(nx[others[0]] + 1), 2):
                for r2 in itertools.combinations(range(nx[others[1]] + 1), 2):
                    out.append((a, c, r1, r2))
    return out


def boundary_fracs_2d(nx):
    """Line fractures lying in one of the four boundary lines of the domain."""
    out = []
    for c in (0, nx[1]):
        for lo, hi in itertools.combinations(range(nx[0] + 1), 2):
            out.append(("h", c, lo, hi))
    for c in (0, nx[0]):
        for lo, hi in itertools.combinations(range(nx[1] + 1), 2):
            out.append(("v", c, lo, hi))
    return out


def boundary_fracs_3d(nx):
    """Rectangle fractures lying in one of the six boundary planes of the domain."""
    out = []
    for a in range(3):
        others = [ax for ax in range(3) if ax != a]
        for c in (0, nx[a]):
            for r1 in itertools.combinations(range(nx[others[0]] + 1), 2):
                for r2 in itertools.combinations(range(nx[others[1]] + 1), 2):
                    out.append((a, c, r1, r2))
    return out


def in_boundary(nd, nx, f):
    """The fracture lies in the boundary of the index box [0, nx]."""
    b = frac_box_2d(f) if nd == 2 else frac_box_3d(f)
    return any(lo == hi and lo in (0, nx[ax]) for ax, (lo, hi) in enumerate(b))


def frac_of(x):
    """Exact rational meant by a decimal input number (0.1 -> 1/10)."""
    return Fraction(x).limit_denominator(10**6)


def grid_lines(nd, nx, phys, origin, pts):
    """Exact (rational) node lines of the expected grid, one list per axis: the user-supplied node lines ``pts[i]`` where
    given (tensor grids), else the uniform lines  origin_i + k * L_i / n_i.  None when given node lines are not strictly
    increasing, do not have nx[i] + 1 entries or do not start / end on the domain boundary (outside the contract)."""
    lines = []
    for i in range(nd):
        o = frac_of(origin[i]) if origin is not None else Fraction(0)
        if pts is not None and pts[i] is not None:
            l = [frac_of(v) for v in pts[i]]
            if len(l) != nx[i] + 1 or any(b <= a for a, b in zip(l, l[1:])) or l[0] != o or l[-1] != o + frac_of(phys[i]):
                return None
        else:
            step = frac_of(phys[i]) / nx[i]
            l = [o + k * step for k in range(nx[i] + 1)]
        lines.append(l)
    return lines


def cells_for(L, cell_size):
    """Number of cells of the uniform grid whose cell size is closest to the target: round(L / cell_size), at least 1, in
    exact arithmetic.  None when L / cell_size is a tie (k + 1/2): such targets are outside the contract."""
    q = frac_of(L) / frac_of(cell_size)
    if (2 * q).denominator == 1 and q.denominator != 1:
        return None
    return max(1, int(q + Fraction(1, 2)))


def to_arrays(fracs, lines, nd, np, reverse=False):
    """Physical vertex arrays of the fractures: vertex with grid index k on axis i is the float nearest to the exact
    rational node line ``lines[i][k]`` (uniform grids: origin_i + k * L_i / n_i), so the input really is a grid line of
    the expected grid."""
    arrs = []
    for f in fracs:
        if nd == 2:
            o, c, lo, hi = f
            pts = [(lo, c), (hi, c)] if o == "h" else [(c, lo), (c, hi)]
        else:
            b = frac_box_3d(f)
            a = f[0]
            o1, o2 = [ax for ax in range(3) if ax != a]
            corners = [(b[o1][0], b[o2][0]), (b[o1][1], b[o2][0]), (b[o1][1], b[o2][1]), (b[o1][0], b[o2][1])]
            pts = []
            for u, v in corners:
                p = [0, 0, 0]
                p[a], p[o1], p[o2] = b[a][0], u, v
                pts.append(tuple(p))
        if reverse:
            pts = pts[::-1]
        arrs.append(np.array([[float(lines[ax][p[ax]]) for p in pts] for ax in range(nd)], dtype=float))
    return arrs


# ----------------------------------------------------------------------------- the contract


def check_case(pp, np, nd, nx, phys, fracs, reverse=False, tol_rel=1e-12, entry="cart_grid", origin=None, cell_size=None, pts=None):
    """Mesh the case with the real code and evaluate the postconditions.

    entry "cart_grid": ``pp.meshing.cart_grid(fracs, nx, physdims=phys)`` on the box [0, phys].
    entry "tensor_grid": ``pp.meshing.tensor_grid(fracs, x, y(, z))`` with the node lines ``pts`` (one tuple per axis).
    entry "create_mdg:cartesian" / "create_mdg:tensor_grid": ``pp.create_mdg(grid_type, meshing_args, network)`` with
    ``network = pp.create_fracture_network(fractures, pp.Domain(box))``, box = [origin, origin + phys], meshing_args =
    {"cell_size": h} (or cell_size_x/_y/_z when ``cell_size`` is a tuple; cartesian only); for tensor_grid in addition
    {"x_pts" / "y_pts" / "z_pts": pts[i]} on the axes where ``pts[i]`` is not None (``cell_size`` may then be None when all
    axes have node lines).  On the axes without given node lines ``nx`` must be the cell counts of the uniform grid closest
    to the target size (``cells_for``), on the axes with node lines len(pts[i]) - 1, else the case is skipped; the
    fractures are given in index coordinates of that grid, i.e. they lie on the lines origin + k * phys / nx of the given
    domain, resp. on the given node lines.

    Returns (status, failures, info): status in {'ok', 'skip'}; failures = list of (obligation, detail)."""
    boxes = [frac_box_2d(f) if nd == 2 else frac_box_3d(f) for f in fracs]
    model = network_model(boxes, nd)
    if model is None:
        return "skip", [], {}
    given = [pts is not None and pts[i] is not None for i in range(nd)]
    if entry == "tensor_grid" and not all(given):
        return "skip", [], {}
    if any(given) and entry not in ("tensor_grid", "create_mdg:tensor_grid"):
        return "skip", [], {}
    if entry.startswith("create_mdg"):
        if cell_size is None and not all(given):
            return "skip", [], {}
        sizes = list(cell_size) if isinstance(cell_size, (tuple, list)) else [cell_size] * nd
        if len(sizes) != nd or any(not given[i] and cells_for(phys[i], sizes[i]) != nx[i] for i in range(nd)):
            return "skip", [], {}
    lines = grid_lines(nd, nx, phys, origin, pts)
    if lines is None:
        return "skip", [], {}
    arrs = to_arrays(fracs, lines, nd, np, reverse)
    lo_x = [frac_of(origin[i]) if origin is not None else Fraction(0) for i in range(nd)]
    lo_f = [float(x) for x in lo_x]
    hi_f = [float(lo_x[i] + frac_of(phys[i])) for i in range(nd)]
    fails = []

    def bad(ob, detail):
        fails.append((ob, detail))

    fn = entry if entry in ("cart_grid", "tensor_grid") else "create_mdg"
    try:
        if entry == "cart_grid":
            mdg = pp.meshing.cart_grid(arrs, np.array(nx), physdims=np.array(phys, dtype=float))
        elif entry == "tensor_grid":
            mdg = pp.meshing.tensor_grid(arrs, *[np.array([float(v) for v in pts[i]], dtype=float) for i in range(nd)])
        else:
            grid_type = entry.split(":")[1]
            keys = "xyz"
            box = {}
            for i in range(nd):
                box[keys[i] + "min"], box[keys[i] + "max"] = lo_f[i], hi_f[i]
            domain = pp.Domain(box)
            fr = [pp.LineFracture(a) if nd == 2 else pp.PlaneFracture(a) for a in arrs]
            network = pp.create_fracture_network(fr, domain)
            if isinstance(cell_size, (tuple, list)):
                margs = {"cell_size_" + keys[i]: float(cell_size[i]) for i in range(nd)}
            elif cell_size is not None:
                margs = {"cell_size": float(cell_size)}
            else:
                margs = {}
            for i in range(nd):
                if given[i]:
                    margs[keys[i] + "_pts"] = np.array([float(v) for v in pts[i]], dtype=float)
            mdg = pp.create_mdg(grid_type, margs, network)
    except Exception as e:  # noqa: BLE001
        return "ok", [(f"{fn}: returns a mixed-dimensional grid for an admissible network", f"{type(e).__name__}: {str(e)[:200]}")], {}
    scale = float(max(max(abs(a), abs(b)) for a, b in zip(lo_f, hi_f)))
    tol = tol_rel * scale
    if nd == 3 and tol_rel > 1e-12:
        tol = max(tol, 1e-10)  # structured._create_embedded_2d_grid rounds to 1e-10 absolute, whatever the domain size
    # positions with "twice-index" 2k (node line k) and 2k + 1 (midpoint of the lines k, k + 1) per axis
    cand = [np.array([float(l[k // 2]) if k % 2 == 0 else float((l[k // 2] + l[k // 2 + 1]) / 2) for k in range(2 * len(l) - 1)])
            for l in lines]
    width = [[float(b - a) for a, b in zip(l, l[1:])] for l in lines]

    def c2_of(x):
        """Twice the index coordinates of a physical point (nearest node line / cell midpoint per axis), and the distance to
        that position in physical units."""
        x = np.asarray(x)
        idx, err = [], 0.0
        for ax in range(nd):
            d = np.abs(cand[ax] - float(x[ax]))
            k = int(np.argmin(d))
            idx.append(k)
            err = max(err, float(d[k]))
        if nd == 2:
            err = max(err, abs(float(x[2])))
        return tuple(idx), err

    def measure_of(c2):
        m = 1.0
        for ax, v in enumerate(c2):
            if v % 2 == 1:
                m *= width[ax][v // 2]
        return m

    subs = mdg.subdomains()
    hosts = [g for g in subs if g.dim == nd]
    # ---- (4) host volume and cell count
    if len(hosts) != 1:
        bad(f"{fn}: exactly one host grid of the ambient dimension", f"{len(hosts)} grids of dimension {nd}")
        return "ok", fails, {}
    host = hosts[0]
    dom = 1.0
    for p in phys:
        dom *= float(p)
    # the host is a mesh of the given domain: it lies in the domain's box and has the domain's volume (cart_grid: and has
    # the requested number of cells, nx being an input there)
    ext_lo, ext_hi = host.nodes[:nd].min(axis=1), host.nodes[:nd].max(axis=1)
    inside = all(ext_lo[i] >= lo_f[i] - 1e-9 * scale and ext_hi[i] <= hi_f[i] + 1e-9 * scale for i in range(nd))
    if nd == 2:
        inside = inside and float(np.max(np.abs(host.nodes[2]))) <= 1e-9 * scale
    # (the cell count is an input for cart_grid (nx) and where node lines are given on every axis)
    count_ok = not (entry == "cart_grid" or all(given)) or host.num_cells == int(np.prod(nx))
    if abs(float(host.cell_volumes.sum()) - dom) > 1e-12 * dom or not inside or not count_ok:
        bad("host: volume equals the domain volume",
            f"sum(cell_volumes)={host.cell_volumes.sum()!r} domain volume={dom!r} cells={host.num_cells}; host extent "
            f"{ext_lo.tolist()}..{ext_hi.tolist()} domain {lo_f}..{hi_f}")
        # without a host that tiles the given domain the grid-line model of the remaining clauses has no meaning
        return "ok", fails, {}

    # ---- (5) lower-dimensional grids tile exactly the fractures and their intersections
    cellsets = {}
    for g in subs:
        cs = []
        worst = 0.0
        for c in range(g.num_cells):
            c2, err = c2_of(g.cell_centers[:, c])
            worst = max(worst, err)
            cs.append(c2)
            if abs(float(g.cell_volumes[c]) - measure_of(c2)) > tol_rel * max(1.0, scale ** g.dim) and g.dim < nd:
                bad("lower-dimensional cells: measure equals the measure of their unit cell", f"dim {g.dim} cell {c}: {g.cell_volumes[c]!r} expected {measure_of(c2)!r}")
        if worst > tol:
            bad("lower-dimensional cells: centres lie on grid lines/planes", f"dim {g.dim}: centre off by {worst:.3e}")
        cellsets[g] = cs
    fr_grids = [g for g in subs if g.dim == nd - 1]
    nums = sorted(getattr(g, "frac_num", None) for g in fr_grids)
    if nums != list(range(len(fracs))):
        bad("fractures: one grid of dimension nd-1 per fracture (frac_num)", f"frac_num values {nums} for {len(fracs)} fractures")
    else:
        for g in fr_grids:
            k = g.frac_num
            if sorted(cellsets[g]) != sorted(model["frac_cells"][k]) or len(set(cellsets[g])) != g.num_cells:
                bad("fractures: cells lie on their fracture and tile it exactly", f"fracture {k} {fracs[k]}: {len(cellsets[g])} cells, expected {len(model['frac_cells'][k])}")
    low = [g for g in subs if g.dim == nd - 2]
    got_low = [c for g in low for c in cellsets[g]]
    if sorted(got_low) != sorted(model["low_cells"]):
        bad("intersections: (nd-2)-grids tile exactly the pairwise intersections",
            f"{len(got_low)} cells (distinct {len(set(got_low))}) expected {len(model['low_cells'])}")
    if nd == 3:
        pts = [c for g in subs if g.dim == 0 for c in cellsets[g]]
        if sorted(pts) != sorted(model["points"]):
            bad("intersections: 0-d grids are the meeting points of intersection lines", f"got {sorted(pts)} expected {sorted(model['points'])}")

    # ---- region of every grid (oracle side): host = domain, fracture k = its box, lower = extent of its own tiles
    def region(g):
        if g.dim == nd:
            return tuple((0, n) for n in nx)
        if g.dim == nd - 1 and hasattr(g, "frac_num") and 0 <= g.frac_num < len(boxes):
            return boxes[g.frac_num]
        cs = cellsets[g]
        return tuple((min(c[ax] for c in cs) // 2, -((-max(c[ax] for c in cs)) // 2)) for ax in range(nd))

    # ---- interfaces
    coupled_faces = {g: set() for g in subs}
    seen_pairs = set()
    n_one_sided = 0
    for intf in mdg.interfaces():
        hi, lo = mdg.interface_to_subdomain_pair(intf)
        seen_pairs.add((hi, lo))
        tag = f"interface {hi.dim}d-{lo.dim}d"
        if hi.dim != lo.dim + 1 or intf.dim != lo.dim or intf.codim != 1:
            bad("interfaces: couple grids one dimension apart, mortar has the lower dimension", f"{tag}: mortar dim {intf.dim} codim {intf.codim}")
            continue
        fc = mdg.interface_data(intf)["face_cells"].tocsr()
        if fc.shape != (lo.num_cells, hi.num_faces):
            bad("interfaces: face_cells has shape (cells of lower grid, faces of higher grid)", f"{tag}: {fc.shape}")
            continue
        reg = region(hi)
        cf_hi = hi.cell_faces.tocsr()
        all_two = True
        for c in range(lo.num_cells):
            faces = fc.indices[fc.indptr[c]:fc.indptr[c + 1]]
            c2 = cellsets[lo][c]
            exp_sides = 2 if strictly_inside(c2, reg) else 1
            if not in_box(c2, reg):
                bad("interfaces: exactly between a grid and the objects lying in it", f"{tag}: cell centre {c2} (x2 index) outside the higher object {reg}")
            if exp_sides == 1:
                n_one_sided += 1
                all_two = False
            if len(faces) != exp_sides or len(set(faces.tolist())) != len(faces):
                bad("coupling: one host face per side (one side where a fracture ends)",
                    f"{tag}: cell {c} at x2-index {c2} coupled to {len(faces)} faces, expected {exp_sides}")
                continue
            outward = []
            for f in faces:
                coupled_faces[hi].add(int(f))
                row = cf_hi.indices[cf_hi.indptr[f]:cf_hi.indptr[f + 1]]
                sgn = cf_hi.data[cf_hi.indptr[f]:cf_hi.indptr[f + 1]]
                if len(row) != 1:
                    bad("coupling: coupled faces are split faces with one neighbour cell", f"{tag}: face {f} has {len(row)} cells")
                    continue
                d = float(np.max(np.abs(hi.face_centers[:, f] - lo.cell_centers[:, c])))
                if d > tol:
                    bad("coupling: coupled face and cell coincide in centre", f"{tag}: cell {c} face {f}: distance {d:.3e}")
                a_f, v_c = float(hi.face_areas[f]), float(lo.cell_volumes[c])
                if abs(a_f - v_c) > tol_rel * max(1.0, abs(v_c)) * max(1.0, scale):
                    bad("coupling: coupled face and cell coincide in measure", f"{tag}: face area {a_f!r} cell volume {v_c!r}")
                n_out = hi.face_normals[:, f] * float(sgn[0])
                if abs(float(np.linalg.norm(n_out)) - a_f) > tol_rel * max(1.0, a_f) * max(1.0, scale):
                    bad("coupling: face normal has the length of the face measure", f"{tag}: |n|={np.linalg.norm(n_out)!r} area {a_f!r}")
                outward.append(n_out)
            if len(outward) == 2:
                s = float(np.max(np.abs(outward[0] + outward[1])))
                if s > tol_rel * max(1.0, float(np.linalg.norm(outward[0]))) * max(1.0, scale):
                    bad("coupling: the two coupled faces have opposite outward normals", f"{tag}: cell {c}: n1+n2 = {(outward[0] + outward[1]).tolist()}")
        # ---- (6) mortar sides
        exp_ns = 2 if all_two else 1
        if intf.num_sides() != exp_ns:
            bad("mortar: two side grids where every cell is coupled on both sides, else one", f"{tag}: {intf.num_sides()} sides expected {exp_ns}")
        for side, sg in intf.side_grids.items():
            ok = sg.num_cells == lo.num_cells and sg.dim == lo.dim
            if ok:
                ok = float(np.max(np.abs(sg.cell_volumes - lo.cell_volumes), initial=0.0)) <= tol_rel * max(1.0, scale ** lo.dim) and \
                    float(np.max(np.abs(sg.cell_centers - lo.cell_centers), initial=0.0)) <= tol
            if not ok:
                bad("mortar: side grids match the lower cells in number, centre, size", f"{tag}: side {side}: {sg.num_cells} cells vs {lo.num_cells}")
        if intf.num_cells != exp_ns * lo.num_cells:
            bad("mortar: side grids match the lower cells in number, centre, size", f"{tag}: mortar cells {intf.num_cells}")
            continue
        # the coupling seen through the mortar projections: mortar cell m = side*n + c <-> one face of cell c, one per side
        P = intf.primary_to_mortar_int().tocsr()
        S = intf.secondary_to_mortar_int().tocsr()
        n = lo.num_cells
        okp = P.shape == (intf.num_cells, hi.num_faces) and S.shape == (intf.num_cells, n)
        side_dirs = {}
        if okp:
            for m in range(intf.num_cells):
                cols, vals = P.indices[P.indptr[m]:P.indptr[m + 1]], P.data[P.indptr[m]:P.indptr[m + 1]]
                cs_, vs_ = S.indices[S.indptr[m]:S.indptr[m + 1]], S.data[S.indptr[m]:S.indptr[m + 1]]
                nzp = [(int(a), float(b)) for a, b in zip(cols, vals) if b != 0]
                nzs = [(int(a), float(b)) for a, b in zip(cs_, vs_) if b != 0]
                c = m % n
                faces = set(fc.indices[fc.indptr[c]:fc.indptr[c + 1]].tolist())
                if not (len(nzp) == 1 and nzp[0][1] == 1.0 and nzp[0][0] in faces and nzs == [(c, 1.0)]):
                    okp = False
                    break
                f = nzp[0][0]
                row = cf_hi.indices[cf_hi.indptr[f]:cf_hi.indptr[f + 1]]
                if len(row) == 1:
                    n_out = hi.face_normals[:, f] * float(cf_hi.data[cf_hi.indptr[f]])
                    side_dirs.setdefault(m // n, []).append(n_out / max(float(np.linalg.norm(n_out)), 1e-300))
            if okp and intf.num_sides() == 2:
                used = [int(P.indices[P.indptr[m]]) for m in range(intf.num_cells)]
                okp = len(set(used)) == len(used)
        if not okp:
            bad("mortar: cell (side, c) projects to cell c and one host face per side", tag)
        else:
            for sd_, dirs in side_dirs.items():
                ref = dirs[0]
                if any(float(np.dot(ref, d)) < 1.0 - 1e-9 for d in dirs):
                    bad("mortar: faces of one side lie on one geometric side", f"{tag}: side {sd_}")

    # ---- interfaces exist exactly between a grid and the lower-dimensional objects lying in it
    for hi in subs:
        for lo in subs:
            if hi.dim != lo.dim + 1:
                continue
            reg = region(hi)
            exp = all(in_box(c2, reg) for c2 in cellsets[lo]) and len(cellsets[lo]) > 0
            if exp != ((hi, lo) in seen_pairs):
                bad("interfaces: exactly between a grid and the objects lying in it",
                    f"{hi.dim}d-{lo.dim}d pair: expected {'an' if exp else 'no'} interface, lower cells {cellsets[lo][:3]} higher object {reg}")

    # ---- (3) fracture-face tags mark exactly the coupled faces
    for g in subs:
        if g.dim == 0:
            continue
        tagged = set(np.where(g.tags["fracture_faces"])[0].tolist())
        if tagged != coupled_faces[g]:
            bad("tags: fracture_faces marks exactly the coupled faces", f"{g.dim}d grid: tagged {len(tagged)} coupled {len(coupled_faces[g])} difference {sorted(tagged ^ coupled_faces[g])[:6]}")
    # two per fracture cell in the interior of the domain, one per fracture cell lying in the domain boundary (one side only)
    reg_host = tuple((0, n) for n in nx)
    exp_host = sum(2 if strictly_inside(c2, reg_host) else 1 for s in model["frac_cells"] for c2 in s)
    if len(coupled_faces[host]) != exp_host:
        bad("coupling: the host has two coupled faces per fracture cell",
            f"{len(coupled_faces[host])} coupled host faces expected {exp_host} (two per fracture cell, one per fracture cell in the domain boundary)")
    info = {"one_sided": n_one_sided, "n_low": len(model["low_cells"]), "n_pts": len(model["points"]) if nd == 3 else len(model["low_cells"]),
            "interfaces": len(seen_pairs)}
    return "ok", fails, info


def classify(nd, fracs):
    """Configuration class of a fracture set, from the box model only (used as violation signature)."""
    n = len(fracs)
    if n == 0:
        return "no fracture"
    boxes = [frac_box_2d(f) if nd == 2 else frac_box_3d(f) for f in fracs]
    model = network_model(boxes, nd)
    if model is None:
        return "overlapping"
    if not model["low_cells"]:
        kind = "isolated"
    elif all(strictly_inside(c, b) for c in model["low_cells"] for b in boxes if in_box(c, b)):
        kind = "X crossing"
    else:
        kind = "T/L/end contact"
    return f"{nd}-d, {n} fracture{'s' if n > 1 else ''}, {kind}"


def signature_of(entry, nd, nx, phys, fracs, origin, cell_size, pts=None):
    """Failing-input class used as violation signature.  cart_grid / tensor_grid: the fracture configuration (with a marker
    when a fracture lies in the domain boundary).  create_mdg: grid type and the class of (domain, cell size / node lines),
    independent of the fractures."""
    bnd = ", fracture in the domain boundary" if any(in_boundary(nd, nx, f) for f in fracs) else ""
    if entry == "cart_grid":
        return classify(nd, fracs) + bnd
    if entry == "tensor_grid":
        return "tensor_grid (given node lines), " + classify(nd, fracs) + bnd
    gt = entry.split(":")[1]
    if pts is not None and any(p is not None for p in pts):
        axes = "/".join("xyz"[i] + "_pts" for i in range(nd) if pts[i] is not None)
        return f"create_mdg {gt}, {nd}-d, node lines {axes} given" + (" with cell_size for the other axes" if cell_size is not None else "") + bnd
    if bnd:
        return f"create_mdg {gt}, {nd}-d" + bnd
    if origin is not None and any(frac_of(o) != 0 for o in origin):
        return f"create_mdg {gt}, domain lower corner not at the origin"
    sizes = list(cell_size) if isinstance(cell_size, (tuple, list)) else [cell_size] * nd
    divides = all((frac_of(phys[i]) / frac_of(sizes[i])).denominator == 1 for i in range(nd))
    return f"create_mdg {gt}, {nd}-d, cell size {'dividing' if divides else 'not dividing'} the side lengths"


# ----------------------------------------------------------------------------- families


def mdg_families(tier, rng):
    """pp.create_mdg cases: yields (nd, nx, phys, fracs, reverse, tol_rel, entry, origin, cell_size)."""
    quick = tier == "quick"
    both = ("cartesian", "tensor_grid")
    # ---- 2-D: (origin, side lengths, target cell size, grid types); nx = round(L / h) from cells_for
    cfg2 = [
        # size not dividing the side: 3 x 3 cells of size 1/3; X crossing, one fracture reaching the boundary x = 1
        ((0, 0), (1.0, 1.0), 0.3, both, [(("h", 2, 1, 3), ("v", 2, 1, 3))]),
        # 6 x 3 cells of size 1/3; L contact
        ((0, 0), (2.0, 1.0), 0.35, both, [(("h", 1, 1, 4), ("v", 4, 1, 3))]),
        ((0, 0), (1.0, 1.0), 0.25, both, []),           # dividing (control)
        ((0, 0), (0.9, 1.0), (0.3, 0.25), ("cartesian",), []),   # cell_size_x / cell_size_y, decimal spacing
        # lower corner not at the origin: [1, 3] x [0, 1], fracture from (1.5, 0.5) to (2.5, 0.5)
        ((1.0, 0), (2.0, 1.0), 0.5, both, [(("h", 1, 1, 3),)]),
        # lower corner with a negative and a positive coordinate: [-0.5, 0.5] x [0.25, 1]
        ((-0.5, 0.25), (1.0, 0.75), 0.25, both, [(("h", 1, 0, 3),), (("v", 3, 1, 3),)]),
        ((0, 0.5), (1.0, 1.0), 0.3, both, []),          # only ymin non-zero, size not dividing
    ]
    for org, L, cs, types, fixed in cfg2:
        sizes = cs if isinstance(cs, tuple) else (cs, cs)
        nx = tuple(cells_for(L[i], sizes[i]) for i in range(2))
        F = all_fracs_2d(nx)
        singles = [(f,) for f in F]
        pairs = list(itertools.combinations(F, 2))
        for gt in types:
            sets = list(fixed) + rng.sample(singles, min(len(singles), 3 if quick else 20)) + rng.sample(pairs, min(len(pairs), 5 if quick else 150))
            for fs in sets:
                yield 2, nx, L, fs, False, 1e-12, "create_mdg:" + gt, org, cs
    # ---- 3-D
    cfg3 = [
        # unit cube, size 0.3 not dividing the side: 3 x 3 x 3 cells
        ((0, 0, 0), (1.0, 1.0, 1.0), 0.3, both,
         [((2, 2, (1, 3), (1, 2)),), ((0, 1, (0, 3), (0, 3)), (1, 2, (0, 3), (1, 3)))], 2, 2),
        # 10 cm cube, cells 0.02 x 0.05 x 0.05: every interior plane x = k * 0.02 (decimal spacing), X and T with a z-plane
        ((0, 0, 0), (0.1, 0.1, 0.1), (0.02, 0.05, 0.05), ("cartesian",),
         [((0, k, (0, 2), (0, 2)),) for k in (1, 2, 3, 4)] +
         [((0, 3, (0, 2), (0, 2)), (2, 1, (1, 5), (0, 2))), ((0, 3, (0, 2), (0, 2)), (2, 1, (3, 5), (0, 2)))], 0, 0),
        # box 1.2 x 1 x 1, cells 0.1 x 0.5 x 0.5: plane x = 0.7, alone and crossed by the plane z = 0.5
        ((0, 0, 0), (1.2, 1.0, 1.0), (0.1, 0.5, 0.5), ("cartesian",),
         [((0, 7, (0, 2), (0, 2)),), ((0, 7, (0, 2), (0, 2)), (2, 1, (4, 10), (0, 2)))], 0, 0),
        # 10 cm cube, tensor grid with 2 x 2 x 2 cells
        ((0, 0, 0), (0.1, 0.1, 0.1), 0.05, ("tensor_grid",),
         [((0, 1, (0, 2), (0, 1)),), ((0, 1, (0, 2), (0, 2)), (1, 1, (1, 2), (0, 2)))], 0, 0),
        # lower corner not at the origin
        ((1.0, -0.5, 0), (1.0, 1.0, 1.0), 0.5, both,
         [((0, 1, (0, 2), (0, 2)),), ((0, 1, (0, 2), (0, 2)), (1, 1, (0, 1), (0, 2)))], 1, 0),
        ((0, 0, 0.4), (1.0, 1.0, 0.6), 0.3, both, [((2, 1, (0, 3), (1, 3)),)], 1, 0),
    ]
    for org, L, cs, types, fixed, n1, n2 in cfg3:
        sizes = cs if isinstance(cs, tuple) else (cs, cs, cs)
        nx = tuple(cells_for(L[i], sizes[i]) for i in range(3))
        F = all_fracs_3d(nx)
        pairs = list(itertools.combinations(F, 2))
        dyadic = all(((frac_of(L[i]) / nx[i]).denominator & ((frac_of(L[i]) / nx[i]).denominator - 1)) == 0 for i in range(3))
        for gt in types:
            sets = list(fixed) + [(f,) for f in rng.sample(F, n1 if quick else 6 * n1)] + rng.sample(pairs, n2 if quick else 20 * n2)
            for fs in sets:
                yield 3, nx, L, fs, False, (1e-12 if dyadic else 1e-9), "create_mdg:" + gt, org, cs


def families(tier, rng):
    """Yields (nd, nx, phys, fracs, reverse, tol_rel, entry, origin, cell_size, pts)."""
    for case in cart_families(tier, rng):
        yield case + ("cart_grid", None, None, None)
    for case in mdg_families(tier, rng):
        yield case + (None,)
    # the added families come last so that the seeded samples of the families above are unchanged
    yield from boundary_families(tier, rng)
    yield from node_line_families(tier, rng)


def _sets_upto2(F, must=None):
    """All sets of one or two fractures from F (containing at least one fracture of ``must`` when given)."""
    sets = [(f,) for f in F] + list(itertools.combinations(F, 2))
    if must is not None:
        m = set(must)
        sets = [s for s in sets if any(f in m for f in s)]
    return sets


def boundary_families(tier, rng):
    """Fractures lying in the domain boundary (alone, with interior fractures ending on / crossing towards them, with other
    boundary fractures, meeting in a domain corner): such a fracture has the host on one side only, so each of its cells is
    coupled to exactly one host face (a face with one neighbour cell), which must carry the fracture_faces tag; an interior
    fracture ending on it is coupled to the intersection point through its end face, which lies in the domain boundary.
    Yields (nd, nx, phys, fracs, reverse, tol_rel, entry, origin, cell_size, pts)."""
    quick = tier == "quick"
    # ---- 2-D, 3x3 unit grid, cart_grid: every single boundary fracture; pairs and triples with at least one boundary fracture
    nx = (3, 3)
    B, F = boundary_fracs_2d(nx), all_fracs_2d(nx)
    for f in B:
        yield 2, nx, (3, 3), (f,), False, 1e-12, "cart_grid", None, None, None
    fixed = [
        (("v", 0, 0, 3), ("h", 2, 0, 2)),                      # T: interior fracture ending on the boundary fracture
        (("v", 0, 1, 3), ("h", 1, 0, 2)),                      # L on the boundary
        (("v", 0, 0, 3), ("h", 0, 0, 3)),                      # two boundary fractures meeting in the domain corner
        (("h", 3, 0, 3), ("h", 1, 1, 3), ("v", 2, 0, 3)),      # boundary fracture + interior X, one fracture ending on the boundary one
        (("v", 3, 0, 2), ("v", 3, 2, 3)),                      # end to end in the boundary
    ]
    pairs = [s for s in _sets_upto2(B + F, must=B) if len(s) == 2]
    triples = [(b,) + s for b in B for s in itertools.combinations(F, 2)]
    sets = fixed + rng.sample(pairs, 110 if quick else len(pairs)) + rng.sample(triples, 40 if quick else 1500)
    for fs in sets:
        yield 2, nx, (3, 3), fs, False, 1e-12, "cart_grid", None, None, None
    # ---- 2-D, other resolutions / physical sizes (dyadic and decimal spacing), vertex order reversed
    for nx2, phys in (((4, 3), (2.0, 0.75)), ((3, 2), (0.9, 0.7)), ((2, 5), (1.0, 0.1))):
        B2, F2 = boundary_fracs_2d(nx2), all_fracs_2d(nx2)
        sets2 = _sets_upto2(B2 + F2, must=B2)
        for fs in rng.sample(sets2, min(len(sets2), 25 if quick else 400)):
            yield 2, nx2, phys, fs, True, 1e-12, "cart_grid", None, None, None
    # Not part of the family (behaviour of the unchanged library, see the module docstring): pp.create_mdg removes a fracture
    # lying in the domain boundary (impose_external_boundary, with a warning); in 3-D cart_grid / tensor_grid raise for a
    # rectangle lying in a boundary plane.


def node_line_families(tier, rng):
    """Tensor grids with user-supplied node lines: ``pp.meshing.tensor_grid(fracs, x, y(, z))`` and ``pp.create_mdg(
    "tensor_grid", {"x_pts": .., "y_pts": .. (, "z_pts": ..)} | {"cell_size": h, "<axis>_pts": ..}, network)``.  The lines are
    non-uniform and differ between the axes (in number, in extent, or - same number and extent - in grading only); the
    fractures lie on the given lines (interior lines; in 2-D through pp.meshing.tensor_grid also the domain boundary).
    Yields (nd, nx, phys, fracs, reverse, tol_rel, entry, origin, cell_size, pts)."""
    quick = tier == "quick"

    def geom(pts):
        nx = tuple(len(p) - 1 for p in pts)
        org = tuple(p[0] for p in pts)
        phys = tuple(float(frac_of(p[-1]) - frac_of(p[0])) for p in pts)
        return nx, org, phys

    cfg2 = [
        ((0, 0.3, 0.7, 1.5, 2.0), (0, 0.5, 0.6, 1.0)),                    # 2 x 1 domain, 4 x 3 cells
        ((0, 0.25, 0.5, 0.75, 1.0), (0, 0.1, 0.3, 0.6, 1.0)),             # same extent and number of lines, different grading
        ((-1.0, -0.4, 0.1, 1.0), (2.0, 2.5, 3.5)),                        # lower corner not at the origin
        ((0, 0.5, 1.0), (0, 1.0, 1.5, 2.0, 3.0)),                         # more lines in y than in x
    ]
    for pts in (cfg2 if not quick else cfg2[:3]):
        nx, org, phys = geom(pts)
        F, B = all_fracs_2d(nx), boundary_fracs_2d(nx)
        inner, withb = _sets_upto2(F), _sets_upto2(B + F, must=B)
        for entry in ("tensor_grid", "create_mdg:tensor_grid"):
            n1, n2 = ((9, 5) if quick else (150, 120))
            sets = [()] + rng.sample(inner, min(len(inner), n1))
            if entry == "tensor_grid":
                # fractures lying in the domain boundary: direct entry point only (create_mdg removes them, see boundary_families)
                sets += rng.sample(withb, min(len(withb), n2))
            for i, fs in enumerate(sets):
                yield 2, nx, phys, fs, bool(i % 2), 1e-12, entry, org, None, pts
    # cell_size for one axis, node lines for the other
    mixed2 = [
        ((0, 0), (1.0, 3.0), 0.25, (None, (0, 1.0, 1.5, 2.0, 3.0))),       # x: 4 uniform cells, y: given lines
        ((0, 0), (2.0, 1.0), 0.3, ((0, 0.3, 0.7, 1.5, 2.0), None)),        # x: given lines, y: 3 uniform cells (size not dividing)
        ((0.5, -1.0), (1.0, 1.0), 0.5, (None, (-1.0, -0.9, -0.5, 0))),     # lower corner not at the origin
    ]
    for org, phys, cs, pts in mixed2:
        nx = tuple(len(pts[i]) - 1 if pts[i] is not None else cells_for(phys[i], cs) for i in range(2))
        inner = _sets_upto2(all_fracs_2d(nx))
        for fs in [()] + rng.sample(inner, min(len(inner), 6 if quick else 150)):
            yield 2, nx, phys, fs, False, 1e-12, "create_mdg:tensor_grid", org, cs, pts
    # ---- 3-D
    cfg3 = [
        ((0, 0.2, 0.5, 1.0), (0, 0.5, 1.0), (0, 0.25, 1.0)),
        ((0, 0.5, 1.0), (0, 0.1, 0.4, 1.0), (0, 0.6, 1.0)),
        ((1.0, 1.5, 3.0), (-0.5, 0, 0.25), (0, 0.25, 0.5, 2.0)),           # dyadic lines, lower corner not at the origin
    ]
    for j, pts in enumerate(cfg3 if not quick else cfg3[:2]):
        nx, org, phys = geom(pts)
        inner = _sets_upto2(all_fracs_3d(nx))
        # 1e-9: structured._create_embedded_2d_grid centres the fracture nodes at their mean (not a binary fraction for
        # non-uniform lines, also dyadic ones) and rounds to 1e-10
        tolr = 1e-9
        for entry in ("tensor_grid", "create_mdg:tensor_grid"):
            for i, fs in enumerate(rng.sample(inner, 6 if quick else 150)):
                yield 3, nx, phys, fs, bool(i % 2), tolr, entry, org, None, pts
    # cell_size for x and y, node lines for z
    org, phys, cs, pts = (0, 0, 0), (1.0, 1.0, 1.0), 0.5, (None, None, (0, 0.25, 0.5, 1.0))
    nx = (2, 2, 3)
    inner = _sets_upto2(all_fracs_3d(nx))
    for fs in rng.sample(inner, 4 if quick else 100):
        yield 3, nx, phys, fs, False, 1e-9, "create_mdg:tensor_grid", org, cs, pts


def cart_families(tier, rng):
    """pp.meshing.cart_grid cases: yields (nd, nx, phys, fracs, reverse, tol_rel)."""
    quick = tier == "quick"
    # ---- 2-D base grid 3x3, unit cells: exhaustive over sets of <= 2 (quick) / <= 3 (thorough) fractures
    nx = (3, 3)
    F = all_fracs_2d(nx)
    for k in (2, 1, 0):
        for fs in itertools.combinations(F, k):
            yield 2, nx, (3, 3), fs, False, 1e-12
    triples = list(itertools.combinations(F, 3))
    if quick:
        triples = rng.sample(triples, 260)
    for fs in triples:
        yield 2, nx, (3, 3), fs, False, 1e-12
    # ---- 2-D other resolutions and physical sizes (dyadic and non-dyadic spacing), vertex order reversed
    for nx2, phys in (((4, 3), (2.0, 0.75)), ((2, 4), (1.0, 1.0)), ((3, 2), (1.0, 0.7))):
        F2 = all_fracs_2d(nx2)
        sets2 = list(itertools.combinations(F2, 1)) + list(itertools.combinations(F2, 2))
        sets2 = rng.sample(sets2, min(len(sets2), 60 if quick else 600))
        for fs in sets2:
            yield 2, nx2, phys, fs, True, 1e-12
    # ---- 3-D base grid 2x2x2
    nx3 = (2, 2, 2)
    F3 = all_fracs_3d(nx3)
    yield 3, nx3, (2, 2, 2), (), False, 1e-12
    for f in F3:
        yield 3, nx3, (2, 2, 2), (f,), False, 1e-12
    pairs = list(itertools.combinations(F3, 2))
    # hand-picked: X, T, L, three orthogonal planes through the centre, corner of three planes
    full = [(a, 1, (0, 2), (0, 2)) for a in range(3)]
    picked = [
        (full[0], full[1]), (full[0], full[1], full[2]),
        ((0, 1, (0, 2), (0, 2)), (1, 1, (1, 2), (0, 2))),  # T
        ((0, 1, (0, 1), (0, 2)), (1, 1, (1, 2), (0, 2))),  # L
        ((0, 1, (0, 1), (0, 1)), (1, 1, (1, 2), (0, 1)), (2, 1, (1, 2), (0, 1))),  # three planes meeting in a corner
        ((0, 1, (0, 2), (0, 2)), (1, 1, (0, 1), (0, 2)), (2, 1, (0, 2), (0, 1))),
        ((0, 1, (0, 1), (0, 2)), (0, 1, (1, 2), (0, 2))),  # coplanar, sharing an edge
    ]
    for fs in picked:
        yield 3, nx3, (2, 2, 2), fs, False, 1e-12
    for fs in (rng.sample(pairs, 45) if quick else pairs):
        yield 3, nx3, (2, 2, 2), fs, False, 1e-12
    tri3 = list(itertools.combinations(F3, 3))
    for fs in rng.sample(tri3, 25 if quick else 700):
        yield 3, nx3, (2, 2, 2), fs, False, 1e-12
    # ---- 3-D other resolution / sizes: dyadic (strict tolerance) and non-dyadic (1e-9, see note)
    for nx4, phys, tolr in (((3, 2, 2), (1.5, 1.0, 0.5), 1e-12), ((2, 3, 2), (1.0, 1.0, 0.7), 1e-9)):
        F4 = all_fracs_3d(nx4)
        sets4 = list(itertools.combinations(F4, 1)) + list(itertools.combinations(F4, 2))
        for fs in rng.sample(sets4, 12 if quick else 250):
            yield 3, nx4, phys, fs, True, tolr
    # ---- 3-D decimal side lengths / cell sizes (physdims != nx, spacing not a binary fraction): along one refined axis every
    # interior grid plane k * L / n (a sample of them for n = 12) carries a rectangle, alternately full and partial; for one
    # plane per grid also an X crossing with an orthogonal plane.  The two other axes have 2 cells.
    dec = [(0.1, 5), (0.1, 4), (0.9, 3), (1.1, 3), (2.1, 3), (0.7, 6), (1.2, 12)]
    shapes = [((0, 2), (0, 2)), ((0, 1), (0, 2)), ((1, 2), (0, 2)), ((0, 2), (1, 2))]
    for i, (L, n) in enumerate(dec):
        if quick and (L, n) == (0.7, 6):
            continue
        a = i % 3
        nx5, ph5 = [2, 2, 2], [0.1 if L < 0.5 else 1.0] * 3
        nx5[a], ph5[a] = n, L
        nx5, ph5 = tuple(nx5), tuple(ph5)
        planes = list(range(1, n)) if n <= 6 else [1, 6, 7, 11]
        if not quick and n > 6:
            planes = list(range(1, n))
        for j, k in enumerate(planes):
            yield 3, nx5, ph5, ((a, k, *shapes[(i + j) % 4]),), bool(j % 2), 1e-9
        k = (n + 1) // 2 if n <= 6 else 7
        b = (a + 1) % 3
        # orthogonal plane through index 1 of axis b, spanning the whole domain
        others_b = [ax for ax in range(3) if ax != b]
        yield 3, nx5, ph5, ((a, k, (0, 2), (0, 2)), (b, 1, (0, nx5[others_b[0]]), (0, nx5[others_b[1]]))), False, 1e-9


def run(rep):
    import warnings

    import numpy as np
    import porepy as pp

    warnings.simplefilter("ignore")
    rep.under_contract("pp.meshing.cart_grid", "porepy.fracs.structured._cart_grid_2d", "porepy.fracs.structured._cart_grid_3d",
                       "porepy.fracs.meshing._tag_faces", "porepy.fracs.meshing._assemble_mdg", "porepy.fracs.split_grid.split_fractures",
                       "porepy.fracs.meshing.create_interfaces", "MortarGrid.__init__ / _init_projections (matching case)",
                       "pp.create_mdg (grid_type 'cartesian', 'tensor_grid')", "porepy.grids.mdg_generation._preprocess_cartesian_args",
                       "porepy.grids.mdg_generation._preprocess_tensor_grid_args", "pp.meshing.tensor_grid",
                       "porepy.fracs.structured._tensor_grid_2d", "porepy.fracs.structured._tensor_grid_3d")
    rep.assume("requires: fracture vertices on grid nodes, fractures on interior grid lines/planes (2-D cart_grid / tensor_grid: also on "
               "the boundary lines of the domain), no two fractures share a cell, no three fractures share a line segment (3-D)",
               "create_mdg: the structured grid has round(L / h) cells per direction (L / h not a tie); fractures lie on the lines "
               "lower corner + k * L / n of the given domain; given node lines (x_pts / y_pts / z_pts) are strictly increasing and start "
               "and end on the domain boundary, and the fractures lie on them",
               "fractures lying in the domain boundary: not through pp.create_mdg (removes them with a warning) and not in 3-D (cart_grid / "
               "tensor_grid raise), see the module docstring",
               "simplex (gmsh) meshing is not applicable to this checker and not claimed",
               "3-D, non-dyadic cell size: tolerance 1e-9 because structured._create_embedded_2d_grid rounds local coordinates to 1e-10")
    rep.trust("exact integer box model of the fracture network (sidecar oracle)")
    with rep.sweep(
        "cart_grid fracture sets",
        rule="axis-aligned fractures with vertices on grid nodes, on interior grid lines/planes: 2-D 3x3 grid all sets of <= 2 fractures plus "
             "triples (seeded sample in quick, all in thorough); 2-D other resolutions/physical sizes (sampled sets of <= 2, vertex order "
             "reversed); 3-D 2x2x2 all single rectangles, hand-picked X/T/L/corner/coplanar sets, pairs (sampled in quick, all in thorough), "
             "sampled triples; 3-D other resolutions/sizes; 3-D decimal side lengths (0.1/5, 0.1/4, 0.9/3, 1.1/3, 2.1/3, 0.7/6, 1.2/12 "
             "cells along one axis): a rectangle on every interior plane (sampled planes for 12 cells in quick) and one X crossing per grid; "
             "pp.create_mdg 'cartesian' and 'tensor_grid' on 7 2-D and 6 3-D (domain, target cell size) configurations (dividing / not "
             "dividing / per-axis / decimal sizes, lower corner at and not at the origin) with fixed and sampled sets of <= 2 fractures; "
             "fractures lying in the domain boundary, 2-D cart_grid: 3x3 grid every single boundary fracture, fixed T / L / corner / "
             "end-to-end sets, pairs and triples with at least one boundary fracture (sampled in quick, all pairs in thorough), three other "
             "resolutions / sizes; given node lines: pp.meshing.tensor_grid and pp.create_mdg('tensor_grid', x_pts / y_pts / z_pts) on 4 2-D "
             "(3 in quick) and 3 3-D (2 in quick) sets of non-uniform lines, pp.create_mdg('tensor_grid', cell_size + one <axis>_pts) on 3 "
             "2-D and one 3-D configuration, sampled sets of <= 2 fractures on the lines (2-D tensor_grid: also in the domain boundary); "
             "a case is non-trivial when it has at least one fracture; distinct by (entry point, nd, nx, side lengths, lower corner, "
             "cell size, node lines, fracture set)",
        bound="<= 3 fractures; grids up to 6x3 (2-D) and 12x2x2 / 3x3x3 (3-D)",
        exhaustive=False,
    ) as sw:
        classes, entries = {}, {}
        for nd, nx, phys, fracs, reverse, tolr, entry, origin, cell_size, pts in families(rep.tier, rep.rng):
            status, fails, info = check_case(pp, np, nd, nx, phys, fracs, reverse, tolr, entry, origin, cell_size, pts)
            if status == "skip":
                sw.skip()
                continue
            inputs = {"nd": nd, "nx": list(nx), "physdims": list(phys), "fracs": [list(f) for f in fracs], "reverse": reverse, "tol_rel": tolr,
                      "entry": entry, "origin": list(origin) if origin is not None else None,
                      "cell_size": list(cell_size) if isinstance(cell_size, tuple) else cell_size,
                      "pts": [list(p) if p is not None else None for p in pts] if pts is not None else None}
            sw.case(key=(entry, nd, nx, phys, origin, cell_size, pts, fracs), nontrivial=len(fracs) > 0, sample=inputs)
            cls = classify(nd, fracs)
            if any(in_boundary(nd, nx, f) for f in fracs):
                cls += ", fracture in the domain boundary"
            if pts is not None:
                cls += ", given node lines"
            classes[cls] = classes.get(cls, 0) + 1
            entries[entry] = entries.get(entry, 0) + 1
            sig = signature_of(entry, nd, nx, phys, fracs, origin, cell_size, pts)
            for ob, detail in fails:
                rep.violation(ob, sig, inputs=inputs, detail=detail, confirmed=True)
        rep.extra["cases_by_configuration"] = classes
        rep.extra["cases_by_entry_point"] = entries


def replay(data):
    import warnings

    import numpy as np
    import porepy as pp

    warnings.simplefilter("ignore")
    inp = data.get("inputs") or {}
    if "fracs" not in inp:
        return False

    def tup(x):
        return tuple(tup(y) for y in x) if isinstance(x, list) else x

    origin = tup(inp["origin"]) if inp.get("origin") is not None else None
    cell_size = tup(inp["cell_size"]) if inp.get("cell_size") is not None else None
    pts = tup(inp["pts"]) if inp.get("pts") is not None else None
    status, fails, _ = check_case(pp, np, inp["nd"], tuple(inp["nx"]), tuple(inp["physdims"]), tup(inp["fracs"]), inp.get("reverse", False),
                                  inp.get("tol_rel", 1e-12), inp.get("entry", "cart_grid"), origin, cell_size, pts)
    for f in fails:
        print("replay:", f)
    return bool(fails)
