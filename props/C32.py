"""C32 — coordinate maps and tangential-normal bases are orthonormal.

Tier P : (shapes fixed by the mathematics: 3-vectors and 3x3 matrices) the real functions on symbolic entries:
         * rotation_matrix(a, v): R R^T = I, det R = 1, R v = v for every angle and every non-zero axis
           (s = sin a, c = cos a under s^2 + c^2 = 1; |v| through sqrt with sqrt(u)^2 = u).
         * project_plane_matrix / project_line_matrix with a given normal / tangent: orthogonal, det 1 and
           R n_hat = e_z for every direction not anti-parallel to e_z; for the anti-parallel direction the identity is
           returned (normal mapped to -e_z), which is examined as a separate clause.
         * normal_matrix / tangent_matrix: complementary orthogonal projectors.
Tier B : seeded directions incl. axis-aligned and nearly (anti-)parallel ones: the same clauses numerically; compute_normal /
         compute_tangent of planar clouds and lines orthogonal / parallel to the set; map_grid preserves distances;
         TangentialNormalProjection blocks orthogonal, last row the normal, determinant.
         Length scales and small tilts (`_sweep_scales`): the clauses are scale-free, so the same planar lattices and a planar
         CartGrid are also taken at diameters 1e-3 ... 1e2 (thorough 1e-4 ... 1e3), in seeded random planes and in the three
         coordinate planes tilted by 1e-2 ... 1e-7 rad; compute_normal / project_plane_matrix(pts) / map_grid are then judged
         relative to the diameter of the cloud.  Seeded change caught only by this family (quick tier): compute_normal zeroing
         the components of the un-normalised cross product below an ABSOLUTE threshold -> "compute_normal: unit vector
         orthogonal to the planar point set" (signatures "random plane, cloud diameter below 1", "xy/yz/zx plane tilted, ..."),
         "project_plane_matrix: returns normally ..." / "map_grid: returns normally ..." (AssertionError of the planarity test).
"""
from __future__ import annotations

META = {
    "level": "other",
    "engine": "pse",
    "technique": "contract-based deductive verification: polynomial identities (orthogonality, determinant, fixed axis, normal mapped to e_z) of the real rotation / projection matrix functions on symbolic 3-vectors discharged by z3 NRA under the trigonometric and sqrt axioms; numeric sweep for point-cloud based functions and the tangential-normal basis",
    "text": "Tier P: rotation_matrix, project_plane_matrix(normal=...), project_line_matrix(tangent=...), normal_matrix, tangent_matrix satisfy the "
            "statement for all real inputs (non-zero vectors). Tier B: plane fitting (compute_normal), map_grid and the vectorised tangential-normal "
            "basis, which use data-dependent masks, over seeded directions incl. axis-aligned and nearly parallel cases; planar clouds and a planar "
            "grid also at diameters 1e-3..1e2 (thorough 1e-4..1e3) in random planes and in coordinate planes tilted by 1e-2..1e-7 rad, judged relative "
            "to the cloud diameter. Mixed tiers -> level 'other'.",
    "note": "sin/cos/arccos/sqrt uninterpreted with the identities sin^2+cos^2=1, cos(arccos u)=u and sin(arccos u)=sqrt(1-u^2) for |u|<=1, sqrt(u)^2=u; "
            "floats as reals; the tolerance test np.allclose(v, 0) of rotation_matrix is encoded exactly",
}

import itertools
import warnings

import numpy as np
import z3

from engine import oracle, shims, sym
from engine.harness import run_case
from engine.sym import SymBool, SymReal, rterm


def _vec(ctx, tag):
    return np.array([ctx.real(f"{tag}{k}") for k in range(3)], dtype=object)


def _dot(a, b):
    return a[0] * b[0] + a[1] * b[1] + a[2] * b[2]


def _trig_axioms(ctx, terms):
    ax, _ = oracle.axioms_for(terms)
    for a in ax:
        ctx.assume(SymBool(a))
    # arccos: for |u| <= 1, cos(arccos u) = u and sin(arccos u) = sqrt(1 - u^2) >= 0
    seen = {}

    def walk(t):
        if z3.is_app(t) and t.decl().name() == "arccos" and t.num_args() == 1:
            seen[t.sexpr()] = t
        for c in t.children():
            walk(c)

    for t in terms:
        walk(t)
    for t in seen.values():
        u = t.children()[0]
        s, c = sym.UF["sin"](t), sym.UF["cos"](t)
        ctx.assume(SymBool(z3.Implies(z3.And(u >= -1, u <= 1), z3.And(c == u, s >= 0, s * s == 1 - u * u, s * s + c * c == 1))))
    return list(seen.values())


def _relations(terms, arccos_terms, extra=()):
    """polynomial relations (a == b) among the indeterminates of `terms`, for the Groebner back end: the same facts as
    the z3 axioms, without their sign parts"""
    acc: dict = {}
    for t in terms:
        oracle._collect_apps(t, acc)
    rels = list(extra)
    args = {}
    for nm in ("sin", "cos"):
        args.update(acc.get(nm, {}))
    for u in args.values():
        s, c = sym.UF["sin"](u), sym.UF["cos"](u)
        rels.append((s * s + c * c, z3.RealVal(1)))
    for u in acc.get("sqrt", {}).values():
        q = sym.UF["sqrt"](u)
        rels.append((q * q, u))
    for t in arccos_terms:
        u = t.children()[0]
        rels.append((sym.UF["cos"](t), u))
        rels.append((sym.UF["sin"](t) * sym.UF["sin"](t), 1 - u * u))
    return rels


def _eq(ctx, name, lhs, rhs, rels, timeout=4000):
    """prove lhs == rhs: first as a polynomial identity modulo the relations (sympy Groebner basis), else z3"""
    import time

    t0 = time.time()
    st = oracle.groebner_identity(lhs, rhs, rels)
    if st == "discharged":
        ctx.results.append({"name": name, "status": st, "model": None, "s": time.time() - t0, "backend": "sympy-groebner", "canary": False, "decisions": list(ctx.decisions)})
        return st
    return ctx.prove(name, SymBool(lhs == rhs), timeout_ms=timeout)


def _mat_terms(R):
    return [[rterm(R[i, j]) for j in range(3)] for i in range(3)]


def _prove_rotation(ctx, R, label, rels, timeout=4000):
    M = _mat_terms(R)
    for i in range(3):
        for j in range(i, 3):
            e = sum(M[i][k] * M[j][k] for k in range(3))
            _eq(ctx, f"{label}: (R R^T)[{i},{j}] = {1 if i == j else 0}", e, z3.RealVal(1 if i == j else 0), rels, timeout)
    det = (M[0][0] * (M[1][1] * M[2][2] - M[1][2] * M[2][1]) - M[0][1] * (M[1][0] * M[2][2] - M[1][2] * M[2][0])
           + M[0][2] * (M[1][0] * M[2][1] - M[1][1] * M[2][0]))
    _eq(ctx, f"{label}: det R = 1", det, z3.RealVal(1), rels, timeout)


def case_rotation(pp):
    def run(ctx):
        a = ctx.real("a")
        v = _vec(ctx, "v")
        R = pp.map_geometry.rotation_matrix(a, v)
        isid = all(sym.concrete(SymBool(rterm(R[i, j]) == (1 if i == j else 0))) is True for i in range(3) for j in range(3)) if R.dtype != object else False
        if R.dtype != object:
            # the zero-axis branch: identity
            ctx.prove("zero axis (within tolerance): the identity is returned", bool(np.array_equal(R, np.identity(3))))
            return "identity"
        terms = [rterm(x) for x in R.ravel()]
        acs = _trig_axioms(ctx, terms)
        ctx.assume(_dot(v, v) > 0)
        rels = _relations(terms, acs)
        _prove_rotation(ctx, R, "rotation_matrix", rels)
        M = _mat_terms(R)
        for i in range(3):
            _eq(ctx, f"rotation_matrix: (R v)[{i}] = v[{i}] (the axis is fixed)", sum(M[i][k] * rterm(v[k]) for k in range(3)), rterm(v[i]), rels)
        ctx.prove("CANARY rotation_matrix: R is symmetric", SymBool(M[0][1] == M[1][0]), expect_refuted=True)
        return "ok"

    return run


def case_project(pp, which):
    def run(ctx):
        n = _vec(ctx, "n")
        ctx.assume(_dot(n, n) > 0)
        pts = np.zeros((3, 3))
        if which == "plane":
            R = pp.map_geometry.project_plane_matrix(pts, normal=n, check_planar=False)
        else:
            R = pp.map_geometry.project_line_matrix(pts, tangent=n)
        nn = sym.UF["sqrt"](rterm(_dot(n, n)))
        if R.dtype != object:
            # rotation axis n x e_z is zero within tolerance: n (anti-)parallel to e_z
            ctx.prove(f"{which}: (anti-)parallel to the reference axis: the identity is returned", bool(np.array_equal(R, np.identity(3))))
            return "identity"
        terms = [rterm(x) for x in R.ravel()] + [nn]
        acs = _trig_axioms(ctx, terms)
        ctx.assume(SymBool(z3.And(nn > 0, nn * nn == rterm(_dot(n, n)))))
        # lemma (z3): sin(arccos(n_hat . e_z)) equals the norm of the rotation axis n_hat x e_z (both >= 0 with equal squares)
        extra = []
        acc: dict = {}
        for t in terms:
            oracle._collect_apps(t, acc)
        sq = [u for u in acc.get("sqrt", {}).values() if not u.eq(rterm(_dot(n, n)))]
        base_rels = _relations(terms, acs)
        for t in acs:
            uarg = t.children()[0]
            # the argument of arccos is within [-1, 1] (Cauchy-Schwarz for a unit vector): |n_z| <= |n|
            ctx.prove(f"project_{which}_matrix: lemma |n_hat . e_z| <= 1 (arccos is applied inside its domain)", SymBool(uarg * uarg <= 1), timeout_ms=20000)
            for u in sq:
                s_t, q = sym.UF["sin"](t), sym.UF["sqrt"](u)
                st1 = _eq(ctx, f"project_{which}_matrix: lemma sin(angle)^2 = |n_hat x e_z|^2", s_t * s_t, q * q, base_rels)
                import time as _t

                t0 = _t.time()
                st2, _, be = sym.discharge([s_t >= 0, q >= 0, s_t * s_t == q * q], s_t == q, 10000)
                ctx.results.append({"name": f"project_{which}_matrix: lemma a, b >= 0 and a^2 = b^2 imply a = b (sin(angle) = |n_hat x e_z|)", "status": st2, "model": None,
                                    "s": _t.time() - t0, "backend": be, "canary": False, "decisions": list(ctx.decisions)})
                if st1 == "discharged" and st2 == "discharged":
                    extra.append((s_t, q))
        rels = _relations(terms, acs, extra)
        _prove_rotation(ctx, R, f"project_{which}_matrix", rels)
        M = _mat_terms(R)
        # not anti-parallel (anti-parallel directions take the identity branch up to the tolerance of np.allclose)
        img = [sum(M[i][k] * rterm(n[k]) for k in range(3)) for i in range(3)]
        what = "normal" if which == "plane" else "tangent"
        for i, want in enumerate((z3.RealVal(0), z3.RealVal(0), nn)):
            _eq(ctx, f"project_{which}_matrix: the unit {what} is mapped to the last axis e_z (component {i})", img[i], want, rels)
        return "ok"

    return run


def case_projectors(pp):
    def run(ctx):
        n = _vec(ctx, "n")
        ctx.assume(_dot(n, n) > 0)
        N = pp.map_geometry.normal_matrix(normal=n)
        T = pp.map_geometry.tangent_matrix(normal=n)
        nn2 = rterm(_dot(n, n))
        terms = [rterm(x) for x in N.ravel()] + [rterm(x) for x in T.ravel()]
        acs = _trig_axioms(ctx, terms)
        rels = _relations(terms, acs)
        for i in range(3):
            for j in range(3):
                _eq(ctx, f"normal_matrix[{i},{j}] = n_i n_j / |n|^2", rterm(N[i, j]) * nn2, rterm(n[i] * n[j]), rels)
                _eq(ctx, f"tangent_matrix[{i},{j}] = delta_ij - normal_matrix[{i},{j}]", rterm(T[i, j]), (1 if i == j else 0) - rterm(N[i, j]), rels)
        return "ok"

    return run


# ----------------------------------------------------------------------------- tier B


def _rand_rot(rng):
    q = np.array([rng.gauss(0, 1) for _ in range(4)])
    q /= np.linalg.norm(q)
    a, b, c, d = q
    return np.array([[a * a + b * b - c * c - d * d, 2 * (b * c - a * d), 2 * (b * d + a * c)],
                     [2 * (b * c + a * d), a * a - b * b + c * c - d * d, 2 * (c * d - a * b)],
                     [2 * (b * d - a * c), 2 * (c * d + a * b), a * a - b * b - c * c + d * d]])


def _dirs(rng, k):
    out = [np.array(v, dtype=float) for v in ([1, 0, 0], [0, 1, 0], [0, 0, 1], [-1, 0, 0], [0, 0, -1], [0, -1, 0], [1, 1, 0], [0, 1, 1], [1, 1, 1], [-1, 2, -3])]
    for e in (1e-3, 1e-6, 1e-9):
        out += [np.array([e, 0, 1.0]), np.array([0, e, -1.0]), np.array([1.0, e, 0]), np.array([e, -e, 1.0])]
    for _ in range(k):
        out.append(np.array([rng.gauss(0, 1) for _ in range(3)]) * 10 ** rng.uniform(-3, 3))
    return out


def _sweep(rep, pp):
    rng = rep.rng
    quick = rep.tier == "quick"
    mg = pp.map_geometry
    with rep.sweep("rotation / projection matrices, plane fitting, tangential-normal bases",
                   rule="directions: axis-aligned, diagonal, within 1e-3..1e-9 of (anti-)parallel to e_z, seeded random over 6 orders of magnitude; angles from a "
                        "lattice and seeded; planar point clouds = rotated planar lattices (3-8 points) incl. nearly collinear ones; grids: Cartesian 1-D/2-D embedded "
                        "by seeded rigid motions; tangential-normal projection for 2-D and 3-D normal sets; tolerances 1e-10 relative; the same planar lattices "
                        "and CartGrid([3,2]) times a length scale 1e-3..1e2 (thorough 1e-4..1e3), in seeded random planes and in the xy/yz/zx planes tilted by "
                        "1e-2..1e-7 rad (thorough 0.3..1e-7) about a seeded in-plane axis, offsets scaled with the cloud (every third small cloud: O(1) offset), "
                        "tolerances relative to the cloud diameter; nontrivial = direction not a coordinate axis; distinct by input",
                   bound="60 (quick) / 600 (thorough) seeded directions; 5 scales x 15 layouts (quick) / 8 scales x 96 layouts (thorough)", exhaustive=False) as sw:
        I3 = np.eye(3)
        dirs = _dirs(rng, 60 if quick else 600)

        def is_rot(R):
            R = np.asarray(R)
            return R.shape == (3, 3) and np.allclose(R @ R.T, I3, atol=1e-10) and abs(np.linalg.det(R) - 1) < 1e-10

        class _Raised(Exception):
            pass

        def call(fname, thunk, inputs):
            """evaluate the function under test; an exception on admissible input is a violation of '<fname>: returns normally'"""
            try:
                return thunk()
            except Exception as e:  # noqa
                rep.violation(f"{fname}: returns normally on admissible input", f"raises {type(e).__name__}", inputs=inputs, detail=str(e)[:200])
                raise _Raised()

        for v in dirs:
            vh = v / np.linalg.norm(v)
            nontriv = np.count_nonzero(np.abs(vh) > 1e-12) > 1
            for a in (0.0, 0.3, np.pi / 2, np.pi, -2.0, rng.uniform(-7, 7)):
                try:
                    R = call("rotation_matrix", lambda: mg.rotation_matrix(a, v.copy()), {"a": a, "v": v.tolist()})
                except _Raised:
                    continue
                sw.case(("rot", tuple(v), a), nontriv)
                if not is_rot(R) or not np.allclose(R @ vh, vh, atol=1e-10):
                    rep.violation("rotation_matrix: orthogonal, det 1, axis fixed", "numeric", inputs={"a": a, "v": v.tolist()}, detail=str(R.tolist()))
            for which, f in (("plane", lambda: mg.project_plane_matrix(np.zeros((3, 3)), normal=v.copy(), check_planar=False)), ("line", lambda: mg.project_line_matrix(np.zeros((3, 3)), tangent=v.copy()))):
                try:
                    R = call(f"project_{which}_matrix", f, {"v": v.tolist()})
                except _Raised:
                    continue
                sw.case((which, tuple(v)), nontriv)
                if not is_rot(R):
                    rep.violation(f"project_{which}_matrix: orthogonal with unit determinant", "numeric", inputs={"v": v.tolist()}, detail=str(np.asarray(R).tolist()))
                    continue
                if False:
                    rep.violation(f"project_{which}_matrix: orthogonal with unit determinant", "numeric", inputs={"v": v.tolist()}, detail=str(R.tolist()))
                img = R @ vh
                anti = np.linalg.norm(np.cross(vh, [0, 0, 1])) < 1e-7 and vh[2] < 0
                if anti:
                    if not np.allclose(np.abs(img), [0, 0, 1], atol=1e-6):
                        rep.violation(f"project_{which}_matrix: the direction is mapped onto the last axis (up to sign when anti-parallel)", "anti-parallel", inputs={"v": v.tolist()}, detail=str(img.tolist()))
                elif not np.allclose(img, [0, 0, 1], atol=1e-7):
                    rep.violation(f"project_{which}_matrix: the direction is mapped to the last axis", "numeric", inputs={"v": v.tolist()}, detail=str(img.tolist()))
        # plane fitting and distance preservation
        for _ in range(40 if quick else 400):
            Q = _rand_rot(rng)
            t = np.array([rng.uniform(-5, 5) for _ in range(3)])
            k = rng.randint(3, 8)
            P2 = np.array([[rng.randint(-4, 4) for _ in range(k)], [rng.randint(-4, 4) for _ in range(k)], [0] * k], dtype=float)
            if np.linalg.matrix_rank(P2[:2] - P2[:2].mean(axis=1, keepdims=True)) < 2:
                sw.skip()
                continue
            pts = Q @ P2 + t[:, None]
            try:
                nrm = call("compute_normal", lambda: mg.compute_normal(pts), {"pts": pts.tolist()})
                R = call("project_plane_matrix", lambda: mg.project_plane_matrix(pts), {"pts": pts.tolist()})
                L = t[:, None] + np.outer(Q[:, 0], np.array(sorted(rng.uniform(-3, 3) for _ in range(4))))
                tg = call("compute_tangent", lambda: mg.compute_tangent(L), {"pts": L.tolist()})
            except _Raised:
                continue
            sw.case(("normal", tuple(np.round(pts.ravel(), 6))), True)
            if abs(np.linalg.norm(nrm) - 1) > 1e-10 or np.max(np.abs(nrm @ (pts - pts.mean(axis=1, keepdims=True)))) > 1e-8 * (1 + np.abs(pts).max()):
                rep.violation("compute_normal: unit vector orthogonal to the planar point set", "numeric", inputs={"pts": pts.tolist()}, detail=str(nrm.tolist()))
            rp = R @ pts
            d0 = np.linalg.norm(pts[:, :, None] - pts[:, None, :], axis=0)
            d1 = np.linalg.norm(rp[:, :, None] - rp[:, None, :], axis=0)
            if not is_rot(R) or np.ptp(rp[2]) > 1e-8 * (1 + np.abs(pts).max()) or not np.allclose(d0, d1, atol=1e-9 * (1 + d0.max())):
                rep.violation("project_plane_matrix(pts): rotation mapping the plane to z = const and preserving distances", "numeric", inputs={"pts": pts.tolist()}, detail="")
            # a line
            if abs(abs(tg @ Q[:, 0]) - 1) > 1e-10:
                rep.violation("compute_tangent: unit vector along the line", "numeric", inputs={"pts": L.tolist()}, detail=str(tg.tolist()))
            for g in (pp.CartGrid([3, 2]), pp.CartGrid([4])):
                g.nodes = Q @ g.nodes + t[:, None]
                g.compute_geometry()
                try:
                    cc, fc, fn, R2, dim, nodes = call("map_grid", lambda: mg.map_grid(g), {"t": t.tolist(), "grid_dim": g.dim})
                except _Raised:
                    continue
                sw.case(("map_grid", g.dim, tuple(np.round(t, 6))), True)
                D0 = np.linalg.norm(g.cell_centers[:, :, None] - g.cell_centers[:, None, :], axis=0)
                D1 = np.linalg.norm(cc[:, :, None] - cc[:, None, :], axis=0)
                if cc.shape[0] != g.dim or not np.allclose(D0, D1, atol=1e-9 * (1 + D0.max())) or not is_rot(R2):
                    rep.violation("map_grid: local coordinates preserve distances", f"{g.dim}d grid", inputs={"t": t.tolist()}, detail="")
                # the documented option R: with the rotation the function itself computed, the same local coordinates come back
                try:
                    cc2, *_rest = call("map_grid", lambda: mg.map_grid(g, R=R2.copy()), {"t": t.tolist(), "grid_dim": g.dim, "R": "as returned"})
                except _Raised:
                    continue
                sw.case(("map_grid with R", g.dim, tuple(np.round(t, 6))), True)
                D2 = np.linalg.norm(cc2[:, :, None] - cc2[:, None, :], axis=0) if cc2.shape[0] == g.dim else None
                if D2 is None or not np.allclose(D0, D2, atol=1e-9 * (1 + D0.max())) or not np.allclose(cc2, cc, atol=1e-12 * (1 + np.abs(cc).max())):
                    rep.violation("map_grid: local coordinates preserve distances", f"{g.dim}d grid, rotation passed through the argument R", inputs={"t": t.tolist()},
                                  detail="map_grid(g, R=map_grid(g)[3]) differs from map_grid(g)")
        # tangential-normal projection
        for dim in (2, 3):
            N = np.array([d[:dim] for d in dirs if np.linalg.norm(d[:dim]) > 1e-8 * np.linalg.norm(d)]).T
            try:
                proj = call("TangentialNormalProjection", lambda: pp.TangentialNormalProjection(N.copy()), {"dim": dim})
            except _Raised:
                continue
            for c in range(N.shape[1]):
                P = proj._projection[:, :, c]
                nh = N[:, c] / np.linalg.norm(N[:, c])
                sw.case(("tnp", dim, tuple(N[:, c])), True)
                inp = {"normal": N[:, c].tolist()}
                # the 3-D basis treats normals within 1e-8 of a coordinate axis as axis-aligned: orthogonality then holds up to that threshold
                if not np.allclose(P @ P.T, np.eye(dim), atol=1e-7):
                    rep.violation("TangentialNormalProjection: block is orthogonal", f"{dim}d", inputs=inp, detail=str(P.tolist()))
                if not np.allclose(P @ nh, np.eye(dim)[-1], atol=1e-10):
                    rep.violation("TangentialNormalProjection: the normal is mapped to the last local axis", f"{dim}d", inputs=inp, detail=str((P @ nh).tolist()))
                if abs(np.linalg.det(P) - 1) > 1e-7:
                    cls = "2d, normal with n_y < 0 or n = (+x, 0)" if (dim == 2 and (nh[1] < 0 or (nh[1] == 0 and nh[0] > 0))) else f"{dim}d"
                    rep.violation("TangentialNormalProjection: block has unit determinant", cls, inputs=inp, detail=f"det = {np.linalg.det(P)}")
        # (drawn last so that the seeded cases above are unchanged)
        _sweep_scales(rep, pp, sw, call, _Raised, is_rot)


def _rodrigues(axis, ang):
    """rotation by `ang` about `axis` (closed form, independent of the code under test)"""
    u = np.asarray(axis, dtype=float) / np.linalg.norm(axis)
    K = np.array([[0, -u[2], u[1]], [u[2], 0, -u[0]], [-u[1], u[0], 0]])
    return np.cos(ang) * np.eye(3) + np.sin(ang) * K + (1 - np.cos(ang)) * np.outer(u, u)


def _sweep_scales(rep, pp, sw, call, _Raised, is_rot):
    """Orthonormality, 'the normal is orthogonal to the set' and distance preservation are statements about directions and ratios
    of lengths only, so they hold for a planar cloud / planar grid of any diameter and for planes at any angle to the coordinate
    planes.  Clouds = integer planar lattices (3-8 points, |coordinates| <= 4, rank 2) times a length scale, laid (a) in a seeded
    random plane or (b) in a coordinate plane (xy, yz, zx) tilted by a small angle about a seeded in-plane axis (closed-form
    Rodrigues rotation in the sidecar); grid = CartGrid([3, 2]) embedded the same way.  All deviations are measured RELATIVE to the
    diameter of the cloud (plus the rounding of the stored coordinates, 1e-11 * max |coordinate|):
      compute_normal: |n| = 1 (1e-10) and |n . chord| <= 1e-9 * diameter;
      project_plane_matrix(pts): rotation (1e-10), |z-spread of R pts| <= 1e-7 * diameter (arccos of a cosine within 1e-16 of 1
          resolves angles near 1e-8 rad only to ~1e-8), pairwise distances preserved to 1e-9 * diameter;
      map_grid: returns normally, g.dim local coordinates, rotation, the dropped local coordinate of R nodes is constant
          (1e-7 * diameter), distances between cell centres preserved (1e-9 * diameter).
    All comparisons are written `not (x <= tol)` so that NaN results fail."""
    rng = rep.rng
    quick = rep.tier == "quick"
    mg = pp.map_geometry
    scales = (1e-3, 1e-2, 1e-1, 1.0, 1e2) if quick else (1e-4, 1e-3, 1e-2, 1e-1, 1.0, 1e1, 1e2, 1e3)
    tilts = (1e-2, 1e-4, 1e-6, 1e-7) if quick else (0.3, 1e-2, 1e-3, 1e-4, 1e-5, 1e-6, 1e-7)
    perms = {"xy": [0, 1, 2], "yz": [2, 0, 1], "zx": [1, 2, 0]}
    reps = 1 if quick else 4
    for scale in scales:
        layouts = [("random plane", None, None)] * (3 * reps)
        layouts += [(f"{nm} plane tilted", nm, tl) for nm in perms for tl in tilts] * reps
        for idx, (lname, nm, tl) in enumerate(layouts):
            k = rng.randint(3, 8)
            P2 = np.array([[rng.randint(-4, 4) for _ in range(k)], [rng.randint(-4, 4) for _ in range(k)], [0] * k], dtype=float)
            phi = rng.uniform(0, 2 * np.pi)
            Q = _rand_rot(rng)
            t = np.array([rng.uniform(-5, 5) for _ in range(3)])
            if np.linalg.matrix_rank(P2[:2] - P2[:2].mean(axis=1, keepdims=True)) < 2:
                sw.skip()
                continue
            # every third small cloud keeps an O(1) offset (a small cloud away from the origin); otherwise a pure similarity
            if not (scale < 1 and idx % 3 == 0):
                t = t * scale
            if nm is None:
                A, p = Q, [0, 1, 2]
            else:
                p = perms[nm]
                A = _rodrigues(np.array([np.cos(phi), np.sin(phi), 0.0])[p], tl)
            emb = lambda X: A @ (scale * X[p]) + t[:, None]  # noqa: E731
            pts = emb(P2)
            diam = float(np.linalg.norm(pts[:, :, None] - pts[:, None, :], axis=0).max())
            noise = 1e-11 * float(np.abs(pts).max())
            cls = f"{lname}, cloud diameter {'below' if scale < 1 else 'at least'} 1"
            inp = {"pts": pts.tolist(), "scale": scale, "layout": lname, "tilt": tl}
            sw.case(("scaled cloud", scale, lname, tl, idx), True, sample={"scale": scale, "layout": lname, "tilt": tl})
            try:
                nrm = np.asarray(call("compute_normal", lambda: mg.compute_normal(pts.copy()), inp), dtype=float)
                if not (abs(np.linalg.norm(nrm) - 1) <= 1e-10) or not (np.max(np.abs(nrm @ (pts - pts[:, [0]]))) <= 1e-9 * diam + noise):
                    rep.violation("compute_normal: unit vector orthogonal to the planar point set", cls, inputs=inp,
                                  detail=f"normal {nrm.tolist()}, max |n . chord| / diameter = {np.max(np.abs(nrm @ (pts - pts[:, [0]]))) / diam!r}")
            except _Raised:
                pass
            try:
                R = np.asarray(call("project_plane_matrix", lambda: mg.project_plane_matrix(pts.copy()), inp), dtype=float)
                ok = is_rot(R)
                if ok:
                    rp = R @ pts
                    d0 = np.linalg.norm(pts[:, :, None] - pts[:, None, :], axis=0)
                    d1 = np.linalg.norm(rp[:, :, None] - rp[:, None, :], axis=0)
                    ok = bool(np.ptp(rp[2]) <= 1e-7 * diam + noise) and bool(np.max(np.abs(d0 - d1)) <= 1e-9 * diam + noise)
                if not ok:
                    rep.violation("project_plane_matrix(pts): rotation mapping the plane to z = const and preserving distances", cls, inputs=inp,
                                  detail=f"R = {R.tolist()}")
            except _Raised:
                pass
            g = pp.CartGrid([3, 2])
            g.nodes = emb(g.nodes)
            g.compute_geometry()
            ginp = {"grid": "CartGrid([3, 2])", "nodes": g.nodes.tolist(), "scale": scale, "layout": lname, "tilt": tl}
            gdiam = float(np.linalg.norm(g.nodes[:, :, None] - g.nodes[:, None, :], axis=0).max())
            gnoise = 1e-11 * float(np.abs(g.nodes).max())
            try:
                cc, fc, fn, R2, dim, nodes = call("map_grid", lambda: mg.map_grid(g), ginp)
            except _Raised:
                continue
            sw.case(("scaled map_grid", scale, lname, tl, idx), True)
            D0 = np.linalg.norm(g.cell_centers[:, :, None] - g.cell_centers[:, None, :], axis=0)
            D1 = np.linalg.norm(cc[:, :, None] - cc[:, None, :], axis=0)
            dim = np.asarray(dim, dtype=bool)
            ok = cc.shape[0] == g.dim and nodes.shape[0] == g.dim and dim.sum() == g.dim and is_rot(R2)
            if ok:
                dropped = (np.asarray(R2) @ g.nodes)[~dim]
                ok = bool(np.max(np.abs(D0 - D1)) <= 1e-9 * gdiam + gnoise) and bool(np.ptp(dropped, axis=1).max() <= 1e-7 * gdiam + gnoise)
            if not ok:
                rep.violation("map_grid: local coordinates preserve distances", f"2d grid, {cls.replace('cloud', 'grid')}", inputs=ginp, detail="")


def replay(data):
    import porepy as pp

    inp = data.get("inputs") or {}
    if "normal" in inp:
        n = np.array(inp["normal"], dtype=float).reshape((-1, 1))
        P = pp.TangentialNormalProjection(n)._projection[:, :, 0]
        print("block", P.tolist(), "det", np.linalg.det(P))
        return abs(np.linalg.det(P) - 1) > 1e-10 or not np.allclose(P @ P.T, np.eye(n.shape[0]))
    if ("pts" in inp or "nodes" in inp) and not str(data.get("obligation", "")).startswith("compute_tangent"):
        # planar cloud (or the nodes of a planar grid): the computed normal is a unit vector orthogonal to every chord and
        # project_plane_matrix(pts) flattens the cloud, relative to its diameter
        pts = np.array(inp.get("pts", inp.get("nodes")), dtype=float)
        diam = float(np.linalg.norm(pts[:, :, None] - pts[:, None, :], axis=0).max())
        noise = 1e-11 * float(np.abs(pts).max())
        try:
            nrm = pp.map_geometry.compute_normal(pts.copy())
            defect = float(np.max(np.abs(nrm @ (pts - pts[:, [0]]))))
            print("normal", nrm.tolist(), "max |n . chord| / diameter", defect / diam)
            if not (abs(np.linalg.norm(nrm) - 1) <= 1e-10) or not (defect <= 1e-9 * diam + noise):
                return True
            z = (pp.map_geometry.project_plane_matrix(pts.copy()) @ pts)[2]
            print("z-spread of the mapped cloud / diameter", float(np.ptp(z)) / diam)
            return not (np.ptp(z) <= 1e-7 * diam + noise)
        except Exception as e:  # noqa
            print("raises", type(e).__name__, e)
            return True
    return False


def run(rep):
    import porepy as pp
    from porepy.geometry import map_geometry as mgm

    rep.under_contract("map_geometry.rotation_matrix", "map_geometry.project_plane_matrix", "map_geometry.project_line_matrix", "map_geometry.normal_matrix",
                       "map_geometry.tangent_matrix", "map_geometry.compute_normal (tier B)", "map_geometry.compute_tangent (tier B)", "map_geometry.map_grid (tier B)",
                       "TangentialNormalProjection._construct_local_basis (tier B)")
    rep.assume("requires: non-zero axis / normal / tangent vectors; planar (collinear) point sets for plane (line) fitting")
    refuted = []
    with shims.shadow_builtins([mgm]), shims.numpy_shims():
        for label, fn in (("rotation_matrix", case_rotation(pp)), ("project_plane_matrix(normal)", case_project(pp, "plane")),
                          ("project_line_matrix(tangent)", case_project(pp, "line")), ("normal_matrix / tangent_matrix", case_projectors(pp))):
            rf, _ = run_case(rep, label, fn)
            refuted += rf
    rep.trust(*sorted(shims.USED_MODELS))
    for name, ctx, r in refuted:
        rep.violation(name, name.split(":")[0], inputs=None, detail=f"z3 counter-model: {r['model']}"[:1200], confirmed=False, solver_output=str(r["model"]))
    with warnings.catch_warnings():
        warnings.simplefilter("ignore")
        _sweep(rep, pp)
