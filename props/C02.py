"""C02 — operator-tree evaluation matches direct forward-mode evaluation.

Tier P : the real AdParser._evaluate_single is run on one composite node whose children are stub leaves that
         return symbolic values (the recursive call replaced by its own contract: "returns Den(child)"), for
         every operation the real Operator overloads can produce x every admitted pair of child value kinds
         (float, ndarray, sparse, AdArray), sizes and entries symbolic.  Postcondition: the result denotes
         Den(left) o Den(right) (value and Jacobian as in C01; reflected nodes denote other o self); the same
         node evaluated on plain arrays gives the value of the AdArray evaluation; the `case _` arm is
         unreachable.  Variables: current ones are ad_base[dofs] (value state[dofs], Jacobian selects dofs),
         shifted ones return the stored plain array (no derivative).  evaluate(): constants get zero Jacobians.
Tier B : every overload x left/right operand kind and seeded random operator trees on small md-grids through
         EquationSystem.evaluate, compared with direct forward-mode evaluation of the same Python expression.
"""
from __future__ import annotations

META = {
    "level": "other",
    "engine": "pse",
    "technique": "contract-based deductive verification: per-node postcondition of the real recursive parser (recursive calls replaced by stub leaves carrying the contract) discharged by z3 for symbolic sizes/values; exhaustive overload x operand-kind and random-tree sweep through EquationSystem as bounded stand-in",
    "text": "Tier P: for each operation produced by the real overloads and each admitted pair of child kinds, _evaluate_single returns the denotation "
            "left o right with exact value and Jacobian for all sizes/values; derivative-free evaluation agrees with the value of the derivative "
            "evaluation; current variables select their dofs of the AD base, shifted variables return stored values without Jacobian. Whole trees "
            "follow by structural induction. Tier B: overload x operand-kind table and random trees (variables, md-variables, scalars, dense/sparse "
            "arrays, projections, functions, time/iterate shifts) on small md-grids vs direct forward-mode evaluation. Mixed tiers -> level 'other'.",
    "note": "C01 contracts of AdArray (proved there) are re-run, not assumed; stub leaves stand for the recursive call; floats as reals; "
            "numpy deferral rule (ndarray op Operator reaches Operator.__r*__ iff __array_ufunc__ is None) checked on the real class and exercised natively",
}

import itertools
import warnings

import numpy as np
import scipy.sparse as sps
import z3

from engine import oracle, shims, sym
from engine.arrays import SymArray, SymMat
from engine.harness import run_case
from engine.sym import SymBool, SymInt, SymReal, rterm

SPEC = {
    "add": (lambda a, b: a + b, None),
    "sub": (lambda a, b: a - b, None),
    "mul": (lambda a, b: a * b, None),
    "div": (lambda a, b: a / b, lambda a, b: b != 0),
    "pow": (lambda a, b: SymReal(sym.POW(rterm(a), rterm(b))), lambda a, b: a > 0),
}
REFLECTED = {"rmul": "mul", "rdiv": "div", "rpow": "pow", "rmatmul": "matmul"}


def _stub_leaf_class(pp):
    class StubLeaf(pp.ad.Operator):
        """Leaf standing for an already evaluated child: parse() returns the assumed Den(child)."""

        def __init__(self, value, tag):
            super().__init__(name=tag)
            self._v = value
            self._tag = tag

        def parse(self, mdg):
            return self._v

        def _key(self):
            return f"stub-{self._tag}"

    return StubLeaf


class _StubES:
    """equation system seen by the parser for a composite node: only .mdg is touched"""

    mdg = None


def _mk_value(ctx, pp, kind, tag, n, m):
    """returns (python value for the parser, value elem function or scalar proxy, jac entry function or None)"""
    if kind == "F":
        c = ctx.real(tag)
        return c, (lambda i: c.t), None
    if kind == "N":
        V = SymArray.fresh(tag, n, "real")
        return V, V.elem, None
    if kind == "A":
        V = SymArray.fresh(tag, n, "real")
        J = SymMat.fresh(tag + "J", n, m)
        return pp.ad.AdArray(V, J), V.elem, J.entry
    raise AssertionError(kind)


def case_node(pp, opname, kl, kr):
    """node with operation `opname`; kl/kr are the kinds of the *mathematical* left / right operand"""
    from porepy.numerics.ad.operators import Operations

    base = REFLECTED.get(opname, opname)
    spec, dom = SPEC[base]
    StubLeaf = _stub_leaf_class(pp)

    def run(ctx):
        n, m = ctx.int("n"), ctx.int("m")
        ctx.assume(n >= 1)
        ctx.assume(m >= 1)
        i, j = ctx.int("i"), ctx.int("j")
        ctx.assume((i >= 0) & (i < n))
        ctx.assume((j >= 0) & (j < m))
        lv, le, lj = _mk_value(ctx, pp, kl, "L", n, m)
        rv, re_, rj = _mk_value(ctx, pp, kr, "R", n, m)
        la, ra = SymReal(le(i.t)), SymReal(re_(i.t))
        if dom is not None:
            ctx.assume(dom(la, ra))
        left, right = StubLeaf(lv, "L"), StubLeaf(rv, "R")
        children = [right, left] if opname in REFLECTED else [left, right]  # reflected nodes store [self, other]
        node = pp.ad.Operator(children=children, operation=Operations[opname], name="node")
        parser = pp.ad.AdParser(None) if hasattr(pp.ad, "AdParser") else None
        if parser is None:
            from porepy.numerics.ad._ad_parser import AdParser

            parser = AdParser(None)
        try:
            res = parser._evaluate_single(node, None, _StubES())
        except ValueError as e:
            ctx.prove("the parser has a case for this operation (no 'unknown operation')", "unknown operation" not in str(e))
            ctx.prove("admitted operand kinds are evaluated without error", False)
            return "raised"
        ctx.prove("the parser has a case for this operation (no 'unknown operation')", True)
        val_spec = rterm(spec(la, ra))
        atoms = [(le(i.t), lj(i.t, j.t) if lj else None), (re_(i.t), rj(i.t, j.t) if rj else None)]
        has_ad = kl == "A" or kr == "A"
        if has_ad:
            ctx.prove("result of a node with an AdArray child is an AdArray", isinstance(res, pp.ad.AdArray))
            from props.C01 import _prove_result

            _prove_result(ctx, res, n, m, i, j, val_spec, atoms)
            # the same node on plain values (derivative=False) agrees with .val
            plain_l = lv.val if kl == "A" else lv
            plain_r = rv.val if kr == "A" else rv
            l2, r2 = StubLeaf(plain_l, "L2"), StubLeaf(plain_r, "R2")
            ch2 = [r2, l2] if opname in REFLECTED else [l2, r2]
            node2 = pp.ad.Operator(children=ch2, operation=Operations[opname], name="node2")
            res2 = parser._evaluate_single(node2, None, _StubES())
            got2 = rterm(res2.at(i)) if isinstance(res2, SymArray) else rterm(res2)
            ax, _ = oracle.axioms_for([got2, val_spec])
            for a in ax:
                ctx.assume(SymBool(a))
            ctx.prove("value without derivatives equals the value with derivatives", SymBool(got2 == rterm(res.val.at(i))))
        else:
            got = rterm(res.at(i)) if isinstance(res, SymArray) else rterm(res)
            ctx.prove("plain operands: value equals the numpy expression", SymBool(got == val_spec))
        if opname == "sub" and has_ad:
            ctx.prove("CANARY: a - b evaluates to b - a", SymBool(rterm(res.val.at(i)) == rterm(spec(ra, la))), expect_refuted=True)
        return "ok"

    return run


def case_matmul(pp, opname, kr):
    from porepy.numerics.ad._ad_parser import AdParser
    from porepy.numerics.ad.operators import Operations

    StubLeaf = _stub_leaf_class(pp)

    def run(ctx):
        n, m, k = ctx.int("n"), ctx.int("m"), ctx.int("k")
        for v in (n, m, k):
            ctx.assume(v >= 1)
        ii, j = ctx.int("ii"), ctx.int("j")
        ctx.assume((ii >= 0) & (ii < k))
        ctx.assume((j >= 0) & (j < m))
        A = SymMat.fresh("A", k, n)
        rv, re_, rj = _mk_value(ctx, pp, kr, "R", n, m)
        left, right = StubLeaf(A, "A"), StubLeaf(rv, "R")
        children = [right, left] if opname in REFLECTED else [left, right]
        node = pp.ad.Operator(children=children, operation=Operations[opname], name="node")
        parser = AdParser(None)
        try:
            res = parser._evaluate_single(node, None, _StubES())
        except ValueError as e:
            ctx.prove("the parser has a case for this operation (no 'unknown operation')", "unknown operation" not in str(e))
            ctx.prove("admitted operand kinds are evaluated without error", False)
            return "raised"
        ctx.prove("the parser has a case for this operation (no 'unknown operation')", True)
        if kr == "A":
            ctx.prove("A @ AdArray is an AdArray", isinstance(res, pp.ad.AdArray))
            ctx.prove("value is A @ val", SymBool(rterm(res.val.at(ii)) == (A @ rv.val.copy()).elem(ii)))
            ctx.prove("Jacobian is A @ jac", SymBool(res.jac.entry(ii, j) == (A @ rv.jac.copy()).entry(ii, j)))
            ctx.prove("CANARY: Jacobian is jac", SymBool(res.jac.entry(ii, j) == rv.jac.entry(ii, j)), expect_refuted=True)
        else:
            ctx.prove("value is A @ array", SymBool(rterm(res.at(ii)) == (A @ rv.copy()).elem(ii)))
        return "ok"

    return run


def case_variable(pp, shifted):
    """real Variable objects of a real one-cell grid; the equation system seen by the parser is a stub whose
    dofs_of returns a symbolic index array (its contract is C05)."""
    from porepy.numerics.ad._ad_parser import AdParser

    def run(ctx):
        g = pp.CartGrid([1, 1])
        g.compute_geometry()
        mdg = pp.MixedDimensionalGrid()
        mdg.add_subdomains(g)
        es = pp.ad.EquationSystem(mdg)
        v = es.create_variables("u", subdomains=[g])  # md-variable
        atom = v.sub_vars[0]
        N, q = ctx.int("N"), ctx.int("q")
        ctx.assume(N >= 1)
        ctx.assume(q >= 1)
        K = SymArray.fresh("K", q, "int")
        r, c = ctx.int("r"), ctx.int("c")
        ctx.assume((r >= 0) & (r < q))
        ctx.assume((c >= 0) & (c < N))
        ctx.assume(SymBool(z3.And(K.elem(r) >= 0, K.elem(r) < N.t)))
        state = SymArray.fresh("state", N, "real")
        (ad_base,) = pp.ad.initAdArrays([state])

        class ES:
            pass

        stub = ES()
        stub.mdg = mdg
        stub.dofs_of = lambda variables: K
        parser = AdParser(mdg)
        if not shifted:
            for label, op in (("atomic variable", atom), ("md variable", v)):
                res = parser._evaluate_single(op, ad_base, stub)
                ctx.prove(f"{label}: value is state[dofs]", SymBool(rterm(res.val.at(r)) == state.elem(K.elem(r))))
                ctx.prove(f"{label}: Jacobian row r is the unit row of dof K[r]",
                          SymBool(res.jac.entry(r, c) == z3.If(c.t == K.elem(r), z3.RealVal(1), z3.RealVal(0))))
                res0 = parser._evaluate_single(op, state, stub)
                ctx.prove(f"{label}: without derivatives the value is state[dofs]", SymBool(rterm(res0.at(r)) == state.elem(K.elem(r))))
            return "ok"
        W = SymArray.fresh("W", q, "real")
        data = mdg.subdomain_data(g)
        for which, mk, store in (("previous time step", lambda o: o.previous_timestep(), pp.TIME_STEP_SOLUTIONS),
                                 ("previous iterate", lambda o: o.previous_iteration(), pp.ITERATE_SOLUTIONS)):
            data.setdefault(store, {}).setdefault("u", {})
            sh = mk(atom)
            # porepy's convention: the index the shifted operator itself reports (previous_timestep(1) -> time step
            # index 0 = last accepted step; previous_iteration(1) -> iterate index 0 = most recently computed iterate)
            idx = sh.time_step_index if store == pp.TIME_STEP_SOLUTIONS else sh.iterate_index
            data[store]["u"] = {idx: W}
            res = parser._evaluate_single(sh, ad_base, stub)
            plain = not isinstance(res, pp.ad.AdArray)
            ctx.prove(f"{which}: shifted variable evaluates to a plain array (contributes no derivative)", plain)
            resv = res if plain else res.val
            ctx.prove(f"{which}: value is the stored array", SymBool(rterm(resv.at(r)) == W.elem(r)))
        return "ok"

    return run


def case_evaluate_wrapper(pp):
    from porepy.numerics.ad._ad_parser import AdParser

    StubLeaf = _stub_leaf_class(pp)

    def run(ctx):
        n, N = ctx.int("n"), ctx.int("N")
        ctx.assume(n >= 1)
        ctx.assume(N >= 1)
        V = SymArray.fresh("V", n, "real")
        state = SymArray.fresh("state", N, "real")

        class ES:
            mdg = None

            def num_dofs(self):
                return N

        parser = AdParser(None)
        i, c = ctx.int("i"), ctx.int("c")
        ctx.assume((i >= 0) & (i < n))
        ctx.assume((c >= 0) & (c < N))
        res = parser.evaluate(StubLeaf(V, "V"), ES(), True, state)
        ctx.prove("a constant array evaluates to an AdArray", isinstance(res, pp.ad.AdArray))
        ctx.prove("its value is the array", SymBool(rterm(res.val.at(i)) == V.elem(i)))
        ctx.prove("its Jacobian is zero with num_dofs columns", SymBool(z3.And(res.jac.entry(i, c) == 0, sym.iterm(res.jac.nc) == N.t)))
        res2 = parser.evaluate(StubLeaf(V, "V"), ES(), False, state)
        ctx.prove("derivative=False returns the plain value", SymBool(rterm(res2.at(i)) == V.elem(i)))
        ctx.prove("the cache is cleared after evaluate", len(parser._cache) == 0)
        return "ok"

    return run


def case_function_node(pp, flavour, kinds):
    """An operator-function node f(c_1, .., c_k) evaluated by the real parser through the real AbstractFunction.__call__ / func
    (and the real DiagonalJacobianFunction.get_jacobian / Function.func) with children of the given value kinds.
    Contract of AbstractFunction.func (from its documentation and the statement: the node denotes the function applied to the
    denotations of the children, with derivative as soon as ANY child carries one)."""

    StubLeaf = _stub_leaf_class(pp)

    def run(ctx):
        n, m = ctx.int("n"), ctx.int("m")
        ctx.assume(n >= 1)
        ctx.assume(m >= 1)
        i, j = ctx.int("i"), ctx.int("j")
        ctx.assume((i >= 0) & (i < n))
        ctx.assume((j >= 0) & (j < m))
        vals = [_mk_value(ctx, pp, k, f"C{q}", n, m) for q, k in enumerate(kinds)]
        leaves = [StubLeaf(v[0], f"C{q}") for q, v in enumerate(vals)]
        has_ad = "A" in kinds
        from porepy.numerics.ad._ad_parser import AdParser

        parser = AdParser(None)
        seen = {}
        if flavour == "abstract":
            VAL = SymArray.fresh("VAL", n, "real")
            JAC = SymMat.fresh("JAC", n, m)

            class G(pp.ad.AbstractFunction):
                def get_values(self, *args):
                    seen["values"] = args
                    return VAL

                def get_jacobian(self, *args):
                    seen["jac"] = args
                    return JAC

            node = G(name="g")(*leaves)
            res = parser._evaluate_single(node, None, _StubES())
            ctx.prove("get_values receives the children's values in call order", len(seen.get("values", ())) == len(vals)
                      and all(a is v[0] for a, v in zip(seen["values"], vals)))
            if has_ad:
                ctx.prove("a node with an AdArray child (in ANY position) evaluates to an AdArray", isinstance(res, pp.ad.AdArray))
                if isinstance(res, pp.ad.AdArray):
                    ctx.prove("its value is get_values(*children)", SymBool(rterm(res.val.at(i)) == VAL.elem(i)))
                    ctx.prove("its Jacobian is get_jacobian(*children)", SymBool(res.jac.entry(i, j) == JAC.entry(i, j)))
                    ctx.prove("get_jacobian receives the children's values in call order", len(seen.get("jac", ())) == len(vals)
                              and all(a is v[0] for a, v in zip(seen["jac"], vals)))
            else:
                ctx.prove("a node without AdArray children evaluates to the plain value", isinstance(res, SymArray))
                if isinstance(res, SymArray):
                    ctx.prove("which is get_values(*children)", SymBool(rterm(res.at(i)) == VAL.elem(i)))
            return "ok"
        if flavour == "diagonal":
            mult = [2.0, -0.5, 3.0][: len(kinds)]
            VAL = SymArray.fresh("VAL", n, "real")

            class D(pp.ad.DiagonalJacobianFunction):
                def get_values(self, *args):
                    return VAL

            node = D(mult, "d")(*leaves)
            res = parser._evaluate_single(node, None, _StubES())
            if has_ad:
                ctx.prove("a node with an AdArray child (in ANY position) evaluates to an AdArray", isinstance(res, pp.ad.AdArray))
                if isinstance(res, pp.ad.AdArray):
                    want = z3.RealVal(0)
                    for mu, (v, e, jf) in zip(mult, vals):
                        if jf is not None:
                            want = want + z3.RealVal(repr(mu)) * jf(i.t, j.t)
                    ctx.prove("value is get_values(*children)", SymBool(rterm(res.val.at(i)) == VAL.elem(i)))
                    ctx.prove("Jacobian is the sum of multiplier_k * Jacobian of child k over the AdArray children", SymBool(res.jac.entry(i, j) == want))
            else:
                ctx.prove("a node without AdArray children evaluates to the plain value", isinstance(res, SymArray))
            return "ok"
        # flavour == "function": pp.ad.Function wrapping a python callable on forward-mode arrays
        f = (lambda a, b: a * b + a) if len(kinds) == 2 else (lambda a: a * a)
        node = pp.ad.Function(f, "f")(*leaves)
        res = parser._evaluate_single(node, None, _StubES())
        direct = f(*[v[0] for v in vals])
        if has_ad:
            ctx.prove("a node with an AdArray child (in ANY position) evaluates to an AdArray", isinstance(res, pp.ad.AdArray))
            if isinstance(res, pp.ad.AdArray):
                ctx.prove("value equals the wrapped function on the children's values", SymBool(rterm(res.val.at(i)) == rterm(direct.val.at(i))))
                ctx.prove("Jacobian equals the wrapped function's Jacobian", SymBool(res.jac.entry(i, j) == direct.jac.entry(i, j)))
        else:
            got = rterm(res.at(i)) if isinstance(res, SymArray) else rterm(res)
            want = rterm(direct.at(i)) if isinstance(direct, SymArray) else rterm(direct)
            ctx.prove("plain children: value equals the wrapped function", SymBool(got == want))
        return "ok"

    return run


def case_shift_recursion(pp, which):
    """Operator.previous_timestep / previous_iteration (real _get_previous_time_or_iterate recursion) on composite trees with a
    SYMBOLIC number of steps: every variable leaf of the copy is shifted by exactly `steps`, every other leaf is the same
    object, the shape and operations of the tree are unchanged, the original tree is untouched."""

    def leaves(op, acc):
        if not op.children:
            acc.append(op)
        for c in op.children:
            leaves(c, acc)
        return acc

    def shape(op):
        return (type(op).__name__, getattr(op.operation, "name", None), tuple(shape(c) for c in op.children))

    # the trees are built here, outside the shadowed-builtins region (DenseArray.__init__ passes `float` to numpy)
    g1 = pp.CartGrid([2, 1])
    g1.compute_geometry()
    mdg = pp.MixedDimensionalGrid()
    mdg.add_subdomains(g1)
    es = pp.ad.EquationSystem(mdg)
    u = es.create_variables("u", subdomains=[g1])
    w = es.create_variables("w", subdomains=[g1])
    c = pp.ad.Scalar(2.0)
    d = pp.ad.DenseArray(np.array([1.0, 2.0]))
    trees = {
        "u*w": u * w,
        "2*(u+d)/w": c * (u + d) / w,
        "exp(u*w)-u.sub_vars[0]": pp.ad.Function(pp.ad.functions.exp, "exp")(u * w) - u.sub_vars[0],
        "(d*u)**2": (d * u) ** c,
    }

    def run(ctx):
        S = ctx.int("steps")
        ctx.assume(S >= 1)
        for name, tree in trees.items():
            before = [(l, getattr(l, "_time_step_index", None), getattr(l, "_iterate_index", None)) for l in leaves(tree, [])]
            new = tree.previous_timestep(steps=S) if which == "time" else tree.previous_iteration(steps=S)
            ctx.prove(f"{name}: the shifted tree has the same shape and operations", shape(new) == shape(tree))
            ok_frame = all(getattr(l, "_time_step_index", None) is a and getattr(l, "_iterate_index", None) is b for l, a, b in before)
            ctx.prove(f"{name}: the original tree is untouched", ok_frame)
            for lo, ln in zip(leaves(tree, []), leaves(new, [])):
                if isinstance(lo, pp.ad.Variable):
                    subs = [(lo, ln)] + (list(zip(lo.sub_vars, ln.sub_vars)) if isinstance(lo, pp.ad.MixedDimensionalVariable) else [])
                    for a, b in subs:
                        if which == "time":
                            ctx.prove(f"{name}: variable leaf {a.name} is `steps` time steps back (index steps - 1, as the leaf's own previous_timestep(steps))",
                                      SymBool(z3.And(sym.iterm(b.time_step_index) == S.t - 1, sym.iterm(b.time_step_index) == sym.iterm(a.previous_timestep(steps=S).time_step_index))))
                        else:
                            # public convention: the current iterate and the most recent stored one both have index 0, `steps` back is steps - 1
                            ctx.prove(f"{name}: variable leaf {a.name} is `steps` iterates back (index steps - 1, as the leaf's own previous_iteration(steps))",
                                      SymBool(z3.And(sym.iterm(b.iterate_index) == S.t - 1, sym.iterm(b.iterate_index) == sym.iterm(a.previous_iteration(steps=S).iterate_index))))
                            ctx.prove(f"{name}: variable leaf {a.name} stays at the current time", b.time_step_index == a.time_step_index)
                else:
                    ctx.prove(f"{name}: constant leaf is kept", ln is lo)
        if which == "iterate":
            ctx.assume(S >= 2)
            b = (u * w).previous_iteration(steps=S)
            ctx.prove("CANARY: a shift by `steps` iterates moves the variable by one iterate",
                      SymBool(sym.iterm(leaves(b, [])[0].iterate_index) == sym.iterm(u.iterate_index) + 1), expect_refuted=True)
        return "ok"

    return run


# ----------------------------------------------------------------------------- sweep


def _build_system(pp, rng, which):
    if which == 0:
        g = pp.CartGrid([2, 2])
        g.compute_geometry()
        mdg = pp.MixedDimensionalGrid()
        mdg.add_subdomains(g)
    else:
        fr = [np.array([[0.5, 0.5], [0.0, 1.0]])] if which == 1 else [np.array([[0.5, 0.5], [0.0, 1.0]]), np.array([[0.0, 1.0], [0.5, 0.5]])]
        mdg = pp.meshing.cart_grid(fr, np.array([2, 2]), physdims=np.array([1.0, 1.0]))
        mdg.compute_geometry()
    es = pp.ad.EquationSystem(mdg)
    sds = mdg.subdomains()
    # on the fractured grids the md-variable lists its subdomains in REVERSE order, so that the order of its sub-variables differs
    # from the global dof order
    u = es.create_variables("u", subdomains=sds if which == 0 else sds[::-1])
    w = es.create_variables("w", dof_info={"cells": 2}, subdomains=sds[:1])
    lam = es.create_variables("lam", interfaces=mdg.interfaces()) if mdg.interfaces() else None
    N = es.num_dofs()
    for t in range(2):
        es.set_variable_values(np.array([rng.uniform(0.6, 1.4) for _ in range(N)]), time_step_index=t)
    for t in range(2):
        es.set_variable_values(np.array([rng.uniform(0.6, 1.4) for _ in range(N)]), iterate_index=t)
    return mdg, es, u, w, lam


def _stored(es, var, time_step_index=None, iterate_index=None):
    """Den of a shifted variable: the stored global vector of that time step / iterate at the dofs of the variable, in the SAME
    order as the current variable (base[dofs_of([var])]) -- not whatever order get_variable_values([var]) happens to return."""
    full = es.get_variable_values(time_step_index=time_step_index) if time_step_index is not None else es.get_variable_values(iterate_index=iterate_index)
    return full[es.dofs_of([var])]


def _direct(pp, es, leaf_kind, payload, base):
    """Den(leaf) on forward-mode arrays built from the current state"""
    if leaf_kind == "var":
        return base[es.dofs_of([payload])]
    if leaf_kind in ("prev_t", "prev_i"):
        var, k = payload
        vals = _stored(es, var, time_step_index=k) if leaf_kind == "prev_t" else _stored(es, var, iterate_index=k)
        return vals
    return payload


def _sweep(rep, pp):
    rng = rep.rng
    quick = rep.tier == "quick"
    fns = pp.ad.functions
    with rep.sweep(
        "overload x operand kinds and random trees through EquationSystem.evaluate",
        rule="(a) every binary overload with every (left kind, right kind) in {variable, md-variable, Scalar, DenseArray, SparseArray, float, int, "
             "ndarray, sparse matrix} where at least one side is an Operator, on 3 md-grids; (b) seeded random trees of depth <= 3 over variables, "
             "previous time-step/iterate variables, scalars, dense arrays, sparse matrices, projections and wrapped functions; expected = the same "
             "Python expression on forward-mode arrays of the current state; nontrivial = a variable occurs; distinct by expression string",
        bound="3 md-grids (0, 1, 2 fractures on a 2x2 grid); trees depth <= 3", exhaustive=False,
    ) as sw:
        for which in (0, 1, 2):
            mdg, es, u, w, lam = _build_system(pp, rng, which)
            N = es.num_dofs()
            state = es.get_variable_values(iterate_index=0)
            (base,) = pp.ad.initAdArrays([state.copy()])
            nu = es.dofs_of([u]).size

            def check(desc, op, expect, nontrivial=True):
                sw.case((which, desc), nontrivial, sample={"grid": which, "expr": desc})
                try:
                    with warnings.catch_warnings():
                        warnings.simplefilter("ignore")
                        got = es.evaluate(op, derivative=True)
                        got0 = es.evaluate(op, derivative=False)
                except Exception as e:
                    rep.violation("evaluate: expression evaluates", _sig(desc), inputs={"grid": which, "expr": desc},
                                  detail=f"{type(e).__name__}: {str(e)[:300]}")
                    return
                if isinstance(expect, pp.ad.AdArray):
                    ev, ej = expect.val, expect.jac.toarray()
                else:
                    ev = np.atleast_1d(np.asarray(expect, dtype=float))
                    ej = np.zeros((ev.size, N))
                ok_v = got.val.shape == ev.shape and np.allclose(got.val, ev, rtol=1e-11, atol=1e-12)
                gj = got.jac.toarray()
                ok_j = gj.shape == ej.shape and np.allclose(gj, ej, rtol=1e-10, atol=1e-12)
                g0 = np.atleast_1d(np.asarray(got0.val if isinstance(got0, pp.ad.AdArray) else got0, dtype=float))
                ok_0 = g0.shape == ev.shape and np.allclose(g0, ev, rtol=1e-11, atol=1e-12)
                if not ok_v:
                    rep.violation("evaluate: value equals direct forward-mode evaluation", _sig(desc), inputs={"grid": which, "expr": desc}, detail=f"{got.val} vs {ev}")
                if not ok_j:
                    rep.violation("evaluate: Jacobian equals direct forward-mode evaluation", _sig(desc), inputs={"grid": which, "expr": desc}, detail="jacobian mismatch")
                if not ok_0:
                    rep.violation("evaluate: value without derivatives agrees", _sig(desc), inputs={"grid": which, "expr": desc}, detail=f"{g0} vs {ev}")

            # ---- (a) overload table
            arr = np.array([rng.uniform(0.6, 1.4) for _ in range(nu)])
            M = sps.csr_matrix(np.array([[rng.choice([0, 1, 0.5, -2]) for _ in range(nu)] for _ in range(nu)], dtype=float))
            du = base[es.dofs_of([u])]
            operands = {
                "u": (u, du), "u_atom": (u.sub_vars[0], base[es.dofs_of([u.sub_vars[0]])]),
                "Scalar": (pp.ad.Scalar(1.5), 1.5), "Dense": (pp.ad.DenseArray(arr), arr), "Sparse": (pp.ad.SparseArray(M), M),
                "float": (1.5, 1.5), "int": (2, 2), "ndarray": (arr, arr), "spmatrix": (M, M),
            }
            import operator as _op

            ops = {"+": _op.add, "-": _op.sub, "*": _op.mul, "/": _op.truediv, "**": _op.pow, "@": _op.matmul}
            for (ln, (lo, lv)), (rn, (ro, rv)) in itertools.product(operands.items(), repeat=2):
                if not (isinstance(lo, pp.ad.Operator) or isinstance(ro, pp.ad.Operator)):
                    continue
                if ln == "u_atom" and which != 0:
                    continue
                for sym_, f in ops.items():
                    lsp = ln in ("Sparse", "spmatrix")
                    rsp = rn in ("Sparse", "spmatrix")
                    if sym_ == "@":
                        if not lsp or rsp:
                            continue  # only matrix @ vector-like is admitted
                        if rn in ("Scalar", "float", "int"):
                            continue
                    else:
                        if lsp or rsp:
                            continue
                    if ln == "u_atom" or rn == "u_atom":
                        lvv = lv if ln != "u_atom" else lv
                        rvv = rv if rn != "u_atom" else rv
                        if (ln == "u_atom" and rn in ("u", "Dense", "ndarray")) or (rn == "u_atom" and ln in ("u", "Dense", "ndarray")):
                            continue  # sizes differ
                    desc = f"{ln} {sym_} {rn}"
                    try:
                        expect = _direct_binop(pp, f, sym_, lv, rv)
                    except Exception:
                        continue
                    try:
                        op = f(lo, ro)
                    except Exception as e:
                        rep.violation("overload: expression builds an operator", desc, inputs={"expr": desc}, detail=f"{type(e).__name__}: {e}")
                        continue
                    if not isinstance(op, pp.ad.Operator):
                        rep.violation("overload: expression builds a single operator (numpy must defer to the reflected overload)", desc,
                                      inputs={"expr": desc}, detail=f"got {type(op).__name__}")
                        continue
                    check(desc, op, expect, nontrivial=("u" in desc))
            # ---- shifted variables, atomic and mixed-dimensional, alone and inside a product
            for var, vname in ((u, "u"), (u.sub_vars[0], "u_atom"), (w, "w")) + (((lam, "lam"),) if lam is not None else ()):
                cur = base[es.dofs_of([var])]
                for steps in (1, 2):
                    pt, pi = var.previous_timestep(steps), var.previous_iteration(steps)
                    et = _stored(es, var, time_step_index=pt.time_step_index)
                    ei = _stored(es, var, iterate_index=pi.iterate_index)
                    check(f"{vname}.prev_t{steps}", pt, et)
                    check(f"{vname}.prev_i{steps}", pi, ei)
                    check(f"{vname}*{vname}.prev_t{steps}", var * pt, cur * et)
                    check(f"{vname}.prev_i{steps}-{vname}", pi - var, (-cur) + ei)
                check(f"({vname}*{vname}).prev_t1", (var * var).previous_timestep(), et_sq(es, var))
                e2t = _stored(es, var, time_step_index=var.previous_timestep(2).time_step_index)
                e2i = _stored(es, var, iterate_index=var.previous_iteration(2).iterate_index)
                check(f"({vname}*{vname}).prev_t2", (var * var).previous_timestep(steps=2), e2t * e2t)
                check(f"({vname}*{vname}+{vname}).prev_i2", (var * var + var).previous_iteration(steps=2), e2i * e2i + e2i)
            # ---- (b) random trees
            ntrees = (25 if quick else 250)
            sds = mdg.subdomains()
            proj = pp.ad.SubdomainProjections(sds, dim=1)

            def leaf():
                k = rng.choice(["u", "u", "prev_t", "prev_i", "scalar", "dense", "w"])
                if k == "u":
                    return u, base[es.dofs_of([u])], "u"
                if k == "w":
                    # restrict w (2 dofs per cell on first subdomain) to size of u via a sparse matrix
                    nw = es.dofs_of([w]).size
                    R = sps.csr_matrix(np.array([[rng.choice([0, 1, -1]) for _ in range(nw)] for _ in range(nu)], dtype=float))
                    return pp.ad.SparseArray(R) @ w, R @ base[es.dofs_of([w])], "(R@w)"
                if k == "prev_t":
                    steps = rng.choice([1, 2])
                    pt = u.previous_timestep(steps)
                    return pt, _stored(es, u, time_step_index=pt.time_step_index), f"u.prev_t{steps}"
                if k == "prev_i":
                    steps = rng.choice([1, 2])
                    pi = u.previous_iteration(steps)
                    return pi, _stored(es, u, iterate_index=pi.iterate_index), f"u.prev_i{steps}"
                if k == "scalar":
                    c = rng.choice([0.5, 2.0, 3.0])
                    return pp.ad.Scalar(c), c, f"S({c})"
                a = np.array([rng.uniform(0.6, 1.4) for _ in range(nu)])
                return pp.ad.DenseArray(a), a, "D"

            F = [("exp", fns.exp), ("sin", fns.sin), ("log", fns.log), ("abs", fns.abs), ("tanh", fns.tanh)]

            def tree(d):
                if d == 0 or rng.random() < 0.25:
                    return leaf()
                k = rng.choice(["bin", "bin", "fun", "left", "mat", "neg", "proj"])
                if k == "fun":
                    name, f = rng.choice(F)
                    o, e, s = tree(d - 1)
                    if isinstance(e, float):
                        return o, e, s
                    return pp.ad.Function(f, name)(o), f(e), f"{name}({s})"
                if k == "neg":
                    o, e, s = tree(d - 1)
                    return -o, -e, f"(-{s})"
                if k == "mat":
                    o, e, s = tree(d - 1)
                    if isinstance(e, float):
                        return o, e, s
                    Mx = sps.csr_matrix(np.array([[rng.choice([0, 0, 1, 0.5]) for _ in range(nu)] for _ in range(nu)], dtype=float))
                    if rng.random() < 0.5:
                        return pp.ad.SparseArray(Mx) @ o, Mx @ e, f"(SpA@{s})"
                    return Mx @ o, Mx @ e, f"(M@{s})"
                if k == "proj":
                    o, e, s = tree(d - 1)
                    if isinstance(e, float) or len(sds) < 2:
                        return o, e, s
                    sub = [sds[0]]
                    P = proj.cell_prolongation(sub) @ (proj.cell_restriction(sub) @ o)
                    mask = np.zeros(nu)
                    mask[: sds[0].num_cells] = 1.0
                    return P, e * mask, f"PR({s})"
                if k == "left":
                    o, e, s = tree(d - 1)
                    c = rng.choice([2.0, 0.5, 3])
                    kind = rng.choice(["*", "/", "**", "-", "+", "arr*", "arr-", "arr/"])
                    if isinstance(e, float):
                        return o, e, s
                    if kind == "*":
                        return c * o, c * e, f"({c}*{s})"
                    if kind == "+":
                        return c + o, c + e, f"({c}+{s})"
                    if kind == "-":
                        return c - o, c - e, f"({c}-{s})"
                    pos_o, pos_e = o * o + 0.5, e * e + 0.5
                    if kind == "/":
                        return c / pos_o, c / pos_e, f"({c}/({s}^2+.5))"
                    if kind == "**":
                        return c ** o, _rpow(pp, c, e), f"({c}**{s})"
                    a = np.array([rng.uniform(0.6, 1.4) for _ in range(nu)])
                    if kind == "arr*":
                        return a * o, _rmul(pp, a, e), f"(arr*{s})"
                    if kind == "arr-":
                        return a - o, _rsub(pp, a, e), f"(arr-{s})"
                    return a / pos_o, _rdiv(pp, a, pos_e), f"(arr/({s}^2+.5))"
                lo, le, ls = tree(d - 1)
                ro, re_, rs = tree(d - 1)
                kind = rng.choice(["+", "-", "*", "/"])
                if isinstance(le, float) and isinstance(re_, float):
                    return lo, le, ls
                if kind == "+":
                    return lo + ro, _add(pp, le, re_), f"({ls}+{rs})"
                if kind == "-":
                    return lo - ro, _add(pp, le, -re_), f"({ls}-{rs})"
                if kind == "*":
                    return lo * ro, _mul(pp, le, re_), f"({ls}*{rs})"
                den_o, den_e = ro * ro + 0.5, _add(pp, _mul(pp, re_, re_), 0.5)
                return lo / den_o, _mul(pp, le, _inv(pp, den_e)), f"({ls}/({rs}^2+.5))"

            for _ in range(ntrees):
                try:
                    with warnings.catch_warnings():
                        warnings.simplefilter("ignore")
                        o, e, s = tree(3)
                except (ValueError, FloatingPointError, ZeroDivisionError):
                    sw.skip()
                    continue
                except (TypeError, AttributeError) as exc:
                    # the generator only combines admitted operand kinds: an overload that cannot build the operator is a defect
                    rep.violation("overload: expression builds an operator", f"{type(exc).__name__} while building a tree",
                                  inputs={"grid": which}, detail=str(exc)[:300])
                    continue
                if not isinstance(o, pp.ad.Operator):
                    sw.skip()
                    continue
                ev = e.val if isinstance(e, pp.ad.AdArray) else np.asarray(e, dtype=float)
                if not np.all(np.isfinite(ev)) or (np.size(ev) and np.max(np.abs(ev)) > 1e8):
                    sw.skip()
                    continue
                check(s, o, e, nontrivial=("u" in s or "w" in s))


def et_sq(es, var):
    v = _stored(es, var, time_step_index=0)
    return v * v


def _add(pp, a, b):
    if isinstance(a, np.ndarray) and isinstance(b, pp.ad.AdArray):
        return b + a
    return a + b


def _mul(pp, a, b):
    if isinstance(a, np.ndarray) and isinstance(b, pp.ad.AdArray):
        return b * a
    return a * b


def _inv(pp, a):
    return a ** -1.0 if isinstance(a, pp.ad.AdArray) else 1.0 / a


def _rmul(pp, a, e):
    return e * a if isinstance(e, pp.ad.AdArray) else a * e


def _rsub(pp, a, e):
    return (-e) + a if isinstance(e, pp.ad.AdArray) else a - e


def _rdiv(pp, a, e):
    return e.__rtruediv__(a) if isinstance(e, pp.ad.AdArray) else a / e


def _rpow(pp, c, e):
    return e.__rpow__(float(c)) if isinstance(e, pp.ad.AdArray) else float(c) ** e


def _direct_binop(pp, f, sym_, lv, rv):
    """direct forward-mode evaluation of `lv sym rv` (ndarray-left cases use the mathematically equal AdArray-left form,
    since numpy's own ndarray o AdArray broadcasting is what the AdArray documentation forbids)"""
    A = pp.ad.AdArray
    if isinstance(lv, np.ndarray) and isinstance(rv, A):
        if sym_ == "+":
            return rv + lv
        if sym_ == "-":
            return (-rv) + lv
        if sym_ == "*":
            return rv * lv
        if sym_ == "/":
            return rv.__rtruediv__(lv)
        if sym_ == "**":
            return rv.__rpow__(lv)
    if sps.issparse(lv) and isinstance(rv, A):
        return rv.__rmatmul__(lv)
    if isinstance(lv, (int, float)) and isinstance(rv, A):
        lv = float(lv)
    return f(lv, rv)


def _sig(desc):
    import re

    toks = sorted(set(re.findall(r"[A-Za-z_.]+\(|\*\*|[-+*/@]", desc)))
    return "ops:" + ",".join(t.rstrip("(") for t in toks)


def replay(data):
    return False


def run(rep):
    import porepy as pp
    from porepy.numerics.ad import _ad_parser, forward_mode, functions, operators

    rep.under_contract("AdParser._evaluate_single", "AdParser.evaluate", "Operator.__add__ .. __rmatmul__ (via the operations they produce)",
                       "Operator._parse_other", "Variable.parse", "TimeDependentOperator.previous_timestep", "IterativeOperator.previous_iteration",
                       "EquationSystem.evaluate")
    rep.assume("requires: operand sizes compatible; evaluation point in the smooth domain of / and ** (as C01)",
               "stub leaves stand for the recursive call of _evaluate_single (modular: checked against the contract, not the body)",
               "EquationSystem.dofs_of is a stub in the variable cases (its contract is C05)")
    rep.crosschecks += oracle.selfcheck(rep.seed, n=5)
    # operations the real overloads can produce (computed from the real class on every run)
    s = pp.ad.Scalar(2.0)
    t = pp.ad.Scalar(3.0)
    produced = set()
    for meth in ("__add__", "__radd__", "__sub__", "__rsub__", "__mul__", "__rmul__", "__truediv__", "__rtruediv__", "__pow__", "__rpow__",
                 "__matmul__", "__rmatmul__"):
        produced.add(getattr(s, meth)(t).operation.name)
    produced.add((-s).operation.name if isinstance(-s, pp.ad.Operator) and (-s).operation.name != "void" else "mul")
    rep.extra["operations_produced_by_overloads"] = sorted(produced)
    # numpy deferral rule
    defer = getattr(pp.ad.Operator, "__array_ufunc__", "absent") is None
    rep.obligation("Operator: numpy defers ndarray o Operator to the reflected overloads (__array_ufunc__ is None)",
                   "discharged" if defer else "refuted", "P", "python-class-attribute")
    refuted = []
    if not defer:
        refuted.append(("Operator: numpy defers ndarray o Operator to the reflected overloads (__array_ufunc__ is None)", None, {"model": "class attribute missing"}))
    mods = [_ad_parser, forward_mode, functions, operators]
    pairs = [("A", "A"), ("A", "F"), ("F", "A"), ("A", "N"), ("N", "A"), ("N", "N"), ("F", "N"), ("N", "F")]
    shift_cases = {which: case_shift_recursion(pp, which) for which in ("time", "iterate")}
    with shims.shadow_builtins(mods), shims.numpy_shims():
        for opname in sorted(produced):
            if opname in ("matmul", "rmatmul"):
                for kr in ("A", "N"):
                    rf, _ = run_case(rep, f"_evaluate_single[{opname}](sparse, {kr})", case_matmul(pp, opname, kr), allowed_exceptions=(ValueError,))
                    refuted += rf
                continue
            if REFLECTED.get(opname, opname) not in SPEC:
                continue
            for kl, kr in pairs:
                if opname in REFLECTED and kr != "A":
                    continue  # reflected nodes are only built with an Operator as the right operand
                rf, _ = run_case(rep, f"_evaluate_single[{opname}]({kl},{kr})", case_node(pp, opname, kl, kr), allowed_exceptions=(ValueError,))
                refuted += rf
        for shifted in (False, True):
            rf, _ = run_case(rep, f"_evaluate_single[variable, shifted={shifted}]", case_variable(pp, shifted))
            refuted += rf
        rf, _ = run_case(rep, "AdParser.evaluate (wrapping of constants, cache)", case_evaluate_wrapper(pp))
        refuted += rf
        from porepy.numerics.ad import operator_functions

        with shims.shadow_builtins([operator_functions]):
            for flavour in ("abstract", "diagonal", "function"):
                for kinds in (("A",), ("N",), ("A", "A"), ("A", "N"), ("N", "A"), ("A", "F"), ("F", "A"), ("N", "N"), ("N", "F")):
                    rf, _ = run_case(rep, f"_evaluate_single[evaluate: {flavour} function]({','.join(kinds)})", case_function_node(pp, flavour, kinds),
                                     allowed_exceptions=(ValueError,))
                    refuted += rf
        for which in ("time", "iterate"):
            rf, _ = run_case(rep, f"Operator.previous_{'timestep' if which == 'time' else 'iteration'}(steps) on composite trees", shift_cases[which])
            refuted += rf
    rep.trust(*sorted(shims.USED_MODELS))
    for name, ctx, r in refuted:
        rep.violation(name, name.split(":")[0], inputs=None, detail=f"z3 counter-model: {r['model']}"[:1500], confirmed=False, solver_output=str(r["model"]))
    _sweep(rep, pp)
