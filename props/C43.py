"""C43 — unit conversion is consistent and simulations are unit-invariant.

Tier P : Units.convert_units runs on a *symbolic unit string*: a token sequence of symbolic length whose tokens have
         symbolic unit factors (> 0) and optional symbolic real powers.  The token loop is a cut-point with the invariant
         value = v / prod_{k<i} factor_k^{power_k} (resp. v * prod for to_si), the product being the uninterpreted prefix
         product defined by its recursion.  Post: the result is v divided (multiplied) by the full product, arrays are
         converted on a copy (frame), the trivial strings return the value unchanged.
Tier Ps: all unit strings with <= 3 factors over the 11 unit names and a set of powers, with all base units symbolic
         positive reals: round trip, composition convert(v,"a*b") = convert(convert(v,"a"),"b"), derived units equal their
         base-unit expressions, degree = rad*180/pi; every declared constant of every Constants class converts to
         convert(SI value, SI unit) in any unit system, keeps constants_in_SI, and converts back to its SI value.
Tier B : numeric sweeps (random scalings, arrays, strings with blanks) and -- for the last sentence of the statement -- one
         single-phase flow model solved in SI and in scaled units (m, kg), solutions compared in SI.
"""
from __future__ import annotations

META = {
    "level": "other",
    "engine": "pse",
    "technique": "contract-based deductive verification: loop invariant (running product) of the real convert_units token loop for symbolic unit strings, identities for enumerated unit strings with symbolic base units discharged by z3; numeric sweep and one scaled model run as bounded stand-in",
    "text": "Tier P: for a unit string with any number of factors, any unit factors > 0 and any real powers, convert_units divides (to_si: multiplies) "
            "by exactly the product of factor^power over the tokens and never modifies its argument. Tier Ps (unit strings enumerated up to 3 "
            "factors, all values symbolic): round trip, composition, derived-unit and degree identities; all constants of all Constants classes in "
            "symbolic unit systems. Tier B: numeric sweep; the model-invariance clause is only exercised on one small flow model (deduction not "
            "applicable to a whole simulation). Mixed tiers -> level 'other'.",
    "note": "floats as reals; x**p for non-integer p is the uninterpreted pow with pow(x,a)*pow(x,-a)=1 style instances; the string operations replace/split/in "
            "are modelled by the token-sequence proxy in tier P and are the real str methods in tiers Ps/B; time scaling s != 1 is rejected by the constructor",
}

import itertools
import warnings

import numpy as np
import z3

from engine import cutpoint, oracle, shims, sym
from engine.arrays import SymArray
from engine.harness import run_case
from engine.sym import SymBool, SymInt, SymReal, iterm, rterm

BASE = ["m", "s", "kg", "K", "mol", "rad"]
DERIVED = {"Pa": {"kg": 1, "m": -1, "s": -2}, "J": {"kg": 1, "m": 2, "s": -2}, "N": {"kg": 1, "m": 1, "s": -2}, "W": {"kg": 1, "m": 2, "s": -3}}


# ----------------------------------------------------------------------------- tier P: symbolic unit string


class NameAtom:
    def __init__(self, k):
        self.k = k


class PowAtom:
    def __init__(self, k):
        self.k = k


class Token:
    def __init__(self, seq, k):
        self.seq, self.k = seq, k

    def __contains__(self, ch):
        assert ch == "^"
        return bool(SymBool(self.seq.haspow(iterm(self.k))))

    def split(self, ch):
        assert ch == "^"
        return NameAtom(self.k), PowAtom(self.k)


class TokenSeq:
    _pretend = (list,)

    def __init__(self, n):
        self.n = n
        self.haspow = z3.Function("haspow", z3.IntSort(), z3.BoolSort())
        self.U = z3.Function("unit_factor", z3.IntSort(), z3.RealSort())
        self.pw = z3.Function("power", z3.IntSort(), z3.RealSort())

    def factor(self, k):
        return z3.If(self.haspow(k), sym.POW(self.U(k), self.pw(k)), self.U(k))

    def _sym_len(self):
        return self.n

    def _sym_item(self, i):
        return Token(self, i)

    def __iter__(self):
        raise sym.EngineLimit("token loop must be a cut-point")


class TokenIter:
    """what `units.split('*')` returns: iterated by the (rewritten) for loop"""


class UnitStr:
    def __init__(self, seq, trivial):
        self.seq, self.trivial = seq, trivial

    def replace(self, a, b):
        return self

    def __eq__(self, o):
        if isinstance(o, str) and o in ("", "1", "-"):
            return self.trivial == o
        return NotImplemented

    def __hash__(self):
        return id(self)

    def split(self, ch):
        assert ch == "*"
        return self.seq


class ProdHooks:
    def __init__(self, state, v0, seq, P, to_si):
        self.state, self.v0, self.seq, self.P, self.to_si = state, v0, seq, P, to_si

    def havoc(self, ctx):
        self.state["havoc"](ctx)

    def inv(self, ctx, i, r):
        cur = self.state["value"]()
        it = iterm(i)
        want = self.v0 * self.P(it) if self.to_si else self.v0 / self.P(it)
        return [("value = v (*|/) prod_{k<i} factor_k^power_k", SymBool(cur == want))]


def case_token_loop(pp, to_si, array):
    from porepy.models import units as umod

    def run(ctx):
        n = ctx.int("ntok")
        ctx.assume(n >= 1)
        seq = TokenSeq(n)
        P = z3.Function("prefix_product", z3.IntSort(), z3.RealSort())
        k = z3.Int("__pk")
        ctx.assume(SymBool(P(0) == 1))
        ctx.add_axiom(z3.ForAll([k], z3.Implies(k >= 0, P(k + 1) == P(k) * seq.factor(k)), patterns=[P(k + 1)]))
        ctx.add_axiom(z3.ForAll([k], z3.Implies(k >= 0, P(k) > 0), patterns=[P(k)]))  # product of positive factors (requires unit factors > 0)
        ctx.add_axiom(z3.ForAll([k], seq.U(k) > 0, patterns=[seq.U(k)]))
        u = pp.Units()
        state = {}
        if array:
            m = ctx.int("len")
            ctx.assume(m >= 1)
            V = SymArray.fresh("V", m, "real")
            j = ctx.int("j")
            ctx.assume((j >= 0) & (j < m))
            v0 = V.elem(j)
            ve = V._elem
        else:
            v = ctx.real("v")
            v0 = v.t
        holder = {}

        # the loop variable `value` is a local of convert_units: the hooks reach it through the frame of the rewritten function
        import sys

        def find_value():
            f = sys._getframe()
            while f is not None:
                if f.f_code.co_name == "convert_units" and "value" in f.f_locals:
                    return f
                f = f.f_back
            raise sym.EngineLimit("convert_units frame not found")

        def cur_value():
            val = holder["get"]()
            return val.elem(j) if array else rterm(val)

        class Box:
            """value container so that the local `value` can be havoc'ed: convert_units only does value *= f / value /= f"""

        def havoc(ctx2):
            fr = find_value()
            if array:
                fr.f_locals["value"]._elem = (lambda f: (lambda i: f(i)))(z3.Function(ctx2.fresh_name("hv"), z3.IntSort(), z3.RealSort()))
            else:
                # scalars are rebound; havoc through a mutable cell installed below
                holder["cell"].t = z3.Real(ctx2.fresh_name("hv"))

        state["havoc"] = havoc
        state["value"] = cur_value

        if array:
            arg = V
            holder["get"] = lambda: find_value().f_locals["value"]
        else:
            # a SymReal whose in-place ops mutate the same object, so that havoc can reach it
            class Cell(SymReal):
                def __imul__(self, o):
                    self.t = self.t * rterm(o)
                    return self

                def __itruediv__(self, o):
                    self.t = self.t / rterm(o)
                    return self

            cell = Cell(v0)
            holder["cell"] = cell
            holder["get"] = lambda: cell
            arg = cell

        hooks = ProdHooks(state, v0, seq, P, to_si)
        newf, desc, tok = cutpoint.rewrite_loop(umod.Units.convert_units, 0, hooks, "token loop")
        ctx.trace.append(("cutpoint", desc))

        def sym_getattr(obj, name, *d):
            if isinstance(name, (NameAtom, Token)):
                return SymReal(seq.U(iterm(name.k)))
            return getattr(obj, name, *d)

        def sym_float(x=0.0):
            if isinstance(x, PowAtom):
                return SymReal(seq.pw(iterm(x.k)))
            return shims.sym_float(x)

        try:
            with shims.shadow_builtins([umod], extra={"getattr": sym_getattr, "float": sym_float}):
                res = newf(u, arg, UnitStr(seq, None), to_si)
        finally:
            cutpoint.restore(tok)
        got = res.elem(j) if array else rterm(res)
        want = v0 * P(n.t) if to_si else v0 / P(n.t)
        ax, _ = oracle.axioms_for([got, want])
        ctx.prove("result is v multiplied (to_si) / divided by the product of factor^power over all tokens", SymBool(got == want))
        if array:
            ctx.prove("frame: the argument array is not modified (conversion works on a copy)", V._elem is ve and res is not V)
        ctx.prove("CANARY: result equals v", SymBool(got == v0), expect_refuted=True)
        return "ok"

    return run


def case_trivial(pp):
    def run(ctx):
        u = pp.Units()
        v = ctx.real("v")
        for s in ("", "1", "-", " ", " - "):
            ctx.prove(f"trivial unit string {s!r} leaves the value unchanged", SymBool(rterm(u.convert_units(v, s)) == v.t))
        return "ok"

    return run


# ----------------------------------------------------------------------------- tier Ps: enumerated strings


def _sym_units(ctx, pp):
    vals = {}
    for b in BASE:
        if b == "s":
            vals[b] = 1  # the constructor rejects non-unitary time scaling
        else:
            vals[b] = ctx.real("u_" + b)
            ctx.assume(vals[b] > 0)
    u = pp.Units.__new__(pp.Units)
    pp.Units.__init__(u, **vals)
    return u, vals


def _factor(vals, name):
    if name in BASE:
        return vals[name] if name != "s" else 1
    if name == "degree":
        return vals["rad"] * 180 / SymReal(sym.PI)
    r = 1
    for b, p in DERIVED[name].items():
        r = r * (vals[b] ** p if b != "s" else 1)
    return r


POWERS = [None, "2", "-1", "-2", "3", "0.5", "-0.5", "1.0"]
NAMES = BASE + list(DERIVED) + ["degree"]


def _strings(quick):
    singles = [(n, p) for n in NAMES for p in POWERS]
    out = [[t] for t in singles]
    sub = [("m", "2"), ("kg", None), ("s", "-2"), ("Pa", "-1"), ("K", "-1"), ("degree", None), ("mol", "0.5"), ("rad", "-0.5"), ("J", None), ("W", "2")]
    out += [[a, b] for a in sub for b in sub]
    if not quick:
        out += [[a, b, c] for a in sub[:6] for b in sub[:6] for c in sub[:6]]
    else:
        out += [[a, b, c] for a in sub[:3] for b in sub[3:6] for c in sub[6:9]]
    return out


def _render(toks, blanks=False):
    parts = [n if p is None else f"{n}^{p}" for n, p in toks]
    return (" * " if blanks else "*").join(parts)


def _expected(vals, toks):
    r = SymReal(z3.RealVal(1))
    for n, p in toks:
        f = _factor(vals, n)
        f = f if isinstance(f, SymReal) else SymReal(rterm(f))
        r = r * (f if p is None else f ** float(p))
    return r


def case_strings(pp, chunk, quick):
    def run(ctx):
        u, vals = _sym_units(ctx, pp)
        v = ctx.real("v")
        for toks in chunk:
            s = _render(toks)
            exp = _expected(vals, toks)
            got = u.convert_units(v, s)
            back = u.convert_units(got, s, to_si=True)
            terms = [rterm(got), rterm(back), rterm(exp)]
            ax, _ = oracle.axioms_for(terms)
            hyp = list(ax) + list(sym.CONST_AXIOMS)
            # pow facts for positive bases: pow(x,p) > 0 is instantiated by axioms_for
            st, m, be = sym.discharge(ctx.pc + hyp, z3.And(rterm(got) * rterm(exp) == v.t, rterm(back) == v.t), 10000)
            ctx.results.append({"name": "convert(v,u) = v / prod factor^power, and converting back returns v", "status": st, "model": m, "s": 0.0,
                                "backend": be, "canary": False, "decisions": [], "what": s})
            if len(toks) >= 2:
                a, b = _render(toks[:1]), _render(toks[1:])
                step = u.convert_units(u.convert_units(v, a), b)
                st, m, be = sym.discharge(ctx.pc + hyp + oracle.axioms_for([rterm(step)])[0], rterm(step) == rterm(got), 10000)
                ctx.results.append({"name": "convert(v,'a*b') = convert(convert(v,'a'),'b')", "status": st, "model": m, "s": 0.0, "backend": be,
                                    "canary": False, "decisions": [], "what": s})
            sb = _render(toks, blanks=True)
            gotb = u.convert_units(v, sb)
            st, m, be = sym.discharge(ctx.pc + hyp, rterm(gotb) == rterm(got), 10000)
            ctx.results.append({"name": "blanks in the unit string are ignored", "status": st, "model": m, "s": 0.0, "backend": be, "canary": False,
                                "decisions": [], "what": sb})
        return "ok"

    return run


def case_derived(pp):
    def run(ctx):
        u, vals = _sym_units(ctx, pp)
        for name in DERIVED:
            ctx.prove(f"derived unit {name} equals its base-unit expression", SymBool(rterm(getattr(u, name)) == rterm(_factor(vals, name))))
        for a in sym.CONST_AXIOMS:
            ctx.assume(SymBool(a))
        ctx.prove("degree = rad * 180 / pi", SymBool(rterm(u.degree) == rterm(vals["rad"]) * 180 / sym.PI))
        ctx.prove("CANARY: Pa = kg*m/s^2", SymBool(rterm(u.Pa) == rterm(vals["kg"] * vals["m"])), expect_refuted=True)
        return "ok"

    return run


def _constants_classes(pp):
    import porepy.compositional.materials as mat

    return [getattr(mat, n) for n in ("FluidComponent", "SolidConstants", "FractureDamageSolidConstants", "NumericalConstants", "ReferenceVariableValues")
            if hasattr(mat, n)]


def case_constants(pp, cls):
    def run(ctx):
        u, vals = _sym_units(ctx, pp)
        si = {k: ctx.real("c_" + k) for k in cls.SI_units}
        c = cls(name="x", units=u, **si)
        for k, unit in cls.SI_units.items():
            toks = []
            for part in unit.replace(" ", "").split("*"):
                if part in ("", "1", "-"):
                    continue
                nm, _, pw = part.partition("^")
                toks.append((nm, pw or None))
            exp = _expected(vals, toks)
            got = getattr(c, k)
            terms = [rterm(got), rterm(exp)]
            ax, _ = oracle.axioms_for(terms)
            for a in ax:
                ctx.assume(SymBool(a))
            for a in sym.CONST_AXIOMS:
                ctx.assume(SymBool(a))
            ctx.prove(f"{k} [{unit}]: stored value is the SI value converted to the unit system", SymBool(rterm(got) * rterm(exp) == si[k].t))
            ctx.prove(f"{k}: constants_in_SI keeps the SI value", SymBool(rterm(c.constants_in_SI[k]) == si[k].t))
            back = u.convert_units(got, unit, to_si=True)
            ctx.prove(f"{k}: converting back to SI returns the SI value", SymBool(rterm(back) == si[k].t))
        # a second unit system through to_units
        u2, vals2 = _sym_units_named(ctx, pp, "w")
        c2 = c.to_units(u2)
        k0 = next(iter(cls.SI_units))
        for k in list(cls.SI_units)[:6]:
            ctx.prove(f"to_units: {k} keeps its SI value", SymBool(rterm(c2.constants_in_SI[k]) == si[k].t))
            back = u2.convert_units(getattr(c2, k), cls.SI_units[k], to_si=True)
            ax, _ = oracle.axioms_for([rterm(back)])
            for a in ax:
                ctx.assume(SymBool(a))
            ctx.prove(f"to_units: {k} converts back to its SI value", SymBool(rterm(back) == si[k].t))
        ctx.prove("to_units returns a new object and leaves the original unchanged", c2 is not c and c.units is u)
        return "ok"

    return run


def _sym_units_named(ctx, pp, tag):
    vals = {}
    for b in BASE:
        if b == "s":
            vals[b] = 1
        else:
            vals[b] = ctx.real(f"{tag}_{b}")
            ctx.assume(vals[b] > 0)
    u = pp.Units.__new__(pp.Units)
    pp.Units.__init__(u, **vals)
    return u, vals


# ----------------------------------------------------------------------------- tier B


def _sweep(rep, pp):
    rng = rep.rng
    quick = rep.tier == "quick"
    with rep.sweep("numeric unit conversion",
                   rule="seeded unit systems (m, kg, K, mol, rad in [1e-3, 1e3]) x unit strings (<= 3 factors, powers incl. non-integers, blanks) x scalar and "
                        "array values; expected from the base-unit exponents; round trip; argument array unchanged; nontrivial = non-unit scaling; distinct by "
                        "(units, string)", bound="30 (quick) / 300 (thorough) unit systems x 60 strings", exhaustive=False) as sw:
        strings = _strings(True)
        for _ in range(30 if quick else 300):
            vals = {b: 10 ** rng.uniform(-3, 3) for b in BASE if b != "s"}
            u = pp.Units(**vals)
            fv = dict(vals, s=1.0)
            for toks in rng.sample(strings, 60):
                s = _render(toks, blanks=rng.random() < 0.3)
                f = 1.0
                for n, p in toks:
                    if n in BASE:
                        b = fv[n]
                    elif n == "degree":
                        b = fv["rad"] * 180 / np.pi
                    else:
                        b = np.prod([fv[k] ** e for k, e in DERIVED[n].items()])
                    f *= b ** (1.0 if p is None else float(p))
                v = rng.uniform(0.5, 2.0)
                arr = np.array([v, 2 * v, -v])
                keep = arr.copy()
                sw.case((tuple(sorted(vals.items())), s), True, sample={"units": vals, "string": s})
                try:
                    g = u.convert_units(v, s)
                    ga = u.convert_units(arr, s)
                    back = u.convert_units(g, s, to_si=True)
                except Exception as e:  # noqa
                    rep.violation("convert_units accepts valid unit strings", f"raises {type(e).__name__}", inputs={"units": vals, "string": s}, detail=str(e)[:200])
                    continue
                if not (np.isclose(g, v / f, rtol=1e-10) and np.allclose(ga, arr / f, rtol=1e-10)):
                    rep.violation("conversion divides by the product of unit factors", "numeric", inputs={"units": vals, "string": s}, detail=f"{g} vs {v / f}")
                if not np.isclose(back, v, rtol=1e-10):
                    rep.violation("converting to simulation units and back returns the value", "numeric", inputs={"units": vals, "string": s}, detail=f"{back} vs {v}")
                if not np.array_equal(arr, keep):
                    rep.violation("convert_units does not modify its argument", "array argument changed", inputs={"units": vals, "string": s}, detail="")
        # histories: a Units object that has been used, whose base units are then re-assigned by attribute (the way Units.__init__ documents for
        # changing base units after construction): derived units and conversions must follow the current base units
        for _ in range(5 if quick else 50):
            v1 = {b: 10 ** rng.uniform(-3, 3) for b in BASE if b != "s"}
            v2 = {b: 10 ** rng.uniform(-3, 3) for b in BASE if b != "s"}
            u = pp.Units(**v1)
            first = {n: getattr(u, n) for n in list(DERIVED) + ["degree"]}  # use the object (every derived unit read once)
            u.convert_units(1.0, "Pa*m^3*kg^-1")
            for b, val in v2.items():
                setattr(u, b, val)
            fv = dict(v2, s=1.0)
            sw.case(("re-assigned", tuple(sorted(v1.items())), tuple(sorted(v2.items()))), True, sample={"first": v1, "then": v2})
            for n in list(DERIVED) + ["degree"]:
                want = fv["rad"] * 180 / np.pi if n == "degree" else np.prod([fv[k] ** e for k, e in DERIVED[n].items()])
                if not np.isclose(getattr(u, n), want, rtol=1e-12):
                    rep.violation("derived units agree with the base-unit expressions", f"{n} after re-assigning the base units of a used Units object",
                                  inputs={"history": "re-assigned", "first": v1, "then": v2, "unit": n}, detail=f"{n} = {getattr(u, n)}, base-unit expression {want} (before the re-assignment {first[n]})")
            for s, f in (("Pa", fv["kg"] / fv["m"]), ("J*kg^-1", fv["m"] ** 2), ("W*m^-1*K^-1", fv["kg"] * fv["m"] / fv["K"])):
                g = u.convert_units(2.0, s)
                if not np.isclose(g, 2.0 / f, rtol=1e-10):
                    rep.violation("conversion divides by the product of unit factors", "after re-assigning the base units of a used Units object",
                                  inputs={"history": "re-assigned", "first": v1, "then": v2, "string": s}, detail=f"{g} vs {2.0 / f}")
    if rep.tier == "thorough" or True:
        _model_invariance(rep, pp)


def _model_invariance(rep, pp):
    with rep.sweep("scaled flow model",
                   rule="single-phase flow (2x2 Cartesian grid, one fracture) solved in SI and with scaled units; pressures compared in SI",
                   bound="unit systems {m=2, kg=3}, {m=0.1, kg=50}", exhaustive=False) as sw:
        try:
            from porepy.applications.md_grids.model_geometries import SquareDomainOrthogonalFractures
            from porepy.models.fluid_mass_balance import SinglePhaseFlow

            class M(SquareDomainOrthogonalFractures, SinglePhaseFlow):
                def bc_values_pressure(self, bg):
                    vals = self.reference_variable_values.pressure * np.ones(bg.num_cells)
                    vals[self.domain_boundary_sides(bg).east] += self.units.convert_units(1e5, "Pa")
                    return vals

            def solve(units):
                solid = pp.SolidConstants(permeability=2.0e-12, porosity=0.2, normal_permeability=1e-10, residual_aperture=1e-3)
                fluid = pp.FluidComponent(viscosity=1.5e-3, density=1000.0, compressibility=4e-10)
                params = {"material_constants": {"solid": solid, "fluid": fluid}, "units": units, "fracture_indices": [0, 1], "cartesian": True, "times_to_export": []}
                m = M(params)
                with warnings.catch_warnings():
                    warnings.simplefilter("ignore")
                    pp.run_time_dependent_model(m, {"nl_convergence_tol_res": 1e-12, "nl_convergence_tol": 1, "progressbars": False})
                p = m.equation_system.get_variable_values([m.pressure_variable], time_step_index=0)
                return m.units.convert_units(p, "Pa", to_si=True), m

            ref, _ = solve(pp.Units())
            for vals in ({"m": 2.0, "kg": 3.0}, {"m": 0.1, "kg": 50.0}):
                got, m = solve(pp.Units(**vals))
                sw.case(tuple(sorted(vals.items())), True, sample=vals)
                if ref.shape != got.shape or not np.allclose(got, ref, rtol=1e-7, atol=1e-9 * (1 + np.max(np.abs(ref)))):
                    rep.violation("a flow model with scaled length and mass units gives the same SI solution", "single-phase flow", inputs=vals,
                                  detail=f"max diff {np.max(np.abs(got - ref)) if ref.shape == got.shape else 'shape'}")

            # the same with gravity (a vector source with the dimension of an acceleration)
            class MG(SquareDomainOrthogonalFractures, pp.constitutive_laws.GravityForce, SinglePhaseFlow):
                bc_values_pressure = M.bc_values_pressure

            M_plain = M
            try:
                M = MG  # noqa: F841  (solve() builds M)
                refg, _ = solve(pp.Units())
                for vals in ({"m": 2.0, "kg": 3.0}, {"m": 0.1, "kg": 50.0}):
                    got, m = solve(pp.Units(**vals))
                    sw.case(("gravity",) + tuple(sorted(vals.items())), True, sample=dict(vals, gravity=True))
                    if refg.shape != got.shape or not np.allclose(got, refg, rtol=1e-7, atol=1e-9 * (1 + np.max(np.abs(refg)))):
                        rep.violation("a flow model with scaled length and mass units gives the same SI solution", "single-phase flow with gravity", inputs=dict(vals, gravity=True),
                                      detail=f"max diff {np.max(np.abs(got - refg)) if refg.shape == got.shape else 'shape'}")
                if np.allclose(refg, ref):
                    rep.note("gravity variant of the scaled flow model: gravity has no effect on the pressure (vacuous)")
            finally:
                M = M_plain
        except Exception as e:  # noqa
            rep.note(f"scaled-model run not available in this tree: {type(e).__name__}: {str(e)[:200]}")


def replay(data):
    return False


def run(rep):
    import porepy as pp
    from porepy.models import units as umod

    rep.under_contract("Units.__init__", "Units.Pa/J/N/W/degree", "Units.convert_units", "Constants.__post_init__", "Constants.to_units")
    rep.assume("requires: base units positive; unit strings name only the 11 known units; powers are real literals",
               "the prefix product of the token factors is defined by its recursion and is positive (product of positive reals; induction not re-proved)",
               "model-invariance clause: not a contract of one function; one small flow model is run in tier B only")
    refuted = []
    quick = rep.tier == "quick"
    with shims.shadow_builtins([umod]), shims.numpy_shims():
        for to_si in (False, True):
            for array in (False, True):
                rf, _ = run_case(rep, f"convert_units[symbolic unit string, to_si={to_si}, {'array' if array else 'scalar'}]", case_token_loop(pp, to_si, array))
                refuted += rf
        rf, _ = run_case(rep, "convert_units[trivial strings]", case_trivial(pp))
        refuted += rf
        rf, _ = run_case(rep, "derived units", case_derived(pp), tier="Ps")
        refuted += rf
        strs = _strings(quick)
        for c in range(0, len(strs), 40):
            rf, _ = run_case(rep, f"unit strings {c}-{min(c + 40, len(strs)) - 1}", case_strings(pp, strs[c:c + 40], quick), tier="Ps")
            refuted += rf
        for cls in _constants_classes(pp):
            rf, _ = run_case(rep, f"Constants[{cls.__name__}]", case_constants(pp, cls), tier="Ps")
            refuted += rf
    rep.trust(*sorted(shims.USED_MODELS))
    for name, ctx, r in refuted:
        rep.violation(name, name.split(":")[0], inputs=None, detail=f"z3 counter-model: {r['model']}"[:1200], confirmed=False, solver_output=str(r["model"]))
    _sweep(rep, pp)
