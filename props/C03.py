"""C03 -- model Jacobians are the derivative of the model residual.

Tier B (bounded stand-in for the DESIGN lemma over C01/C02): for every shipped model family
(SinglePhaseFlow, MassAndEnergyBalance, MomentumBalance, Poromechanics, Thermoporomechanics) on the unit square /
unit cube with 0-3 orthogonal fractures (intersecting when more than one), Cartesian and simplex (gmsh) grids with
cell_size 0.5, two sets of material constants (a generic one where no term vanishes, and the porepy defaults, which
take the "void Barton-Bandis" and "no elastic tangential deformation" branches), default (Dirichlet) and mixed
Dirichlet/Neumann boundary conditions:

    prepare_simulation(); one time step is entered (before_nonlinear_loop); a seeded random admissible state x is
    stored as the current iterate and a different one as the previous time step; the model's own
    update_derived_quantities() discretizes once at x (upwind directions and aperture-dependent fracture
    transmissibilities are evaluated at x and then HELD FIXED); (J, b) = model.assemble_linear_system() /
    model.linear_system; the residual is r(y) = -EquationSystem.assemble(evaluate_jacobian=False, state=y)
    (porepy returns the negative residual as right-hand side).  For seeded directions d (all variable blocks at once,
    and one block at a time), scaled per variable block,

        J d  ==  (r(x + h d) - r(x - h d)) / (2 h)          row-wise, h = 1e-6,

    with the row tolerance 1e-6 * (|J| |d| + (|r(x+hd)| + |r(x-hd)|)/2 + block scale): central differences have
    truncation error O(h^2) ~ 1e-12 and round-off ~ 1e-16 / h = 1e-10 relative to the O(1) terms of the rows, so the
    tolerance is ~4 orders of magnitude above the noise and ~5 below the effect of a wrong or missing derivative.

The state is sampled in the smooth region of the constitutive laws (the statement's quantifier), and the regime is
sampled PER FRACTURE CELL from {closed+stick, closed+slip, open}:
    closed:  t_n < 0 with -t_n - c (u_n - gap) > 0;  stick: ||t_t + c du_t|| < b_p,  slip: > b_p;
    open:    t_n > 0 (hence friction bound max(-F t_n, 0) = 0 exactly, characteristic function = 1) and
             -t_n - c (u_n - gap) < 0;
the normal displacement jump is non-zero (both signs in the closed regime: both branches of the
aperture = max(u_n + a_res, a_res) law of the poromechanics families), tangential jumps and tangential sums are
non-zero (l2_norm is smooth).  After sampling, the arguments of every max / norm / characteristic function are
evaluated with the model's own operators and the case is skipped (requires) when a margin is below 1e-3; pressures
and temperatures are positive.

Static audit (DESIGN C03(a)): the ASTs of the model source files are walked and every pp.ad.Function(...),
DiagonalJacobianFunction, InterpolatedFunction, SurrogateFactory use and every AbstractFunction subclass is listed with
the wrapped callable in evidence coverage["ad_function_audit"]; nothing is flagged on it.

Out of scope (requires), named in the evidence: the deliberately approximate linearisation "differentiable_mpfa"
(AdTpfaFlux with an Mpfa base discretization; documented as `d(T_MPFA p) ~ T_MPFA dp + p_diff d(T_TPFA)`); it is
not used by the five default families.  The exact variant (AdTpfaFlux on a Tpfa base: DarcysLawAd / FouriersLawAd with
CubicLawPermeability, where the transmissibility is an AD expression of the state) is covered in the thorough tier as an
extra family, as are the TPSA three-field variants of momentum balance / poromechanics.

Detection power (scratch copy /var/tmp/src_models, one mutant at a time, POREPY_SRC=/var/tmp/src_models ./check C03
--tier quick; all caught by "assemble_linear_system: Jacobian equals the directional derivative of the residual" unless
said otherwise; signatures name family + equation block):
  M1 constitutive_laws.DisplacementJumpAperture.aperture: the max function wrapped so that only values are returned
     (derivative of the aperture w.r.t. the displacement jump lost)  -> exit 1; Poromechanics / Thermoporomechanics rows of
     mass_balance_equation, interface_darcy_flux_equation, energy_balance_equation, interface_fourier_flux_equation.
  M2 ad.functions.l2_norm (dim > 1): sign of the derivative flipped -> exit 1 (rows of normal/tangential fracture
     deformation equations of the 3-D MomentumBalance / Poromechanics cases; not visible in 2-D where the norm is abs --
     this is why quick contains two 3-D models).
  M3 fluid_property_library.pressure_exponential: exponential wrapped in a Function whose Jacobian has the wrong sign
     -> exit 1 (mass_balance / energy_balance / interface_enthalpy_flux rows of all flow families).
  M4 constitutive_laws.BartonBandis: opening_decrease detached from its Jacobian -> exit 1 (normal_fracture_deformation rows).
  M5 AdArray.__pow__ (scalar exponent): derivative p * v**p instead of p * v**(p-1) -> exit 1 (9 family/equation classes).
  M6 ad.functions.maximum: Jacobian rows never switched to the second argument -> exit 1 (contact equations, aperture).
  M7 EquationSystem.assemble(evaluate_jacobian=False) returns +residual -> exit 1 (also caught by "right-hand side equals
     the negative residual-only assembly at the same state").
  M8 fluid_mass: porosity(...).previous_iteration() (a "previous-iterate version inside the product"): for constant
     porosity this changes residual and Jacobian consistently (J stays the exact derivative: NOT a violation of C03, and
     not reported for SinglePhaseFlow / MassAndEnergyBalance); for the poromechanics families the operator cannot be built
     and the check reports "model assembly: evaluates on an admissible model/state" (exit 1).
  Replay: ./check C03 --replay <file> rebuilds model, states and directions from the stored spec (REPRODUCED on the mutant
  tree, NOT-REPRODUCED on /repo/src).
"""
from __future__ import annotations

META = {
    "level": "other",
    "engine": "sweep",
    "technique": "lemma over the C01 / C02 contracts (model Jacobian = derivative of the residual by structural induction over operator trees) whose premise -- every "
                 "node of every equation tree of the built models is of a kind proved in C02 and every operator function wraps a C01-verified function -- is decided on the "
                 "real operator trees on every run; run-time contract sweep (bounded stand-in): assembled model Jacobian times seeded directions compared row-wise with central "
                 "differences of the assembled residual, discretization matrices held fixed, over enumerated model families / fracture sets / grids / materials / "
                 "contact regimes; plus a static AST audit of AD function wrappers in the model sources",
    "text": "Exploration: the five shipped model families (quick: flow, mass+energy, momentum, poromechanics in 2-D, thermoporomechanics on one 2-D grid; thorough adds 3-D, "
            "all thermoporomechanics configurations, mixed boundary conditions, TPSA and differentiable-TPFA variants) with 0-3 intersecting fractures on Cartesian and simplex "
            "grids, two material sets, states sampled in the smooth region with per-cell contact regimes {closed-stick, closed-slip, open}. Finite differences are the oracle; "
            "the lemma C01 + C02 => C03 is applied to exactly the models the sweep builds (its premise is a tree walk, reported as one bounded obligation; when a model "
            "uses a node outside the proved contracts the lemma is reported as not covering it and only the sweep decides). Not covered: wells (codimension-2 "
            "interfaces), compositional flow, gravity, non-matching grids, states on the kinks of max/norm functions (excluded by the statement), the approximate "
            "'differentiable_mpfa' linearisation (excluded, documented as approximate), larger grids.",
    "note": "finite-difference oracle with h=1e-6 and relative row tolerance 1e-6; regime margins are computed with the model's own constitutive operators (requires-filter only); "
            "discretization matrices are those produced by the model's update_derived_quantities() at the sampled state and are not re-computed for x +/- h d",
}

import ast
import contextlib
import os
import random
import shutil
import tempfile
import warnings

import numpy as np
import scipy.sparse as sps

H = 1e-6
RTOL = 1e-6
MARGIN = 1e-3
STATS: dict = {}


@contextlib.contextmanager
def _scratch_cwd():
    """gmsh (simplex grids) writes gmsh_frac_file.* into the current directory: work in a private scratch directory so that
    nothing is left in /verif and concurrent runs do not collide."""
    base = "/var/tmp" if os.path.isdir("/var/tmp") else None
    d = tempfile.mkdtemp(prefix="verif_C03_", dir=base)
    old = os.getcwd()
    os.chdir(d)
    try:
        yield d
    finally:
        os.chdir(old)
        shutil.rmtree(d, ignore_errors=True)

FAMILIES = {
    "flow": "SinglePhaseFlow",
    "mass_energy": "MassAndEnergyBalance",
    "momentum": "MomentumBalance",
    "poromechanics": "Poromechanics",
    "thermoporomechanics": "Thermoporomechanics",
    # extra (thorough): variants shipped as mixins
    "momentum_tpsa": "MomentumBalance+TpsaMomentumBalanceMixin",
    "poromechanics_tpsa": "Poromechanics+TpsaPoromechanicsMixin",
    "poromechanics_adtpfa": "Poromechanics+CubicLawPermeability+DarcysLawAd(Tpfa base)",
}

# FD direction / perturbation scale per variable name (the magnitude the sampled state has in that block)
VAR_SCALE = {
    "u": 0.05,
    "u_interface": 0.05,
    "contact_traction": 0.5,
}


# ----------------------------------------------------------------------------------------- model construction


def _materials(pp, variant):
    if variant == "defaults":
        return {}
    solid = pp.SolidConstants(
        biot_coefficient=0.8, density=1.3, dilation_angle=0.2, fracture_gap=0.01, fracture_normal_stiffness=1.5,
        fracture_tangential_stiffness=2.0, friction_coefficient=0.7, lame_lambda=1.4, maximum_elastic_fracture_opening=0.05,
        normal_permeability=0.9, permeability=0.6, porosity=0.15, residual_aperture=0.08, shear_modulus=0.9,
        specific_heat_capacity=1.2, thermal_conductivity=0.8, thermal_expansion=0.05, specific_storage=0.7,
    )
    fluid = pp.FluidComponent(
        compressibility=0.3, density=1.1, normal_thermal_conductivity=0.7, thermal_conductivity=0.9, thermal_expansion=0.12,
        specific_heat_capacity=0.85, viscosity=1.25,
    )
    numerical = pp.NumericalConstants(characteristic_displacement=0.5)
    return {"material_constants": {"solid": solid, "fluid": fluid, "numerical": numerical},
            "reference_variable_values": pp.ReferenceVariableValues(pressure=0.1, temperature=0.2)}


def _model_class(pp, spec):
    from porepy.applications.md_grids.model_geometries import CubeDomainOrthogonalFractures, SquareDomainOrthogonalFractures

    geom = SquareDomainOrthogonalFractures if spec["dim"] == 2 else CubeDomainOrthogonalFractures
    fam = spec["family"]
    bases = {
        "flow": (pp.SinglePhaseFlow,),
        "mass_energy": (pp.MassAndEnergyBalance,),
        "momentum": (pp.MomentumBalance,),
        "poromechanics": (pp.Poromechanics,),
        "thermoporomechanics": (pp.Thermoporomechanics,),
    }
    if fam in bases:
        phys = bases[fam]
    elif fam == "momentum_tpsa":
        phys = (pp.momentum_balance.TpsaMomentumBalanceMixin, pp.MomentumBalance)
    elif fam == "poromechanics_tpsa":
        phys = (pp.poromechanics.TpsaPoromechanicsMixin, pp.Poromechanics)
    elif fam == "poromechanics_adtpfa":

        class _Tpfa(pp.PorePyModel):
            def darcy_flux_discretization(self, subdomains):
                return pp.ad.TpfaAd(self.darcy_keyword, subdomains)

        phys = (_Tpfa, pp.constitutive_laws.CubicLawPermeability, pp.constitutive_laws.DarcysLawAd, pp.Poromechanics)
    else:
        raise KeyError(fam)

    class MixedBC(pp.PorePyModel):
        """west: Dirichlet, elsewhere Neumann (scalar problems); west+east Dirichlet, elsewhere Neumann (mechanics)."""

        def _scalar(self, sd):
            sides = self.domain_boundary_sides(sd)
            return pp.BoundaryCondition(sd, sides.west, "dir")

        def bc_type_darcy_flux(self, sd):
            return self._scalar(sd)

        def bc_type_fluid_flux(self, sd):
            return self._scalar(sd)

        def bc_type_fourier_flux(self, sd):
            return self._scalar(sd)

        def bc_type_enthalpy_flux(self, sd):
            return self._scalar(sd)

        def bc_type_mechanics(self, sd):
            sides = self.domain_boundary_sides(sd)
            bc = pp.BoundaryConditionVectorial(sd, sides.west + sides.east, "dir")
            bc.internal_to_dirichlet(sd)
            return bc

        def bc_values_pressure(self, bg):
            return 0.9 * np.ones(bg.num_cells)

        def bc_values_temperature(self, bg):
            return 1.1 * np.ones(bg.num_cells)

        def bc_values_darcy_flux(self, bg):
            return 0.1 * bg.cell_volumes

        def bc_values_fluid_flux(self, bg):
            return 0.1 * bg.cell_volumes

        def bc_values_fourier_flux(self, bg):
            return -0.2 * bg.cell_volumes

        def bc_values_enthalpy_flux(self, bg):
            return 0.05 * bg.cell_volumes

    mix = (MixedBC,) if spec.get("bc") == "mixed" else ()
    return type("C03Model", mix + (geom,) + tuple(phys), {})


def build_model(pp, spec):
    """Real porepy model, prepared and with one time step entered."""
    params = {
        "times_to_export": [],
        "fracture_indices": list(spec["fractures"]),
        "grid_type": spec["grid"],
        "meshing_arguments": {"cell_size": 0.5},
        "time_manager": pp.TimeManager(schedule=[0.0, 0.74], dt_init=0.37, constant_dt=True),
    }
    params.update(_materials(pp, spec["materials"]))
    m = _model_class(pp, spec)(params)
    m.prepare_simulation()
    m.time_manager.increase_time()
    m.time_manager.increase_time_index()
    m.before_nonlinear_loop()
    return m


# ----------------------------------------------------------------------------------------- state sampling


def _var_blocks(m):
    """{variable name: sorted global dofs}, in order of first appearance."""
    es = m.equation_system
    out = {}
    for v in es.variables:
        out.setdefault(v.name, []).append(np.asarray(es.dofs_of([v]), dtype=int))
    return {k: np.sort(np.concatenate(v)) if v else np.zeros(0, int) for k, v in out.items()}


def _u(rng, lo, hi, n=None):
    if n is None:
        return rng.uniform(lo, hi)
    return np.array([rng.uniform(lo, hi) for _ in range(n)])


def _sgn(rng, n):
    return np.array([rng.choice((-1.0, 1.0)) for _ in range(n)])


def _has_contact(m):
    return hasattr(m, "contact_traction") and len(m.mdg.subdomains(dim=m.nd - 1)) > 0


def _fracture_cell_dofs(m, var_name):
    """(n_frac_cells, nd) global dofs of an nd-vector cell variable on the fracture subdomains, in md order."""
    es = m.equation_system
    rows = []
    for sd in m.mdg.subdomains(dim=m.nd - 1):
        v = [v for v in es.variables if v.name == var_name and v.domain == sd][0]
        rows.append(np.asarray(es.dofs_of([v]), dtype=int).reshape(sd.num_cells, m.nd))
    return np.vstack(rows)


def _set_jump(pp, m, x, target):
    """Correct the interface displacement so that the model's displacement jump equals ``target`` (local coordinates,
    cell-wise [tangential..., normal]); the jump is linear in the interface displacement, its matrix is taken from the
    derivative of the model's own operator (state construction only)."""
    es = m.equation_system
    fr = m.mdg.subdomains(dim=m.nd - 1)
    ad = es.evaluate(m.displacement_jump(fr), derivative=True, state=x)
    cols = _var_blocks(m)[m.interface_displacement_variable]
    M = sps.csr_matrix(ad.jac)[:, cols].toarray()
    delta, *_ = np.linalg.lstsq(M, target - ad.val, rcond=None)
    x = x.copy()
    x[cols] += delta
    return x


def sample_state(pp, m, rng):
    """-> (x, x_prev, info).  Random admissible state in the smooth region; regimes per fracture cell."""
    es = m.equation_system
    blocks = _var_blocks(m)
    n = es.num_dofs()
    x = np.zeros(n)
    xp = np.zeros(n)
    for name, dofs in blocks.items():
        k = dofs.size
        if name in ("pressure", "temperature"):
            x[dofs] = _u(rng, 0.6, 1.4, k)
            xp[dofs] = _u(rng, 0.6, 1.4, k)
        elif name in ("u", "u_interface"):
            x[dofs] = _u(rng, -0.05, 0.05, k)
            xp[dofs] = x[dofs] + _u(rng, -0.004, 0.004, k)
        elif name == "contact_traction":
            pass
        else:  # interface fluxes, rotation stress, total pressure, anything else
            x[dofs] = _u(rng, -1.0, 1.0, k)
            xp[dofs] = _u(rng, -1.0, 1.0, k)
    info = {"regimes": {}}
    if _has_contact(m):
        nd = m.nd
        fr = m.mdg.subdomains(dim=nd - 1)
        tdofs = _fracture_cell_dofs(m, m.contact_traction_variable)
        nc = tdofs.shape[0]
        regimes = [rng.choice(("closed-stick", "closed-slip", "open")) for _ in range(nc)]
        F = float(np.atleast_1d(es.evaluate(m.friction_coefficient(fr)))[0])
        target = np.zeros((nc, nd))
        for i, reg in enumerate(regimes):
            tdir = np.array([rng.gauss(0, 1) for _ in range(nd - 1)])
            tdir /= np.linalg.norm(tdir)
            if reg == "open":
                tn = rng.uniform(0.01, 0.03)
                tt = rng.uniform(0.1, 0.4)
            else:
                tn = -rng.uniform(0.6, 1.4)
                tt = F * abs(tn) * (rng.uniform(0.25, 0.45) if reg == "closed-stick" else rng.uniform(1.6, 2.5))
            x[tdofs[i, : nd - 1]] = tt * tdir
            x[tdofs[i, nd - 1]] = tn
            udir = np.array([rng.gauss(0, 1) for _ in range(nd - 1)])
            udir /= np.linalg.norm(udir)
            target[i, : nd - 1] = rng.uniform(0.015, 0.03) * udir
            target[i, nd - 1] = 0.03
        xp[tdofs.ravel()] = x[tdofs.ravel()] + _u(rng, -0.01, 0.01, tdofs.size)
        x = _set_jump(pp, m, x, target.ravel())
        gap = np.broadcast_to(np.atleast_1d(es.evaluate(m.fracture_gap(fr), state=x)), (nc,))
        for i, reg in enumerate(regimes):
            if reg == "open":
                target[i, nd - 1] = gap[i] + rng.uniform(0.03, 0.06)
            else:
                target[i, nd - 1] = rng.choice((-1.0, 1.0)) * rng.uniform(0.02, 0.04)
        x = _set_jump(pp, m, x, target.ravel())
        ud = blocks[m.interface_displacement_variable]
        xp[ud] = x[ud] + _u(rng, -0.002, 0.002, ud.size)
        info["regimes"] = {r: regimes.count(r) for r in sorted(set(regimes))}
        info["normal_jump_signs"] = sorted(set(int(np.sign(v)) for v in target[:, nd - 1]))
    return x, xp, info


def kink_margins(pp, m, x):
    """Smallest distance of the state to a kink of the constitutive laws, from the model's own operators
    (requires-filter).  Returns (margin, description of the binding kink)."""
    es = m.equation_system
    blocks = _var_blocks(m)
    best = (np.inf, "none")

    def upd(vals, what):
        nonlocal best
        vals = np.atleast_1d(np.asarray(vals, dtype=float))
        if vals.size and (not np.all(np.isfinite(vals)) or np.min(np.abs(vals)) < best[0]):
            best = (float(np.min(np.abs(vals))) if np.all(np.isfinite(vals)) else 0.0, what)

    for name in ("pressure", "temperature"):
        if name in blocks and blocks[name].size:
            if np.min(x[blocks[name]]) <= 0:
                return 0.0, f"{name} not positive"
    if not _has_contact(m):
        return best
    nd = m.nd
    fr = m.mdg.subdomains(dim=nd - 1)
    nc = sum(sd.num_cells for sd in fr)

    def ev(op):
        return np.atleast_1d(np.asarray(es.evaluate(op, state=x), dtype=float))

    n_op, t_op = m.normal_component(fr), m.tangential_component(fr)
    t, u = m.contact_traction(fr), m.displacement_jump(fr)
    t_n, u_n = ev(n_op @ t), ev(n_op @ u)
    gap = np.broadcast_to(ev(m.fracture_gap(fr)), (nc,))
    c_op = m.contact_mechanics_numerical_constant(fr)
    c = np.broadcast_to(ev(c_op), (nc,))
    fb = np.broadcast_to(ev(m.friction_bound(fr)), (nc,))
    up_t = t_op @ m.plastic_displacement_jump(fr)
    s2t = pp.ad.sum_projection_list(m.basis(fr, dim=nd - 1))
    tsum = ev(t_op @ t + (s2t @ c_op) * pp.ad.time_increment(up_t)).reshape(nc, nd - 1)
    nts = np.linalg.norm(tsum, axis=1)
    nup = np.linalg.norm(ev(up_t).reshape(nc, nd - 1), axis=1)
    upd(-t_n - c * (u_n - gap), "normal complementarity max(-t_n - c(u_n-gap), 0)")
    bp = np.maximum(fb, 0.0)
    upd(fb, "friction bound max(-F t_n, 0)")
    upd(bp - nts, "stick/slip max(b_p, ||t_t + c du_t||)")
    upd(nts, "norm of tangential sum")
    upd(nup, "norm of plastic tangential jump (shear dilation)")
    tol = float(m.numerical.open_state_tolerance)
    upd(np.where(bp == 0.0, 1.0, bp - tol), "characteristic function |b_p| < tol")
    if isinstance(m, pp.constitutive_laws.DisplacementJumpAperture):
        upd(u_n, "aperture max(u_n + a_res, a_res)")
    mo = float(np.atleast_1d(ev(m.maximum_elastic_fracture_opening(fr)))[0])
    if mo > 0:
        ks = ev(m.fracture_normal_stiffness(fr) / m.characteristic_contact_traction(fr))
        upd(ks * mo - t_n, "Barton-Bandis denominator")
    return best


# ----------------------------------------------------------------------------------------- the contract


def _directions(m, rng, n_full, per_block):
    blocks = _var_blocks(m)
    n = m.equation_system.num_dofs()
    out = []
    for k in range(n_full):
        d = np.zeros(n)
        for name, dofs in blocks.items():
            d[dofs] = VAR_SCALE.get(name, 1.0) * _u(rng, -1, 1, dofs.size)
        out.append(("all variables", d))
    if per_block:
        for name, dofs in blocks.items():
            if dofs.size == 0:
                continue
            d = np.zeros(n)
            d[dofs] = VAR_SCALE.get(name, 1.0) * _u(rng, -1, 1, dofs.size)
            out.append((name, d))
    return out


class _Sink:
    """collects violations in replay"""

    def __init__(self):
        self.violations = []

    def violation(self, obligation, signature, inputs=None, detail="", confirmed=True, solver_output=None):
        self.violations.append((obligation, signature))


OB_EVAL = "model assembly: evaluates on an admissible model/state"
OB_JAC = "assemble_linear_system: Jacobian equals the directional derivative of the residual"
OB_RES = "assemble_linear_system: right-hand side equals the negative residual-only assembly at the same state"


# Lemma (C03 from C01 + C02).  If every node of every equation tree of a model is of a kind whose evaluation contract is proved
# in C02 (operations produced by the Operator overloads, leaves that parse to constants or to variables) and every operator-function
# node wraps a function of porepy.numerics.ad.functions whose value/Jacobian contract is proved in C01 (possibly through
# functools.partial fixing non-differentiated arguments), then by structural induction EquationSystem.assemble returns
# (d residual / d x, -residual): the Jacobian is the derivative of the residual wherever the residual is differentiable.
# The premise is a decidable statement about the real operator trees of a real model; it is checked on every model the sweep builds.
C01_FUNCTIONS = ("exp", "log", "abs", "sin", "cos", "tan", "arcsin", "arccos", "arctan", "sinh", "cosh", "tanh", "arcsinh", "arccosh", "arctanh",
                 "heaviside", "heaviside_smooth", "maximum", "characteristic_function", "safe_power", "l2_norm")
C02_OPERATIONS = {"void", "add", "sub", "mul", "div", "pow", "matmul", "neg", "evaluate", "rmul", "rdiv", "rpow", "rmatmul", "radd", "rsub"}
C02_LEAVES = {"Scalar", "SparseArray", "DenseArray", "TimeDependentDenseArray", "Variable", "MixedDimensionalVariable", "Projection", "ProjectionList",
              "MergedOperator", "Divergence", "Trace", "InvTrace", "BoundaryProjection", "ArraySlicerOperator"}
PREMISE = {"models": 0, "nodes": 0, "function_nodes": 0, "outside": {}}


def lemma_premise(pp, m, label):
    """Walk all equation trees of the model; returns the list of nodes outside the lemma's reach (empty = premise holds)."""
    import functools

    verified = {getattr(pp.ad.functions, n) for n in C01_FUNCTIONS if hasattr(pp.ad.functions, n)}
    outside = []
    for name, eq in m.equation_system.equations.items():
        stack = [eq]
        while stack:
            o = stack.pop()
            PREMISE["nodes"] += 1
            if o.children:
                opn = getattr(o.operation, "name", str(o.operation))
                if opn not in C02_OPERATIONS:
                    outside.append(f"{name}: operation {opn}")
                if opn == "evaluate":
                    PREMISE["function_nodes"] += 1
                    F = getattr(o.func, "__self__", None)
                    g = getattr(F, "_func", None)
                    base = g.func if isinstance(g, functools.partial) else g
                    if not (isinstance(F, pp.ad.Function) and base in verified):
                        outside.append(f"{name}: function node '{getattr(F, 'name', F)}' wraps {getattr(base, '__module__', '?')}.{getattr(base, '__qualname__', base)} "
                                       f"({type(F).__name__}), not a C01-verified function")
                stack.extend(o.children)
            elif type(o).__name__ not in C02_LEAVES:
                outside.append(f"{name}: leaf of type {type(o).__name__}")
    PREMISE["models"] += 1
    if outside:
        PREMISE["outside"].setdefault(label, sorted(set(outside))[:10])
    return outside


def check_case(rep, sw, pp, spec, n_states, n_full, per_block):
    """One model; ``n_states`` seeded states; returns number of evaluated (state, direction) pairs."""
    fam = spec["family"]
    label = FAMILIES[fam]
    rng = random.Random(spec["seed"])
    cfg = f"{spec['dim']}d/{len(spec['fractures'])}frac/{spec['grid']}/{spec['materials']}/{spec.get('bc', 'dirichlet')}"
    try:
        with warnings.catch_warnings():
            warnings.simplefilter("ignore")
            m = build_model(pp, spec)
    except Exception as e:  # noqa: BLE001
        rep.violation(OB_EVAL, f"{label}: prepare_simulation raises {type(e).__name__}", inputs=spec, detail=f"{cfg}: {e!r}"[:600])
        return 0
    try:
        lemma_premise(pp, m, f"{label} {cfg}")
    except Exception as e:  # noqa: BLE001
        PREMISE["outside"].setdefault(f"{label} {cfg}", [f"tree walk failed: {type(e).__name__}: {e}"])
    es = m.equation_system
    done = 0
    s_i = -1
    accepted = 0
    while accepted < n_states and s_i + 1 < 3 * n_states:  # re-sample (bounded) when a state falls too close to a kink
        s_i += 1
        try:
            with warnings.catch_warnings():
                warnings.simplefilter("ignore")
                x, xp, info = sample_state(pp, m, rng)
                margin, binding = kink_margins(pp, m, x)
        except Exception as e:  # noqa: BLE001
            rep.violation(OB_EVAL, f"{label}: constitutive operators raise {type(e).__name__}", inputs=spec, detail=f"{cfg}: {e!r}"[:600])
            return done
        if margin < MARGIN:
            sw.skip()
            STATS.setdefault("skipped_binding_kinks", {}).setdefault(binding, 0)
            STATS["skipped_binding_kinks"][binding] += 1
            continue
        accepted += 1
        try:
            with warnings.catch_warnings():
                warnings.simplefilter("ignore")
                es.set_variable_values(xp, time_step_index=0)
                es.set_variable_values(x, iterate_index=0)
                m.update_derived_quantities()  # discretize once at x; held fixed below
                m.assemble_linear_system()
                J, b = m.linear_system
                idx = {k: np.asarray(v, dtype=int) for k, v in es.assembled_equation_indices.items()}
                b0 = es.assemble(evaluate_jacobian=False, state=x)
        except Exception as e:  # noqa: BLE001
            rep.violation(OB_EVAL, f"{label}: assembly raises {type(e).__name__}", inputs=spec, detail=f"{cfg}: {e!r}"[:600])
            return done
        J = sps.csr_matrix(J)
        b = np.asarray(b, dtype=float)
        if J.shape != (b.size, es.num_dofs()) or not np.all(np.isfinite(b)) or not np.all(np.isfinite(J.data)):
            rep.violation(OB_EVAL, f"{label}: non-finite or mis-shaped linear system", inputs=spec, detail=f"{cfg}: J{J.shape} b{b.shape}")
            return done
        if b0.shape != b.shape or np.max(np.abs(b0 - b), initial=0.0) > 1e-12 * (1 + np.max(np.abs(b), initial=0.0)):
            rep.violation(OB_RES, f"{label}", inputs=spec, detail=f"{cfg}: max |b - b0| = {np.max(np.abs(b0 - b)) if b0.shape == b.shape else 'shape'}")
        absJ = abs(J)
        eq_of_row = np.empty(b.size, dtype=object)
        for k, rows in idx.items():
            eq_of_row[rows] = k
        for dname, d in _directions(m, rng, n_full, per_block and accepted == 1):
            try:
                with warnings.catch_warnings():
                    warnings.simplefilter("ignore")
                    bp_ = es.assemble(evaluate_jacobian=False, state=x + H * d)
                    bm_ = es.assemble(evaluate_jacobian=False, state=x - H * d)
            except Exception as e:  # noqa: BLE001
                rep.violation(OB_EVAL, f"{label}: residual assembly raises {type(e).__name__}", inputs=spec, detail=f"{cfg}: {e!r}"[:600])
                return done
            fd = -(bp_ - bm_) / (2 * H)  # r = -b
            jd = J @ d
            size = absJ @ np.abs(d) + 0.5 * (np.abs(bp_) + np.abs(bm_))
            err = np.abs(jd - fd)
            # block scale: largest row magnitude within the same equation block (rows with tiny |J||d| are compared on the block's scale)
            blk = np.zeros(b.size)
            for k, rows in idx.items():
                if rows.size:
                    blk[rows] = np.max(size[rows])
            tol = RTOL * (size + blk) + 1e-9
            nontrivial = bool(np.max(np.abs(jd), initial=0.0) > 1e-8)
            done += 1
            sw.case(key=(fam, cfg, spec["seed"], s_i, dname, done), nontrivial=nontrivial,
                    sample={"family": label, "config": cfg, "dofs": int(es.num_dofs()), "direction": dname, "contact_regimes": info.get("regimes", {}),
                            "min_kink_margin": (None if not np.isfinite(margin) else round(margin, 5)), "max_row_error": float(np.max(err, initial=0.0)),
                            "max_|Jd|": float(np.max(np.abs(jd), initial=0.0))})
            STATS["worst_error_over_tolerance"] = max(STATS.get("worst_error_over_tolerance", 0.0), float(np.max(err / tol, initial=0.0)))
            for r_, c_ in info.get("regimes", {}).items():
                STATS.setdefault("fracture_cell_regimes", {}).setdefault(r_, 0)
                STATS["fracture_cell_regimes"][r_] += c_
            bad = np.flatnonzero(~(err <= tol))
            if bad.size:
                eqs = sorted(set(str(eq_of_row[i]) for i in bad))
                for eq in eqs:
                    rows = [i for i in bad if eq_of_row[i] == eq]
                    w = max(rows, key=lambda i: err[i] / tol[i])
                    rep.violation(OB_JAC, f"{label}: rows of {eq}", inputs=spec,
                                  detail=f"{cfg}, state {s_i}, direction over {dname}: {len(rows)} rows differ; worst row {w - idx[eq][0]} of block: J d = {jd[w]:.9g}, "
                                         f"central difference = {fd[w]:.9g}, |J||d| = {size[w]:.3g}, regimes {info.get('regimes')}, binding kink margin {margin:.3g} ({binding})")
    return done


# ----------------------------------------------------------------------------------------- static audit (DESIGN C03(a))

AUDIT_FILES = ["fluid_mass_balance", "energy_balance", "mass_and_energy_balance", "momentum_balance", "poromechanics", "thermoporomechanics", "constitutive_laws",
               "fluid_property_library", "contact_mechanics", "solution_strategy", "abstract_equations", "fracture_damage", "compositional_flow"]
WRAPPERS = ("Function", "DiagonalJacobianFunction", "InterpolatedFunction", "SurrogateFactory", "SurrogateOperator")


def _src(node):
    try:
        return ast.unparse(node)
    except Exception:  # noqa: BLE001
        return "<?>"


def ad_function_audit(src_root):
    out = []
    for name in AUDIT_FILES:
        fn = os.path.join(src_root, "porepy", "models", name + ".py")
        if not os.path.exists(fn):
            out.append({"file": name + ".py", "missing": True})
            continue
        tree = ast.parse(open(fn).read())
        # map each node to its enclosing class / function
        stack = []

        def visit(node):
            is_scope = isinstance(node, (ast.ClassDef, ast.FunctionDef))
            if is_scope:
                stack.append(node.name)
            if isinstance(node, ast.ClassDef):
                for bse in node.bases:
                    if "AbstractFunction" in _src(bse):
                        out.append({"file": name + ".py", "line": node.lineno, "kind": "AbstractFunction subclass", "where": ".".join(stack), "wrapped": _src(bse)})
            if isinstance(node, ast.Call):
                f = node.func
                fname = f.attr if isinstance(f, ast.Attribute) else (f.id if isinstance(f, ast.Name) else None)
                qual = _src(f)
                if fname in WRAPPERS and (qual.startswith("pp.ad.") or qual.startswith("ad.") or qual == fname):
                    wrapped = _src(node.args[0]) if node.args else ", ".join(f"{k.arg}={_src(k.value)}" for k in node.keywords)
                    label = _src(node.args[1]) if len(node.args) > 1 else None
                    out.append({"file": name + ".py", "line": node.lineno, "kind": qual, "where": ".".join(stack), "wrapped": wrapped[:160], "name": label})
            for ch in ast.iter_child_nodes(node):
                visit(ch)
            if is_scope:
                stack.pop()

        visit(tree)
    return out


# ----------------------------------------------------------------------------------------- enumeration


def _specs(rep):
    quick = rep.tier == "quick"
    rng = rep.rng
    specs = []

    def add(fam, dim, fr, grid, mat, bc="dirichlet"):
        specs.append({"family": fam, "dim": dim, "fractures": list(fr), "grid": grid, "materials": mat, "bc": bc, "seed": rng.randrange(2**31)})

    main4 = ("flow", "mass_energy", "momentum", "poromechanics")
    if quick:
        for fam in main4:
            for fr in ([], [0], [0, 1]):
                for grid in ("cartesian", "simplex"):
                    add(fam, 2, fr, grid, "generic")
            add(fam, 2, [0, 1], "cartesian", "defaults")
        add("thermoporomechanics", 2, [0, 1], "cartesian", "generic")
        add("poromechanics", 2, [1], "simplex", "generic", "mixed")
        # 3-D: two tangential components (the dim > 1 branch of l2_norm), 2-d fractures intersecting in a line
        add("momentum", 3, [0, 1], "cartesian", "generic")
        add("poromechanics", 3, [0], "cartesian", "generic")
    else:
        fams = main4 + ("thermoporomechanics",)
        for fam in fams:
            for fr in ([], [0], [1], [0, 1]):
                for grid in ("cartesian", "simplex"):
                    for mat in ("generic", "defaults"):
                        add(fam, 2, fr, grid, mat)
                    add(fam, 2, fr, grid, "generic", "mixed")
            for fr in ([], [0], [0, 1], [0, 1, 2]):
                add(fam, 3, fr, "cartesian", "generic")
            add(fam, 3, [1], "simplex", "generic")
            add(fam, 3, [0, 1, 2], "cartesian", "defaults")
            add(fam, 3, [0, 2], "cartesian", "generic", "mixed")
        for fam in ("momentum_tpsa", "poromechanics_tpsa", "poromechanics_adtpfa"):
            for fr in ([], [0], [0, 1]):
                add(fam, 2, fr, "cartesian", "generic")
            add(fam, 2, [0, 1], "simplex", "generic")
            add(fam, 3, [0, 1], "cartesian", "generic")
    return specs


def replay(data):
    import porepy as pp

    spec = data.get("inputs")
    if not isinstance(spec, dict) or "family" not in spec:
        return False
    sink = _Sink()

    class _Sw:
        def case(self, *a, **k):
            pass

        def skip(self):
            pass

    import porepy.applications.md_grids.model_geometries  # noqa: F401  (before leaving the working directory)

    with _scratch_cwd():
        check_case(sink, _Sw(), pp, spec, n_states=3, n_full=2, per_block=True)
    return any(ob == data.get("obligation") for ob, _ in sink.violations)


def run(rep):
    import logging

    import porepy as pp

    logging.getLogger("porepy").setLevel(logging.ERROR)
    quick = rep.tier == "quick"
    rep.under_contract("SolutionStrategy.assemble_linear_system", "EquationSystem.assemble(state=...)", "EquationSystem.assemble(evaluate_jacobian=False, state=...)",
                       "set_equations of SinglePhaseFlow / MassAndEnergyBalance / MomentumBalance / Poromechanics / Thermoporomechanics", "porepy.models.constitutive_laws (as composed by the models)")
    rep.assume("requires: state in the smooth region of the constitutive laws (margins >= 1e-3 to every max/norm/characteristic kink, positive pressure and temperature); "
               "contact regime sampled per fracture cell from {closed-stick, closed-slip, open}, non-zero normal jump of either sign",
               "requires: discretization matrices (MPFA/MPSA/Biot, upwind directions, aperture-dependent fracture transmissibilities) are those of the model's "
               "update_derived_quantities() at x and are held fixed for x +/- h d",
               "excluded as deliberately approximate: 'differentiable_mpfa' / 'differentiable_mpfa_vector_source' (AdTpfaFlux over an Mpfa base discretization, "
               "constitutive_laws.AdTpfaFlux.__mpfa_flux_discretization: d(T_MPFA p) ~ T_MPFA dp + p_diff d(T_TPFA)); not used by the default model families")
    rep.trust("central finite differences (h = 1e-6, row tolerance 1e-6 relative to |J||d| + |r| + block scale) as the oracle for the directional derivative")
    src_root = rep.extra.get("porepy_src") or os.environ.get("POREPY_SRC", "/repo/src")
    audit = ad_function_audit(src_root)
    rep.extra["ad_function_audit"] = audit
    rep.extra["ad_function_audit_count"] = len(audit)
    rep.extra["excluded_approximate_linearisations"] = [a for a in audit if "differentiable_mpfa" in str(a.get("name"))]
    n_states = 1 if quick else 3
    n_full = 2 if quick else 3
    with rep.sweep("model Jacobian vs central differences of the residual",
                   rule="model family x dimension x fracture set (orthogonal, intersecting) x grid type x material set x boundary-condition set; per model seeded smooth states "
                        "with per-fracture-cell contact regimes {closed-stick, closed-slip, open}; per state seeded directions over all variable blocks and (first state) one per "
                        "variable block; one evaluation = one (state, direction) pair compared on all rows; nontrivial = max |J d| > 1e-8; distinct by (family, configuration, "
                        "seed, state, direction block)",
                   bound="cell_size 0.5 on the unit square / cube; quick: 32 models x 1 state x (2 + #variable blocks) directions; thorough: ~200 models x 3 states", exhaustive=False) as sw:
        import porepy.applications.md_grids.model_geometries  # noqa: F401  (before leaving the working directory)

        fam_done = {}
        with _scratch_cwd():
            for spec in _specs(rep):
                k = check_case(rep, sw, pp, spec, n_states, n_full, per_block=True)
                fam_done[spec["family"]] = fam_done.get(spec["family"], 0) + k
        rep.extra["evaluations_per_family"] = {FAMILIES[k]: v for k, v in fam_done.items()}
        rep.extra["sweep_statistics"] = STATS
    # the lemma's premise on the real operator trees of every model built above
    rep.extra["lemma_premise"] = {k: v for k, v in PREMISE.items()}
    name = ("lemma (C01 + C02 => C03): every node of every equation tree of the built models is within the proved contracts "
            "(C02 operations and leaves; operator functions wrap C01-verified functions)")
    if PREMISE["models"] and not PREMISE["outside"]:
        rep.obligation(name + f" [{PREMISE['models']} models, {PREMISE['nodes']} nodes, {PREMISE['function_nodes']} function nodes]", "discharged", "Ps", "operator-tree-walk")
        rep.trust("C01 (forward-mode contracts) and C02 (parser contracts) as proved by their own checks; structural induction over operator trees")
    elif PREMISE["outside"]:
        # not a violation: the lemma simply does not reach these models; the finite-difference sweep above is what decides them
        rep.fallbacks.append({"case": "lemma premise", "reason": PREMISE["outside"]})
        rep.note("lemma C01 + C02 => C03 does not cover all built models (nodes outside the proved contracts): " + str(list(PREMISE["outside"].items())[:3])[:600])
