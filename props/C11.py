"""C11 -- MPFA reproduces linear pressure fields exactly.

Tier B (bounded run-time contract sweep; deduction not applicable, DESIGN section 8/C11).

Contract on the real ``pp.Mpfa(kw).discretize(sd, data)``:

requires  sd a 2-D/3-D grid with valid cells (Cartesian, structured simplex, node-perturbed), K a constant SPD
          tensor, every boundary face Dirichlet or Neumann with at least one Dirichlet face.  A 2-D grid may lie in the
          xy-plane or be a planar surface rigidly rotated out of it (embedded in 3-D; porepy rotates grid and tensor into
          the grid plane internally); K is then the 3x3 tensor in ambient coordinates -- an in-plane SPD tensor rotated
          with the grid (R K R^T) or a full SPD tensor not aligned with the plane -- and the gradient a is tangential
          (a in span{R e_x, R e_y}; a normal component only adds a constant on the grid).
ensures   for p(x) = a0 + a.x, p_c = p(cell centres), p_b = p(face centre) on Dirichlet faces and the outward
          Darcy flux  s_f * (-(K a).n_f)  on Neumann faces (porepy convention: outflow positive, integrated
          over the face):
            (1) flux p_c + bound_flux p_b               = -(K a).n_f        on every face,
            (2) bound_pressure_cell p_c + bound_pressure_face p_b = p(x_f)  on every boundary face,
            (3) a = 0 (constant pressure)                => zero flux.
          The expected right-hand sides are computed here from the grid geometry (face normals, centres) and K in
          dense numpy, never from the discretisation.  Matrix application is linear, so "for all linear p" is
          discharged completely by the affine basis {1, x, y(, z)} ({1, (R e_x).x, (R e_y).x} on an embedded grid).

Detection power (mutants injected one at a time into a scratch copy of /repo/src, POREPY_SRC=<copy>):
  M1 mpfa.py  _create_bound_rhs: Neumann sign ``scaled_sgn = -1/num_face_nodes`` -> ``+1/...``
       caught by "Mpfa.discretize: exact Darcy flux of a linear field" (Neumann faces)
  M2 _fvutils.py compute_dist_face_cell: ``eta_vec[bnd] = 0`` dropped (continuity point off the face centre on
       boundary faces of simplex grids)
       caught by "Mpfa.discretize: exact Darcy flux of a linear field" / "boundary pressure reconstruction"
  M3 mpfa.py  _flux_discretization: ``darcy = -nk_grad_all[...]`` -> ``+nk_grad_all`` (sign of Darcy's law)
       caught by "exact Darcy flux of a linear field"
  M4 mpfa.py  pressure_trace_cell = dist_cell_igrad*rhs_cells + cell_centers -> without ``+ cell_centers``
       caught by "Mpfa.discretize: boundary pressure reconstruction returns the exact pressure"
  M5 _fvutils.py ExcludeBoundaries.__init__: ``exclude_neu_rob = _exclude_matrix(is_neu | is_rob)`` -> ``(is_dir | is_rob)`` (swapped filter)
       caught by "Mpfa.discretize: terminates without exception on an admissible input" (dimension mismatch) on every layout;
       the replay file reproduces it (./check C11 --replay ... -> REPRODUCED)
  M6 mpfa.py  _flux_discretization (2-D branch): rotation of K into the grid plane ``R K R^T`` -> ``R^T K R`` (einsum with swapped
       indices; invisible for grids in the xy-plane, 3-D grids and isotropic K)
       caught by "exact Darcy flux of a linear field" / "boundary pressure reconstruction" on the embedded 2-D classes only
"""
from __future__ import annotations

META = {
    "level": "exploration",
    "engine": "sweep",
    "technique": "run-time contract sweep (bounded stand-in for deduction): postconditions of the real Mpfa.discretize "
                 "evaluated on an enumerated family of grids x SPD tensors x per-face Dirichlet/Neumann assignments; the "
                 "linear-field quantifier is discharged completely by the affine basis (linearity of matrix application)",
    "text": "Bounded assurance only: the exactness clauses (Darcy flux on every face, boundary pressure trace, zero flux for "
            "constants) hold on every enumerated case; no claim for grids/tensors/boundary layouts outside the family. "
            "Deduction is not applicable (floating-point inverses of local systems). Covered since the extension: planar 2-D grids "
            "rigidly rotated out of the xy-plane (embedded in 3-D) with anisotropic SPD tensors given in ambient coordinates. "
            "Not covered: Robin conditions, heterogeneous K (outside the statement), all-Neumann layouts, non-planar 2-D surfaces.",
    "note": "oracle = -(K grad p).n_f from grid geometry arrays (face_normals, face_centers, cell_centers; their correctness is "
            "C19); tolerance 1e-9 x (kmax*area/h)*max|p|",
}

import warnings

import numpy as np

KW = "flow"
OBL_FLUX = "Mpfa.discretize: exact Darcy flux of a linear field on every face"
OBL_TRACE = "Mpfa.discretize: boundary pressure reconstruction returns the exact pressure at boundary face centres"
OBL_CONST = "Mpfa.discretize: constant pressure gives zero flux"
OBL_RUN = "Mpfa.discretize: terminates without exception on an admissible input"


# ----------------------------------------------------------------------------- grid family (specs are JSON-able)


def build_grid(pp, spec):
    kind, n, phys = spec["kind"], spec["n"], spec["phys"]
    ctor = {"cart": pp.CartGrid, "tri": pp.StructuredTriangleGrid, "tet": pp.StructuredTetrahedralGrid}[kind]
    g = ctor(np.array(n), np.array(phys, dtype=float))
    if spec.get("nodes") is not None:
        g.nodes = np.array(spec["nodes"], dtype=float)
    with warnings.catch_warnings():
        warnings.simplefilter("ignore")
        g.compute_geometry()
    return g


def cells_valid(g):
    """requires: positive volumes and every face seen from its cell centre on the side of its outward normal
    (cells star-shaped w.r.t. their centre) -- the hypothesis 'valid grid'."""
    if not np.all(g.cell_volumes > 0) or not np.all(g.face_areas > 0):
        return False
    cf = g.cell_faces.tocoo()
    d = g.face_centers[:, cf.row] - g.cell_centers[:, cf.col]
    return bool(np.all(np.sum(d * g.face_normals[:, cf.row], axis=0) * cf.data > 0))


def perturbed(pp, rng, spec, rate):
    """seeded node perturbation (all nodes, also boundary nodes; z kept 0 in 2-D) that keeps cells valid"""
    g0 = build_grid(pp, spec)
    dim = g0.dim
    h = min(p / k for p, k in zip(spec["phys"], spec["n"]))
    for _ in range(20):
        nodes = g0.nodes.copy()
        for i in range(dim):
            nodes[i] += np.array([rng.uniform(-rate, rate) * h for _ in range(g0.num_nodes)])
        s = dict(spec, nodes=np.round(nodes, 12).tolist(), pert=rate)
        if cells_valid(build_grid(pp, s)):
            return s
    return None


def sheared(pp, spec, A):
    """affine image of the grid (keeps faces planar in 3-D)"""
    g0 = build_grid(pp, spec)
    nodes = np.array(A, dtype=float) @ g0.nodes
    return dict(spec, nodes=np.round(nodes, 12).tolist(), pert="affine")


def _rot(axis, angle):
    """rotation matrix (Rodrigues formula)"""
    axis = np.asarray(axis, dtype=float)
    axis = axis / np.linalg.norm(axis)
    W = np.array([[0, -axis[2], axis[1]], [axis[2], 0, -axis[0]], [-axis[1], axis[0], 0]])
    return np.eye(3) + np.sin(angle) * W + (1 - np.cos(angle)) * W @ W


def embedded(pp, spec, R):
    """the 2-D grid ``spec`` (unperturbed / perturbed / affine, built in the xy-plane) rigidly rotated out of the xy-plane:
    a planar 2-D grid embedded in 3-D.  ``R`` is stored so that the oracle knows the two tangent directions R e_x, R e_y."""
    g0 = build_grid(pp, spec)
    R = np.asarray(R, dtype=float)
    return dict(spec, nodes=np.round(R @ g0.nodes, 12).tolist(), R=np.round(R, 15).tolist())


def embedding_rotations(quick):
    rots = [_rot([1, 1, -1], -np.pi / 4), _rot([0.2, -1, 0.5], 1.1)]
    if not quick:
        rots += [_rot([0, 1, 0], np.pi / 2), _rot([1.0, -0.6, 0.3], 2.5)]
    return rots


def grid_specs(pp, rng, quick):
    base2 = [("cart", [2, 2], [2.0, 2.0]), ("cart", [3, 2], [1.5, 1.0]), ("cart", [3, 3], [3.0, 1.5]),
             ("tri", [2, 2], [1.0, 1.0]), ("tri", [3, 2], [3.0, 1.0])]
    base3 = [("cart", [2, 2, 2], [1.0, 2.0, 1.5]), ("tet", [1, 1, 1], [1.0, 1.0, 1.0]), ("tet", [2, 1, 1], [2.0, 1.0, 1.5])]
    if not quick:
        base2 += [("cart", [4, 3], [1.0, 1.0]), ("tri", [3, 3], [1.0, 2.0]), ("cart", [1, 1], [1.0, 1.0]), ("tri", [1, 1], [1.0, 1.0])]
        base3 += [("cart", [3, 2, 2], [1.0, 1.0, 1.0]), ("tet", [2, 2, 2], [1.0, 1.0, 1.0]), ("cart", [1, 1, 1], [1.0, 1.0, 1.0])]
    out = []
    for kind, n, phys in base2 + base3:
        s = {"kind": kind, "n": n, "phys": phys, "nodes": None, "pert": 0}
        out.append(s)
        for rate in ((0.2,) if quick else (0.1, 0.25)):
            p = perturbed(pp, rng, s, rate)
            if p is not None:
                out.append(p)
        if len(n) == 3:
            out.append(sheared(pp, s, [[1, 0.3, 0.1], [0, 1, 0.2], [0.1, 0, 1.2]]))
        elif not quick:
            out.append(sheared(pp, s, [[1, 0.4, 0], [0.2, 1.1, 0], [0, 0, 1]]))
    # 2-D grids that do not lie in the xy-plane (Mpfa rotates grid and permeability into the grid plane internally)
    rots = embedding_rotations(quick)
    flat2 = [s for s in out if len(s["n"]) == 2]
    emb = []
    for i, s in enumerate(flat2):
        if quick:
            if i % 4 in (0, 3):  # alternately an unperturbed and a perturbed grid, alternating rotation
                emb.append(embedded(pp, s, rots[len(emb) % 2]))
        else:  # every 2-D grid variant, cycling through the rotations
            emb.append(embedded(pp, s, rots[i % len(rots)]))
    return out + emb


# ----------------------------------------------------------------------------- tensors and boundary layouts


def tensor_family(dim):
    """constant SPD tensors as 3x3 lists: isotropic, diagonal anisotropic, full (rotated) SPD"""
    if dim == 2:
        c, s = np.cos(0.6), np.sin(0.6)
        R = np.array([[c, -s, 0], [s, c, 0], [0, 0, 1]])
        full = R @ np.diag([5.0, 0.5, 1.0]) @ R.T
        return [("iso", np.diag([2.5, 2.5, 1.0])), ("diag", np.diag([1.0, 10.0, 1.0])), ("full", full)]
    Q, _ = np.linalg.qr(np.array([[1.0, 0.3, -0.2], [0.4, 1.0, 0.5], [-0.1, 0.2, 1.0]]))
    full = Q @ np.diag([4.0, 1.0, 0.25]) @ Q.T
    return [("iso", np.diag([2.5, 2.5, 2.5])), ("diag", np.diag([1.0, 10.0, 0.1])), ("full", full)]


def embedded_tensor_family(R, quick):
    """constant SPD 3x3 tensors in ambient coordinates for a 2-D grid embedded by the rotation R: the in-plane families of
    tensor_family(2) rotated with the grid (R K R^T; unit permeability normal to the plane), and a full SPD tensor that is not
    aligned with the grid plane at all."""
    R = np.asarray(R, dtype=float)
    fam = [(name + "-rotated", R @ K @ R.T) for name, K in tensor_family(2) if not (quick and name == "iso")]
    fam.append(("ambient-full", dict(tensor_family(3))["full"]))
    return [(n, 0.5 * (K + K.T)) for n, K in fam]


def make_tensor(pp, K, nc, dim):
    """dim = 2: in-plane entries only (grid in the xy-plane); dim = 3 (also used for embedded 2-D grids): all six entries"""
    o = np.ones(nc)
    K = np.asarray(K, dtype=float)
    if dim == 2:
        return pp.SecondOrderTensor(K[0, 0] * o, kyy=K[1, 1] * o, kxy=K[0, 1] * o)
    return pp.SecondOrderTensor(K[0, 0] * o, kyy=K[1, 1] * o, kzz=K[2, 2] * o, kxy=K[0, 1] * o, kxz=K[0, 2] * o, kyz=K[1, 2] * o)


def bc_layouts(rng, nb, n_random):
    """per-boundary-face type strings ('d'/'n'), at least one Dirichlet face each"""
    out = [("all-dir", "d" * nb)]
    k = rng.randrange(nb)
    out.append(("one-neu", "d" * k + "n" + "d" * (nb - k - 1)))
    if nb > 1:
        k = rng.randrange(nb)
        out.append(("one-dir", "n" * k + "d" + "n" * (nb - k - 1)))
    for _ in range(n_random):
        s = "".join(rng.choice("dn") for _ in range(nb))
        if "d" not in s:
            k = rng.randrange(nb)
            s = s[:k] + "d" + s[k + 1:]
        out.append(("mix", s))
    return out


# ----------------------------------------------------------------------------- the contract


def evaluate(pp, spec, K, layout):
    """Run the real discretisation on one case and evaluate the ensures clauses.
    Returns list of (obligation, detail) for the clauses that fail."""
    g = build_grid(pp, spec)
    dim = g.dim
    bf = g.get_all_boundary_faces()
    assert len(layout) == bf.size
    is_dir_b = np.array([c == "d" for c in layout])
    bc = pp.BoundaryCondition(g, bf, ["dir" if d else "neu" for d in is_dir_b])
    K = np.asarray(K, dtype=float)
    emb = spec.get("R") is not None  # 2-D grid embedded in 3-D: K is the full 3x3 tensor in ambient coordinates
    data = pp.initialize_data({}, KW, {"bc": bc, "second_order_tensor": make_tensor(pp, K, g.num_cells, 3 if emb else dim)})
    try:
        with warnings.catch_warnings():
            warnings.simplefilter("ignore")
            pp.Mpfa(KW).discretize(g, data)
    except Exception as e:  # an admissible input must be discretised
        return [(OBL_RUN, f"{type(e).__name__}: {e}")]
    M = data[pp.DISCRETIZATION_MATRICES][KW]
    flux, bflux = M["flux"].toarray(), M["bound_flux"].toarray()
    bpc, bpf = M["bound_pressure_cell"].toarray(), M["bound_pressure_face"].toarray()

    xc, xf, nrm = g.cell_centers, g.face_centers, g.face_normals
    # outward sign of each boundary face w.r.t. its single cell, from the incidence
    sgn = np.asarray(g.cell_faces[bf].sum(axis=1)).ravel()
    is_dir = np.zeros(g.num_faces, dtype=bool)
    is_dir[bf[is_dir_b]] = True
    neu = bf[~is_dir_b]
    sgn_neu = sgn[~is_dir_b]
    L = np.linalg.norm(g.nodes, axis=0).max() if emb else np.ptp(g.nodes[:dim], axis=1).max()
    cf = g.cell_faces.tocoo()
    hmin = np.linalg.norm(xf[:, cf.row] - xc[:, cf.col], axis=0).min()
    tscale = (np.abs(K).max() if emb else np.abs(K[:dim, :dim]).max()) * g.face_areas.max() / hmin

    bad = []
    # gradients: the coordinate directions of the grid; for an embedded grid the two tangent directions R e_x, R e_y (a gradient
    # component normal to the plane only adds a constant on the grid, which the constant basis element covers)
    T = np.asarray(spec["R"], dtype=float).T if emb else np.eye(3)
    basis = [(1.0, np.zeros(3))] + [(0.0, T[i]) for i in range(dim)]
    for a0, a in basis:
        p = lambda x: a0 + a @ x  # noqa: E731
        p_c = p(xc)
        darcy = -(K @ a) @ nrm  # exact flux through each face in the direction of its normal
        p_b = np.zeros(g.num_faces)
        p_b[is_dir] = p(xf[:, is_dir])
        p_b[neu] = sgn_neu * darcy[neu]
        pmax = max(1.0, L) if a0 == 0 else 1.0
        tol = 1e-9 * tscale * pmax
        got = flux @ p_c + bflux @ p_b
        err = np.abs(got - darcy)
        if err.max() > tol:
            f = int(err.argmax())
            kind = "Neumann" if f in neu else ("Dirichlet" if is_dir[f] else "interior")
            ob = OBL_CONST if a0 != 0 else OBL_FLUX
            bad.append((ob, f"field a0={a0} grad={a.tolist()}: face {f} ({kind}) flux {got[f]!r} expected {darcy[f]!r} (tol {tol:.2e})"))
        tr = (bpc @ p_c + bpf @ p_b)[bf]
        exp = p(xf[:, bf])
        terr = np.abs(tr - exp)
        ttol = 1e-9 * pmax  # pmax = magnitude of the pressure data on the grid
        if terr.max() > ttol:
            j = int(terr.argmax())
            bad.append((OBL_TRACE, f"field a0={a0} grad={a.tolist()}: boundary face {int(bf[j])} ({'Dirichlet' if is_dir_b[j] else 'Neumann'}) "
                        f"trace {tr[j]!r} expected {exp[j]!r} (tol {ttol:.2e})"))
    return bad


def _signature(spec, tname, lname):
    pert = "regular" if spec["pert"] == 0 else ("affine" if spec["pert"] == "affine" else "perturbed")
    emb = " embedded in 3-D" if spec.get("R") is not None else ""
    return f"{len(spec['n'])}d {spec['kind']} {pert}{emb} bc={lname}"


def run(rep):
    import os

    os.environ.setdefault("NUMBA_NUM_THREADS", "4")  # be a good neighbour; no effect on results
    import porepy as pp

    rep.under_contract("pp.Mpfa.discretize", "pp.Mpfa._flux_discretization", "pp.Mpfa._create_bound_rhs",
                       "pp.fvutils.ExcludeBoundaries", "pp.fvutils.compute_dist_face_cell")
    rep.trust("grid geometry arrays (face_normals, face_centers, cell_centers, cell_faces) -- property C19",
              "dense numpy evaluation of -(K a).n_f as oracle")
    rep.assume("Neumann data follow porepy's documented convention: flux integrated over the face, outflow positive",
               "for a planar 2-D grid embedded in 3-D the permeability is given as the 3x3 tensor in ambient coordinates and the exact "
               "Darcy flux of a field with tangential gradient a through a face is -(K a).n_f with the in-plane area-weighted normal n_f")
    quick = rep.tier == "quick"
    rng = rep.rng
    specs = grid_specs(pp, rng, quick)
    with rep.sweep(
        "mpfa linear exactness",
        rule="grids {Cartesian, structured triangle/tetrahedral} x {unperturbed, seeded node perturbation of all nodes keeping cells "
             "star-shaped, affine image} x {2-D grids: in the xy-plane, rigidly rotated out of it (embedded in 3-D)} x K in {isotropic, "
             "diagonal anisotropic, full SPD; embedded: the in-plane tensors rotated with the grid and a full SPD tensor not aligned with "
             "the plane} x boundary layouts {all Dirichlet, one Neumann "
             "face, one Dirichlet face, seeded random per-face mixes with >=1 Dirichlet}; per case the complete affine basis {1,x,y(,z)} is "
             "checked, which covers ALL linear fields by linearity of matrix application; distinct by (grid spec, tensor, layout string); "
             "non-trivial = not the default (unperturbed Cartesian, isotropic, all-Dirichlet) combination",
        bound="2-D up to 4x3 cells, 3-D up to 3x2x2 hexahedra / 2x2x2x6 tetrahedra; perturbation <= 0.25 h; "
              + ("2" if quick else "6") + " random layouts per (grid, tensor) (" + ("1" if quick else "3") + " on embedded grids); "
              + ("5 embedded grids, 2 rotations" if quick else "every 2-D grid variant embedded once, 4 rotations"),
        exhaustive=False,
    ) as sw:
        for spec in specs:
            g = build_grid(pp, spec)
            if not cells_valid(g):
                sw.skip()
                continue
            nb = g.get_all_boundary_faces().size
            big = g.num_cells > 30
            emb = spec.get("R") is not None
            tensors = embedded_tensor_family(spec["R"], quick) if emb else tensor_family(g.dim)
            n_random = ((1 if big or emb else 2) if quick else (3 if emb else 6))
            for tname, K in tensors:
                for lname, layout in bc_layouts(rng, nb, n_random):
                    key = (spec["kind"], tuple(spec["n"]), str(spec["pert"]), hash(str(spec["nodes"])), tname, layout)
                    trivial = spec["kind"] == "cart" and spec["pert"] == 0 and tname == "iso" and lname == "all-dir" and not emb
                    inputs = {"grid": spec, "K": np.asarray(K).tolist(), "layout": layout}
                    sw.case(key, nontrivial=not trivial,
                            sample={"grid": {k: v for k, v in spec.items() if k not in ("nodes", "R")}, "K": tname, "layout": layout,
                                    "embedded": emb})
                    for ob, detail in evaluate(pp, spec, K, layout):
                        rep.violation(ob, _signature(spec, tname, lname), inputs=inputs, detail=detail, confirmed=True)


def replay(data):
    import porepy as pp

    inp = data["inputs"]
    bad = evaluate(pp, inp["grid"], inp["K"], inp["layout"])
    for b in bad:
        print("replay:", b)
    return bool(bad)
