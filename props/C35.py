"""C35 -- sparse-matrix utilities and index helpers match dense numpy semantics (tier B, exhaustive small scope).

Functions under contract (real porepy): pp.matrix_operations.{rlencode, rldecode, block_diag_index, block_diag_matrix,
slice_sparse_matrix, slice_indices, zero_rows, zero_columns, merge_matrices, stack_mat, stack_diag,
csr_matrix_from_sparse_blocks, csc_matrix_from_sparse_blocks, csr_matrix_from_dense_blocks, csc_matrix_from_dense_blocks,
sparse_kronecker_product, optimized_compressed_storage} and pp.array_operations.{expand_index_pointers,
expand_indices_nd, expand_indices_add_increment}.

Oracle = the dense numpy expression of the statement, evaluated on arrays built by this file (never by porepy):
  rldecode(A, n)                      == np.repeat(A, n)
  rlencode(A) = (C, num)              :  np.repeat(C, num, axis=1) == A, num >= 1, no two consecutive columns of C equal
  expand_index_pointers(lo, hi)       == concatenate(arange(lo_k, hi_k))   (size-1 operand broadcast; size mismatch -> ValueError)
  expand_indices_nd(ind, nd, 'F'|'C') == (nd*ind + arange(nd)[:,None]).ravel(order) spelled as nested Python loops
  expand_indices_add_increment(x,n,i) == [x_k + j*i for k for j in range(n)]
  block_diag_index(m, n)              == positions of the m_k x n_k diagonal blocks, column-major inside a block, block by block
  block_diag_index(m)                 == column indices of the rows of blockdiag(m_k x m_k) (row-major), as used for CSR storage
  block_diag_matrix(v, sz)            == scipy.linalg.block_diag(row-major sz_k x sz_k pieces of v), csr
  slice_sparse_matrix(A, ind)         == A[ind, :] (csr) / A[:, ind] (csc), same format
  slice_indices(A, ind, True)         == stored minor indices of the lines `ind` in storage order, and positions p with
                                         A.indices[p] == those indices and A.data[p] the matching data
  zero_rows / zero_columns            == dense with those lines set to 0 (in place)
  merge_matrices(A, B, lines, fmt)    == dense A[lines, :] = B (csr) / A[:, lines] = B (csc) (in place)
  stack_mat(A, B)                     == np.vstack (csr) / np.hstack (csc) (in place);  stack_diag == scipy.linalg.block_diag
  cs{r,c}_matrix_from_sparse_blocks   == scipy.linalg.block_diag of the dense blocks, named format
  cs{r,c}_matrix_from_dense_blocks    == scipy.linalg.block_diag of the row-major (csr) / column-major (csc) bs x bs pieces
  sparse_kronecker_product(M, nd)     == np.kron(M, eye(nd));   optimized_compressed_storage(A) == A, csc iff rows > cols
Every returned sparse matrix must in addition pass scipy's own check_format(full_check=True).

Matrices are built directly from (data, indices, indptr) / (row, col, data) triplets so that unsorted indices and explicit
zeros are really present in the storage handed to porepy.

Findings on the unchanged tree (kept strict, see final report):
  * rldecode: a zero count that is followed by a non-zero count shifts all later values
    (rldecode([5,6,7],[2,0,1]) -> [5,5,6], np.repeat -> [5,5,7]); block_diag_index(m, n) / block_diag_matrix inherit it for
    zero-sized blocks.
  * stack_diag: when B has no lines (0 x k csr, k x 0 csc) A is returned and B's other dimension is dropped from the shape.

Detection power (scratch copy, POREPY_SRC, quick tier; all exit 1 and the named obligation appears in a VIOLATION line):
  M1 expand_index_pointers: `lo[1:] - hi[0:-1]` -> `lo[1:] - hi[0:-1] - 1`  -> "expand_index_pointers: equals concatenated aranges"
     (and through it slice_sparse_matrix / zero_rows / merge_matrices obligations).
  M2 merge_matrices: `num_added[lines_to_replace + 1]` -> `num_added[lines_to_replace]` -> "merge_matrices: equals the dense reference"
     (signature "sorted lines_to_replace") and "merge_matrices: result is a well-formed scipy matrix".
  M3 stack_diag: `B.indices + indices_offset` -> `B.indices` -> "stack_diag: equals the dense reference" (signature "B has lines").
  M4 _csx_matrix_from_dense_blocks: order="F" dropped in block_increase -> "cs{r,c}_matrix_from_dense_blocks: equals the dense reference".
  M5 rlencode: `np.array([-1])` -> `np.array([0])` -> "rlencode: repeat(C, num) restores A".
  M6 slice_sparse_matrix: `indptr[1:] = np.cumsum(...)` -> without cumsum -> "slice_sparse_matrix: result is a well-formed scipy matrix"
     and "...: equals the dense reference" (the structural check runs before toarray(): scipy 1.15 segfaults on such storage).
  M7 zero_rows: `indptr[rows + 1]` -> `indptr[rows] + 1` -> "zero_rows: equals the dense reference".
  Benign refactoring that must stay green (and does): slice_sparse_matrix csc branch returning
  `sps.csr_matrix((data, indices, indptr), shape=(N, A.shape[0])).T` (a csc matrix with the same content).
"""
from __future__ import annotations

META = {
    "level": "exploration",
    "engine": "sweep",
    "technique": "run-time contract sweep (bounded stand-in for deduction): each utility compared with its dense numpy expression on "
                 "exhaustively enumerated small integer arrays and small sparse matrices (csr/csc/coo, unsorted indices, explicit zeros, "
                 "all index tuples)",
    "text": "Bounded assurance: equality with the dense reference is evaluated natively on every enumerated input (exhaustive small "
            "scope; the bound of each family is stated in the sweep rule). The cumsum / fancy-indexing one-liners would each need an "
            "inductive lemma for a proof; exhaustive small scope is the level claimed. Not covered: ArraySlicer (C36), "
            "invert_diagonal_blocks (C37), sparse_dia_from_sparse_blocks, diagonal_scaling_matrix, sparse_array_to_row_col_data, copy.",
    "note": "trusted: numpy, scipy.sparse construction/toarray/check_format, scipy.linalg.block_diag, np.kron, np.repeat",
}

import itertools
import warnings

import numpy as np
import scipy.linalg as sl
import scipy.sparse as sps

ABSENT = None


# ----------------------------------------------------------------------------- helpers


class _V:
    """Collects violations of one evaluated case."""

    def __init__(self, rep):
        self.rep = rep

    def call(self, ob_fn, sig, inputs, f):
        """Run the code under test; an exception on an admissible input is a violation, not a checker crash."""
        try:
            with warnings.catch_warnings():
                warnings.simplefilter("ignore")
                return True, f()
        except Exception as e:  # noqa
            self.rep.violation(f"{ob_fn}: returns normally on admissible input", sig, inputs=inputs,
                               detail=f"{type(e).__name__}: {e}", confirmed=True)
            return False, None

    def bad(self, ob, sig, inputs, detail):
        self.rep.violation(ob, sig, inputs=inputs, detail=detail, confirmed=True)


def _int_arrays(maxlen, hi):
    for n in range(maxlen + 1):
        for v in itertools.product(range(hi + 1), repeat=n):
            yield v


def _arr(v):
    return np.array(v, dtype=np.int64)


def _build(grid, fmt, rev):
    """grid: tuple of rows with entries None (not stored) or a number (stored, possibly an explicit 0).
    Returns (scipy matrix, dense ndarray, per-line list of (minor index, value) in storage order)."""
    r = len(grid)
    c = len(grid[0]) if r else 0
    return _build_shape(grid, (r, c), fmt, rev)


def _build_shape(grid, shape, fmt, rev):
    r, c = shape
    dense = np.zeros((r, c))
    for i in range(r):
        for j in range(c):
            if grid[i][j] is not None:
                dense[i, j] = grid[i][j]
    if fmt == "coo":
        ent = [(i, j, grid[i][j]) for i in range(r) for j in range(c) if grid[i][j] is not None]
        if rev:
            ent = ent[::-1]
        M = sps.coo_matrix((np.array([e[2] for e in ent], dtype=float), (np.array([e[0] for e in ent], dtype=np.int32),
                                                                          np.array([e[1] for e in ent], dtype=np.int32))), shape=(r, c))
        return M, dense, None
    if fmt == "csr":
        lines = [[(j, grid[i][j]) for j in range(c) if grid[i][j] is not None] for i in range(r)]
    else:
        lines = [[(i, grid[i][j]) for i in range(r) if grid[i][j] is not None] for j in range(c)]
    if rev:
        lines = [l[::-1] for l in lines]
    indptr = np.cumsum([0] + [len(l) for l in lines]).astype(np.int32)
    indices = np.array([e[0] for l in lines for e in l], dtype=np.int32)
    data = np.array([e[1] for l in lines for e in l], dtype=float)
    cls = sps.csr_matrix if fmt == "csr" else sps.csc_matrix
    M = cls((data, indices, indptr), shape=(r, c))
    return M, dense, lines


def _grids(r, c, alphabet):
    for v in itertools.product(alphabet, repeat=r * c):
        yield tuple(tuple(v[i * c:(i + 1) * c]) for i in range(r))


def _pattern_grids(r, c):
    """every sparsity pattern, stored values distinct 1..rc (misplacements cannot cancel), plus one explicit zero variant"""
    for pat in itertools.product((0, 1), repeat=r * c):
        yield tuple(tuple((i * c + j + 1) if pat[i * c + j] else None for j in range(c)) for i in range(r))


def _with_explicit_zeros(grid):
    return tuple(tuple((0.0 if (v is None and (i + j) % 2 == 0) else v) for j, v in enumerate(row)) for i, row in enumerate(grid))


def _index_tuples(n, maxlen):
    for k in range(0, maxlen + 1):
        for t in itertools.product(range(n), repeat=k):
            yield t


def _wellformed(M):
    """Structural validity of a csr/csc result, checked here first (scipy's check_format skips the monotonicity test when
    indptr[-1] == 0 and toarray() then reads out of bounds), then by scipy's own full check."""
    try:
        nl, nm = (M.shape[0], M.shape[1]) if M.format == "csr" else (M.shape[1], M.shape[0])
        ip, ix, dt = np.asarray(M.indptr), np.asarray(M.indices), np.asarray(M.data)
        if ip.ndim != 1 or ip.shape[0] != nl + 1:
            return f"indptr has length {ip.shape} for {nl} lines"
        if ip.dtype.kind not in "iu" or ix.dtype.kind not in "iu":
            return f"index arrays are not integer ({ip.dtype}, {ix.dtype})"
        if ip[0] != 0 or np.any(np.diff(ip) < 0):
            return f"indptr {ip.tolist()} is not a non-decreasing sequence starting at 0"
        if ip[-1] > ix.shape[0] or ix.shape[0] != dt.shape[0]:
            return f"indptr[-1]={ip[-1]}, {ix.shape[0]} indices, {dt.shape[0]} data"
        if ix[: ip[-1]].size and (ix[: ip[-1]].min() < 0 or ix[: ip[-1]].max() >= nm):
            return f"indices {ix.tolist()} out of range [0, {nm})"
        with warnings.catch_warnings():
            warnings.simplefilter("ignore")
            M.check_format(full_check=True)
        return None
    except Exception as e:  # noqa
        return f"{type(e).__name__}: {e}"


def _cmp_sparse(v, fn, sig, inputs, R, expected, fmt=None):
    """dense equality + shape + format + scipy well-formedness of a returned sparse matrix"""
    if not sps.issparse(R):
        v.bad(f"{fn}: returns a sparse matrix", sig, inputs, f"got {type(R).__name__}")
        return
    if R.shape != expected.shape:
        v.bad(f"{fn}: shape of the result", sig, inputs, f"expected {expected.shape}, got {R.shape}")
        return
    if fmt is not None and R.format != fmt:
        v.bad(f"{fn}: format of the result", sig, inputs, f"expected {fmt}, got {R.format}")
    if R.format in ("csr", "csc"):
        w = _wellformed(R)
        if w:
            v.bad(f"{fn}: result is a well-formed scipy matrix", sig, inputs, w)
            return
    try:
        got = R.toarray()
    except Exception as e:  # noqa
        v.bad(f"{fn}: result is a well-formed scipy matrix", sig, inputs, f"toarray: {type(e).__name__}: {e}")
        return
    if not np.array_equal(got, expected):
        v.bad(f"{fn}: equals the dense reference", sig, inputs, f"expected {expected.tolist()}, got {got.tolist()}")


def _storage_sig(fmt, rev, ez):
    return fmt + (" unsorted indices" if rev else "") + (" explicit zeros" if ez else "")


# ----------------------------------------------------------------------------- index helpers


def _sweep_index_helpers(rep, mo, ao):
    quick = rep.tier == "quick"
    v = _V(rep)
    L = 4
    with rep.sweep(
        "index helpers",
        rule="all integer arrays of length <= 4 with entries 0..3: rldecode (all (A, n) pairs of equal length), rlencode (1 x n all; 2 x n "
             "with entries 0..1, n <= 4), expand_index_pointers (all (lo, hi) of equal length <= 3 quick / <= 4 thorough, plus size-1 "
             "broadcast against every array and the size-mismatch error), expand_indices_nd (nd 1..3, orders F, C), "
             "expand_indices_add_increment (n 1..3, increment -1..3), block_diag_index (m alone; (m, n) pairs of equal length <= 3), "
             "block_diag_matrix (sz of length <= 3, distinct values); nontrivial = non-empty input that is not constant (helpers) / has a "
             "zero or repeated entry or length > 1; distinct by (function, input)",
        bound="array length <= 4, entries 0..3",
        exhaustive=True,
    ) as sw:
        arrays = list(_int_arrays(L, 3))
        # ---- rldecode
        for A in arrays:
            for n in itertools.product(range(4), repeat=len(A)):
                inp = {"A": list(A), "n": list(n)}
                zero_mid = any(n[k] == 0 and any(x > 0 for x in n[k + 1:]) for k in range(len(n)))
                sig = "zero count followed by a non-zero count" if zero_mid else ("empty" if not A else "positive counts / trailing zeros")
                ok, R = v.call("rldecode", sig, inp, lambda: mo.rldecode(_arr(A), _arr(n)))
                sw.case(("rldecode", A, n), nontrivial=len(A) > 1, sample=inp)
                if ok:
                    exp = np.repeat(_arr(A), _arr(n))
                    if not (np.asarray(R).shape == exp.shape and np.array_equal(R, exp)):
                        v.bad("rldecode: equals np.repeat(A, n)", sig, inp, f"expected {exp.tolist()}, got {np.asarray(R).tolist()}")
        # ---- rlencode (requires at least one column)
        enc_inputs = [np.array([a], dtype=np.int64) for a in arrays if len(a) >= 1]
        for n in range(1, 5):
            for top in itertools.product(range(2), repeat=n):
                for bot in itertools.product(range(2), repeat=n):
                    enc_inputs.append(np.array([top, bot], dtype=np.int64))
        for A in enc_inputs:
            inp = {"A": A.tolist()}
            sig = f"{A.shape[0]}-row"
            ok, R = v.call("rlencode", sig, inp, lambda: mo.rlencode(A.copy()))
            runs = 1 + sum(1 for k in range(A.shape[1] - 1) if not np.array_equal(A[:, k], A[:, k + 1]))
            sw.case(("rlencode", A.shape, A.tobytes()), nontrivial=1 < runs < A.shape[1] or A.shape[1] > 1, sample=inp)
            if ok:
                C, num = np.asarray(R[0]), np.asarray(R[1])
                if C.ndim != 2 or num.ndim != 1 or C.shape[1] != num.shape[0] or C.shape[0] != A.shape[0]:
                    v.bad("rlencode: shapes of (compressed, counts)", sig, inp, f"C {C.shape} num {num.shape}")
                    continue
                if np.any(num < 1) or not np.array_equal(np.repeat(C, num, axis=1), A):
                    v.bad("rlencode: repeat(C, num) restores A", sig, inp, f"C={C.tolist()} num={num.tolist()}")
                elif C.shape[1] != runs:
                    v.bad("rlencode: runs are maximal", sig, inp, f"{runs} runs, got {C.shape[1]} columns")
        # ---- expand_index_pointers
        Lp = 3 if quick else 4
        for lo in _int_arrays(Lp, 3):
            for hi in itertools.product(range(4), repeat=len(lo)):
                inp = {"lo": list(lo), "hi": list(hi)}
                sig = "equal sizes" if lo else "empty"
                ok, R = v.call("expand_index_pointers", sig, inp, lambda: ao.expand_index_pointers(_arr(lo), _arr(hi)))
                sw.case(("eip", lo, hi), nontrivial=sum(1 for a, b in zip(lo, hi) if b > a) >= 1 and len(lo) > 1, sample=inp)
                if ok:
                    exp = [x for a, b in zip(lo, hi) for x in range(a, b)]
                    R = np.asarray(R)
                    if R.ndim != 1 or R.tolist() != exp or (R.size and R.dtype.kind not in "iu"):
                        v.bad("expand_index_pointers: equals concatenated aranges", sig, inp, f"expected {exp}, got {R.tolist()} ({R.dtype})")
        for one in range(4):
            for other in arrays:
                for which in ("lo", "hi"):
                    lo, hi = ((one,), other) if which == "lo" else (other, (one,))
                    inp = {"lo": list(lo), "hi": list(hi)}
                    sig = "size-1 operand broadcast"
                    ok, R = v.call("expand_index_pointers", sig, inp, lambda: ao.expand_index_pointers(_arr(lo), _arr(hi)))
                    sw.case(("eip1", lo, hi), nontrivial=len(other) > 1, sample=inp)
                    if ok:
                        nn = max(len(lo), len(hi)) if min(len(lo), len(hi)) else 0
                        if len(other) == 0:
                            nn = 0
                        blo = list(lo) * nn if len(lo) == 1 and which == "lo" else list(lo)
                        bhi = list(hi) * nn if len(hi) == 1 and which == "hi" else list(hi)
                        if len(other) == 1:
                            blo, bhi = list(lo), list(hi)
                        exp = [x for a, b in zip(blo, bhi) for x in range(a, b)]
                        if np.asarray(R).tolist() != exp:
                            v.bad("expand_index_pointers: equals concatenated aranges", sig, inp, f"expected {exp}, got {np.asarray(R).tolist()}")
        for nl, nh in ((2, 3), (3, 2), (2, 4)):
            inp = {"lo": [0] * nl, "hi": [2] * nh}
            try:
                ao.expand_index_pointers(_arr([0] * nl), _arr([2] * nh))
                v.bad("expand_index_pointers: size mismatch raises ValueError", "sizes differ, both > 1", inp, "no exception")
            except ValueError:
                pass
            except Exception as e:  # noqa
                v.bad("expand_index_pointers: size mismatch raises ValueError", "sizes differ, both > 1", inp, f"{type(e).__name__}")
            sw.case(("eip-mismatch", nl, nh), nontrivial=True)
        # ---- expand_indices_nd
        for ind in arrays:
            for nd in (1, 2, 3):
                for order in ("F", "C", None):
                    inp = {"ind": list(ind), "nd": nd, "order": order}
                    sig = f"order {order or 'default'}" + (" nd=1" if nd == 1 else "")
                    kw = {} if order is None else {"order": order}
                    ok, R = v.call("expand_indices_nd", sig, inp, lambda: ao.expand_indices_nd(_arr(ind), nd, **kw))
                    sw.case(("eind", ind, nd, order), nontrivial=len(ind) > 1 and nd > 1, sample=inp)
                    if ok:
                        if (order or "F") == "F":
                            exp = [nd * i + d for i in ind for d in range(nd)]
                        else:
                            exp = [nd * i + d for d in range(nd) for i in ind]
                        if np.asarray(R).tolist() != exp:
                            v.bad("expand_indices_nd: equals nd*ind + component, in the requested order", sig, inp,
                                  f"expected {exp}, got {np.asarray(R).tolist()}")
        # ---- expand_indices_add_increment
        for x in arrays:
            for n in (1, 2, 3):
                for inc in (-1, 0, 1, 2, 3):
                    inp = {"x": list(x), "n": n, "increment": inc}
                    ok, R = v.call("expand_indices_add_increment", "any", inp, lambda: ao.expand_indices_add_increment(_arr(x), n, inc))
                    sw.case(("eadd", x, n, inc), nontrivial=len(x) > 1 and n > 1 and inc != 0, sample=inp)
                    if ok:
                        exp = [xk + j * inc for xk in x for j in range(n)]
                        if np.asarray(R).tolist() != exp:
                            v.bad("expand_indices_add_increment: equals [x_k + j*increment]", "any", inp,
                                  f"expected {exp}, got {np.asarray(R).tolist()}")
        # ---- block_diag_index
        for m in arrays:
            inp = {"m": list(m)}
            sig = "square blocks" + (" incl. zero size" if 0 in m else "")
            ok, R = v.call("block_diag_index", sig, inp, lambda: mo.block_diag_index(_arr(m)))
            sw.case(("bdi", m), nontrivial=len(m) > 1, sample=inp)
            if ok:
                exp, off = [], 0
                for mk in m:
                    exp += [off + c for _ in range(mk) for c in range(mk)]
                    off += mk
                if isinstance(R, tuple) or np.asarray(R).tolist() != exp:
                    v.bad("block_diag_index: m alone gives the column indices of the rows of the square block-diagonal pattern", sig, inp,
                          f"expected {exp}, got {R}")
        for m in _int_arrays(3, 3):
            for n in itertools.product(range(4), repeat=len(m)):
                inp = {"m": list(m), "n": list(n)}
                sig = "rectangular blocks" + (" incl. zero size" if (0 in m or 0 in n) else "")
                ok, R = v.call("block_diag_index", sig, inp, lambda: mo.block_diag_index(_arr(m), _arr(n)))
                sw.case(("bdi2", m, n), nontrivial=len(m) > 1, sample=inp)
                if ok:
                    ei, ej, ro, co = [], [], 0, 0
                    for mk, nk in zip(m, n):
                        for c in range(nk):
                            for r in range(mk):
                                ei.append(ro + r)
                                ej.append(co + c)
                        ro += mk
                        co += nk
                    good = isinstance(R, tuple) and len(R) == 2 and np.asarray(R[0]).tolist() == ei and np.asarray(R[1]).tolist() == ej
                    if not good:
                        v.bad("block_diag_index: (i, j) list the positions of the m_k x n_k diagonal blocks column by column", sig, inp,
                              f"expected i={ei} j={ej}, got {R}")
        # ---- block_diag_matrix
        for sz in _int_arrays(3, 3):
            tot = sum(s * s for s in sz)
            vals = np.arange(1, tot + 1, dtype=float)
            inp = {"sz": list(sz), "vals": vals.tolist()}
            sig = "incl. zero size" if 0 in sz else ("empty" if not sz else "positive sizes")
            ok, R = v.call("block_diag_matrix", sig, inp, lambda: mo.block_diag_matrix(vals.copy(), _arr(sz)))
            sw.case(("bdm", sz), nontrivial=len(sz) > 1, sample=inp)
            if ok:
                blocks, p = [], 0
                for s in sz:
                    blocks.append(vals[p:p + s * s].reshape(s, s))
                    p += s * s
                n = sum(sz)
                exp = np.zeros((n, n))
                o = 0
                for b, s in zip(blocks, sz):
                    exp[o:o + s, o:o + s] = b
                    o += s
                _cmp_sparse(v, "block_diag_matrix", sig, inp, R, exp, "csr")


# ----------------------------------------------------------------------------- unary matrix utilities


def _matrix_family(quick):
    """Grids of the unary sweep.
    quick   : every grid over {absent, explicit 0, 1, 2} for shapes <= 2x2; over {absent, 1, 2} for 1x3 / 3x1; every sparsity pattern with
              distinct stored values for 2x3, 3x2, 3x3 (explicit-zero variant for every 4th 3x3 pattern).
    thorough: in addition every 0/1/2-valued 2x3, 3x2 and 3x3 matrix, and the explicit-zero variant of every pattern."""
    full = (None, 0.0, 1.0, 2.0)
    for r, c in ((1, 1), (1, 2), (2, 1), (2, 2)):
        for g in _grids(r, c, full):
            yield g, False
    for r, c in ((1, 3), (3, 1)):
        for g in _grids(r, c, (None, 1.0, 2.0)):
            yield g, False
    for r, c in ((2, 3), (3, 2), (3, 3)):
        for k, g in enumerate(_pattern_grids(r, c)):
            yield g, False
            if (not quick) or (r == 3 and c == 3 and k % 4 == 1):
                yield _with_explicit_zeros(g), False
    if not quick:
        for r, c in ((2, 3), (3, 2)):
            for g in _grids(r, c, (None, 1.0, 2.0)):
                yield g, False
        for g in _grids(3, 3, (None, 1.0, 2.0)):
            yield g, True


def _sweep_unary(rep, mo):
    quick = rep.tier == "quick"
    v = _V(rep)
    with rep.sweep(
        "slice / zero / storage / kron",
        rule="matrices: every grid over {absent, explicit 0, 1, 2} for shapes <= 2x2; over {absent, 1, 2} for 1x3, 3x1; every sparsity "
             "pattern with distinct stored values for 2x3, 3x2, 3x3 (+ explicit-zero variant of every 4th 3x3 pattern); thorough adds "
             "every 0/1/2-valued 2x3, 3x2, 3x3 matrix and the explicit-zero variant of every pattern; each in csr and csc (quick: 3x3 patterns in csr, every other one also in csc) with sorted and "
             "(when a line holds > 1 entry) reversed indices (alternating for the 19683 3x3 0/1/2 matrices), coo for the format-agnostic "
             "functions; index sets: every tuple of line indices of length <= 3 incl. repeats and unsorted order (3-line matrices in "
             "quick and the 3x3 0/1/2 family: length <= 2 plus all permutations), every boolean mask, python int and np.int64 scalars; "
             "nontrivial = matrix has a stored entry and the index set is non-empty; distinct by (function, matrix, storage, index set)",
        bound="shape <= 3x3, values 0/1/2 (or distinct 1..9), index tuples of length <= 3",
        exhaustive=True,
    ) as sw:
        for gnum, (grid, big) in enumerate(_matrix_family(quick)):
            r, c = len(grid), len(grid[0])
            ez = any(x is not None and x == 0.0 for row in grid for x in row)
            stored = any(x is not None for row in grid for x in row)
            gkey = tuple(tuple(-1 if x is None else x for x in row) for row in grid)
            for fmt in ("csr", "csc"):
                if quick and r == 3 and c == 3 and fmt == "csc" and gnum % 2:
                    continue  # quick: every 3x3 pattern in csr, every other one also in csc (csc of P stores what csr of P^T stores)
                nlines = r if fmt == "csr" else c
                short = big or (quick and nlines == 3)
                idx_sets = list(_index_tuples(nlines, 2 if short else 3))
                if short:
                    idx_sets += list(itertools.permutations(range(3)))
                multi = any(len([1 for x in line if x is not None]) > 1 for line in (grid if fmt == "csr" else zip(*grid)))
                revs = ((gnum % 2 == 1) and multi,) if big else ((False, True) if multi else (False,))
                for rev in revs:
                    ssig = _storage_sig(fmt, rev, ez)
                    M0, dense, lines = _build(grid, fmt, rev)
                    base_inp = {"grid": grid, "format": fmt, "reversed_indices": rev}
                    # -- slice_sparse_matrix, slice_indices, zero_rows/zero_columns for every index tuple
                    for t in idx_sets:
                        ind = np.array(t, dtype=np.int64)
                        inp = dict(base_inp, ind=list(t))
                        sig = ("empty index" if not t else ("repeated index" if len(set(t)) < len(t) else
                                                              ("unsorted index" if list(t) != sorted(t) else "sorted distinct index")))
                        exp = dense[ind, :] if fmt == "csr" else dense[:, ind]
                        M = M0
                        ok, R = v.call("slice_sparse_matrix", sig, inp, lambda: mo.slice_sparse_matrix(M, ind))
                        sw.case(("slice", gkey, fmt, rev, t), nontrivial=stored and len(t) > 0, sample=inp)
                        if ok:
                            _cmp_sparse(v, "slice_sparse_matrix", sig, inp, R, exp, fmt)
                        # slice_indices
                        ok, R = v.call("slice_indices", sig, inp, lambda: mo.slice_indices(M, ind, True))
                        sw.case(("slice_indices", gkey, fmt, rev, t), nontrivial=stored and len(t) > 0)
                        if ok:
                            e_idx = [e[0] for k in t for e in lines[k]]
                            e_dat = [e[1] for k in t for e in lines[k]]
                            try:
                                gi = np.asarray(R[0]).tolist()
                                pos = R[1]
                                good = gi == e_idx and np.asarray(M.indices[pos]).tolist() == e_idx and np.asarray(M.data[pos]).tolist() == e_dat
                            except Exception as e:  # noqa
                                good = False
                            if not good:
                                v.bad("slice_indices: stored indices of the sliced lines and their storage positions", sig, inp,
                                      f"expected indices {e_idx} data {e_dat}, got {R}")
                            ok2, R2 = v.call("slice_indices", sig, inp, lambda: mo.slice_indices(M, ind))
                            if ok2 and np.asarray(R2).tolist() != e_idx:
                                v.bad("slice_indices: stored indices of the sliced lines and their storage positions", sig, inp,
                                      f"expected {e_idx}, got {R2} (return_array_ind=False)")
                        # zero_rows / zero_columns
                        fn = "zero_rows" if fmt == "csr" else "zero_columns"
                        Mz, _, _ = _build(grid, fmt, rev)
                        ok, _r = v.call(fn, sig, inp, lambda: getattr(mo, fn)(Mz, ind))
                        sw.case((fn, gkey, fmt, rev, t), nontrivial=stored and len(t) > 0)
                        if ok:
                            expz = dense.copy()
                            if fmt == "csr":
                                expz[list(t), :] = 0
                            else:
                                expz[:, list(t)] = 0
                            _cmp_sparse(v, fn, sig, inp, Mz, expz, fmt)
                    # -- boolean masks and scalar indices
                    for mask in itertools.product((False, True), repeat=nlines):
                        inp = dict(base_inp, mask=list(mask))
                        sig = "boolean mask"
                        sel = [k for k in range(nlines) if mask[k]]
                        exp = dense[sel, :] if fmt == "csr" else dense[:, sel]
                        M = M0
                        ok, R = v.call("slice_sparse_matrix", sig, inp, lambda: mo.slice_sparse_matrix(M, np.array(mask, dtype=bool)))
                        sw.case(("slice-mask", gkey, fmt, rev, mask), nontrivial=stored and any(mask), sample=inp)
                        if ok:
                            _cmp_sparse(v, "slice_sparse_matrix", sig, inp, R, exp, fmt)
                        ok, R = v.call("slice_indices", sig, inp, lambda: mo.slice_indices(M, np.array(mask, dtype=bool)))
                        if ok:
                            e_idx = [e[0] for k in sel for e in lines[k]]
                            if np.asarray(R).tolist() != e_idx:
                                v.bad("slice_indices: stored indices of the sliced lines and their storage positions", sig, inp,
                                      f"expected {e_idx}, got {R}")
                    for k in range(nlines):
                        for scalar, sname in ((int(k), "python int"), (np.int64(k), "numpy integer scalar")):
                            inp = dict(base_inp, ind=int(k), kind=sname)
                            sig = sname
                            exp = dense[[k], :] if fmt == "csr" else dense[:, [k]]
                            M = M0
                            if sname == "python int":  # documented: `ind: np.ndarray | int`
                                ok, R = v.call("slice_sparse_matrix", sig, inp, lambda: mo.slice_sparse_matrix(M, scalar))
                                sw.case(("slice-int", gkey, fmt, rev, k), nontrivial=stored)
                                if ok:
                                    _cmp_sparse(v, "slice_sparse_matrix", sig, inp, R, exp, fmt)
                            ok, R = v.call("slice_indices", sig, inp, lambda: mo.slice_indices(M, scalar, True))
                            sw.case(("slice_indices-scalar", gkey, fmt, rev, k, sname), nontrivial=stored)
                            if ok:
                                e_idx = [e[0] for e in lines[k]]
                                e_dat = [e[1] for e in lines[k]]
                                try:
                                    good = (np.asarray(R[0]).tolist() == e_idx and np.asarray(M.indices[R[1]]).tolist() == e_idx
                                            and np.asarray(M.data[R[1]]).tolist() == e_dat)
                                except Exception:  # noqa
                                    good = False
                                if not good:
                                    v.bad("slice_indices: stored indices of the sliced lines and their storage positions", sig, inp,
                                          f"expected {e_idx}, got {R}")
                    if not np.array_equal(M0.toarray(), dense):
                        v.bad("slice_sparse_matrix / slice_indices: the matrix argument is not modified", ssig, base_inp, "matrix changed")
            # -- format-agnostic: optimized_compressed_storage, sparse_kronecker_product (csr, csc, coo)
            nstored = sum(1 for row in grid for x in row if x is not None)
            for fmt in ("csr", "csc", "coo"):
                for rev in ((gnum % 2 == 1,) if big else ((False, True) if nstored > 1 else (False,))):
                    ssig = _storage_sig(fmt, rev, ez)
                    M, dense, _ = _build(grid, fmt, rev)
                    inp = {"grid": grid, "format": fmt, "reversed_indices": rev}
                    ok, R = v.call("optimized_compressed_storage", ssig, inp, lambda: mo.optimized_compressed_storage(M))
                    sw.case(("ocs", gkey, fmt, rev), nontrivial=stored, sample=inp)
                    if ok:
                        _cmp_sparse(v, "optimized_compressed_storage", ssig, inp, R, dense, "csc" if r > c else "csr")
                    for nd in (1, 2, 3):
                        inp2 = dict(inp, nd=nd)
                        ok, R = v.call("sparse_kronecker_product", ssig, inp2, lambda: mo.sparse_kronecker_product(M, nd))
                        sw.case(("kron", gkey, fmt, rev, nd), nontrivial=stored and nd > 1)
                        if ok:
                            _cmp_sparse(v, "sparse_kronecker_product", ssig, inp2, R, np.kron(dense, np.eye(nd)), None if nd == 1 else "csc")


# ----------------------------------------------------------------------------- binary: merge / stack


def _sweep_binary(rep, mo):
    quick = rep.tier == "quick"
    v = _V(rep)
    rng = rep.rng
    with rep.sweep(
        "merge_matrices / stack_mat / stack_diag",
        rule="A: every grid with 1-2 lines x 2 minor entries over {absent, 1, 2}, 3 lines over {absent, 1} (thorough: {absent, 1, 2}), plus "
             "3x3 patterns; B: every grid with k lines over {absent, explicit 0, 3} (k = 1) / {absent, 3} (k = 2; thorough also explicit 0) "
             "and k = 0 (no lines); merge: every ordered selection of k distinct lines of A; stack_mat / stack_diag: every pair (A, B) "
             "with A, B of <= 2 lines x <= 2 minor entries over {absent, 1, 2} (quick: 2-line B over {absent, 2}) incl. B with no lines; csr and csc, sorted and reversed "
             "indices; nontrivial = B has a stored entry and A has a stored entry; distinct by (function, A, B, lines, storage)",
        bound="A <= 3 lines, B <= 2 lines, minor dimension <= 2 (3 for the seeded 3x3 cases)",
        exhaustive=True,
    ) as sw:
        def grid_for(fmt, lines_grid, nminor):
            """lines_grid is given line-major; return the row-major grid and the shape"""
            nl = len(lines_grid)
            if fmt == "csr":
                return lines_grid, (nl, nminor)
            return tuple(tuple(lines_grid[j][i] for j in range(nl)) for i in range(nminor)), (nminor, nl)

        nm = 2
        a_fams = {1: list(_grids(1, nm, (None, 1.0, 2.0))), 2: list(_grids(2, nm, (None, 1.0, 2.0))),
                  3: list(_grids(3, nm, (None, 1.0) if quick else (None, 1.0, 2.0)))}
        b_fams = {0: [()], 1: list(_grids(1, nm, (None, 0.0, 3.0))), 2: list(_grids(2, nm, (None, 3.0) if quick else (None, 0.0, 3.0)))}
        for fmt in ("csr", "csc"):
            for rev in (False, True):
                ssig = _storage_sig(fmt, rev, False)
                for nl, afam in a_fams.items():
                    for ag in afam:
                        gA, shA = grid_for(fmt, ag, nm)
                        for k in range(0, min(nl, 2) + 1):
                            for sel in itertools.permutations(range(nl), k):
                                for bg in b_fams[k]:
                                    gB, shB = grid_for(fmt, bg, nm)
                                    A, dA, _ = _build_shape(gA, shA, fmt, rev)
                                    B, dB, _ = _build_shape(gB, shB, fmt, rev)
                                    inp = {"A": gA, "B": gB, "shape_B": shB, "lines": list(sel), "format": fmt, "reversed_indices": rev}
                                    sig = "no lines replaced" if k == 0 else ("unsorted lines_to_replace" if list(sel) != sorted(sel) else "sorted lines_to_replace")
                                    ok, _r = v.call("merge_matrices", sig, inp,
                                                    lambda: mo.merge_matrices(A, B, np.array(sel, dtype=np.int64), fmt))
                                    sw.case(("merge", fmt, rev, ag, bg, sel), nontrivial=k > 0 and dA.any() and dB.any(), sample=inp)
                                    if ok:
                                        exp = dA.copy()
                                        if fmt == "csr":
                                            exp[list(sel), :] = dB
                                        else:
                                            exp[:, list(sel)] = dB
                                        _cmp_sparse(v, "merge_matrices", sig, inp, A, exp, fmt)
                # stack_mat / stack_diag
                small = {0: [()], 1: list(_grids(1, nm, (None, 1.0, 2.0))), 2: list(_grids(2, nm, (None, 1.0, 2.0)))}
                small_b = dict(small)
                if quick:
                    small_b[2] = list(_grids(2, nm, (None, 2.0)))
                for nla in (1, 2):
                    for ag in small[nla]:
                        for nlb in (0, 1, 2):
                            for bg in small_b[nlb]:
                                gA, shA = grid_for(fmt, ag, nm)
                                gB, shB = grid_for(fmt, bg, nm)
                                A, dA, _ = _build_shape(gA, shA, fmt, rev)
                                B, dB, _ = _build_shape(gB, shB, fmt, rev)
                                inp = {"A": gA, "B": gB, "shape_B": shB, "format": fmt, "reversed_indices": rev}
                                sig = "B has no lines" if nlb == 0 else "B has lines"
                                exp = np.vstack((dA, dB)) if fmt == "csr" else np.hstack((dA, dB))
                                ok, _r = v.call("stack_mat", sig, inp, lambda: mo.stack_mat(A, B))
                                sw.case(("stack_mat", fmt, rev, ag, bg), nontrivial=dA.any() and dB.any(), sample=inp)
                                if ok:
                                    _cmp_sparse(v, "stack_mat", sig, inp, A, exp, fmt)
                                # stack_diag: B with a different minor dimension as well
                                for nmb in (1, 2):
                                    if nmb == nm:
                                        gB2, shB2 = gB, shB
                                    else:
                                        bg2 = tuple(tuple(row[:nmb]) for row in bg)
                                        gB2, shB2 = grid_for(fmt, bg2, nmb)
                                    A2, dA2, _ = _build_shape(gA, shA, fmt, rev)
                                    B2, dB2, _ = _build_shape(gB2, shB2, fmt, rev)
                                    inp2 = {"A": gA, "B": gB2, "shape_B": shB2, "format": fmt, "reversed_indices": rev}
                                    sig2 = "B has no lines but a non-zero other dimension" if nlb == 0 else "B has lines"
                                    ok, R = v.call("stack_diag", sig2, inp2, lambda: mo.stack_diag(A2, B2))
                                    sw.case(("stack_diag", fmt, rev, ag, bg, nmb), nontrivial=dA2.any() and dB2.any())
                                    if ok:
                                        _cmp_sparse(v, "stack_diag", sig2, inp2, R, sl.block_diag(dA2, dB2), fmt)
                                        if not np.array_equal(A2.toarray(), dA2):
                                            v.bad("stack_diag: A is not modified", sig2, inp2, "A changed")
        # seeded 3x3 cases for merge (larger minor dimension)
        n3 = 200 if quick else 4000
        pats = list(_pattern_grids(3, 3))
        for _ in range(n3):
            fmt, rev = rng.choice(("csr", "csc")), rng.random() < 0.5
            gA = rng.choice(pats)
            k = rng.randint(1, 3)
            sel = tuple(rng.sample(range(3), k))
            lb = tuple(tuple(rng.choice((None, 0.0, 11.0, 12.0)) for _ in range(3)) for _ in range(k))
            gB, shB = (lb, (k, 3)) if fmt == "csr" else (tuple(tuple(lb[j][i] for j in range(k)) for i in range(3)), (3, k))
            A, dA, _ = _build(gA, fmt, rev)
            B, dB, _ = _build_shape(gB, shB, fmt, rev)
            inp = {"A": gA, "B": gB, "shape_B": shB, "lines": list(sel), "format": fmt, "reversed_indices": rev}
            sig = "unsorted lines_to_replace" if list(sel) != sorted(sel) else "sorted lines_to_replace"
            ok, _r = v.call("merge_matrices", sig, inp, lambda: mo.merge_matrices(A, B, np.array(sel, dtype=np.int64), fmt))
            sw.case(("merge3", fmt, rev, gA, gB, sel), nontrivial=True)
            if ok:
                exp = dA.copy()
                if fmt == "csr":
                    exp[list(sel), :] = dB
                else:
                    exp[:, list(sel)] = dB
                _cmp_sparse(v, "merge_matrices", sig, inp, A, exp, fmt)


# ----------------------------------------------------------------------------- block constructors


def _sweep_blocks(rep, mo):
    quick = rep.tier == "quick"
    v = _V(rep)
    with rep.sweep(
        "block-diagonal constructors",
        rule="cs{r,c}_matrix_from_dense_blocks: block_size 1..3 x num_blocks 0..3, data = 1..N (distinct) and one 0/1/2 pattern, plus the "
             "wrong-size ValueError; cs{r,c}_matrix_from_sparse_blocks: every list of 1-3 blocks drawn from a pool of 14 small blocks "
             "(1x1, 1x2, 2x1, 2x2, 2x3 shapes; empty rows/columns; explicit zero) with the block formats cycling through every "
             "assignment of {csr, csc, coo} (quick: 3 assignments) and reversed indices; nontrivial = at least two blocks; distinct by "
             "(function, blocks, formats)",
        bound="<= 3 blocks, block shape <= 2x3 (sparse) / 3x3 (dense)",
        exhaustive=True,
    ) as sw:
        for bs in (1, 2, 3):
            for nb in (0, 1, 2, 3):
                N = bs * bs * nb
                for kind in ("distinct", "012"):
                    data = np.arange(1, N + 1, dtype=float) if kind == "distinct" else np.array([(k * 7 + 1) % 3 for k in range(N)], dtype=float)
                    for name, colmajor in (("csr_matrix_from_dense_blocks", False), ("csc_matrix_from_dense_blocks", True)):
                        inp = {"data": data.tolist(), "block_size": bs, "num_blocks": nb}
                        sig = f"block_size {bs}" + (" no blocks" if nb == 0 else "")
                        ok, R = v.call(name, sig, inp, lambda: getattr(mo, name)(data.copy(), bs, nb))
                        sw.case((name, bs, nb, kind), nontrivial=nb > 1 and bs > 1, sample=inp)
                        if ok:
                            blocks = [data[k * bs * bs:(k + 1) * bs * bs].reshape(bs, bs) for k in range(nb)]
                            if colmajor:
                                blocks = [b.T for b in blocks]
                            exp = sl.block_diag(*blocks) if nb else np.zeros((0, 0))
                            _cmp_sparse(v, name, sig, inp, R, exp, "csc" if colmajor else "csr")
        for name in ("csr_matrix_from_dense_blocks", "csc_matrix_from_dense_blocks"):
            inp = {"data": [1.0, 2.0, 3.0], "block_size": 2, "num_blocks": 1}
            try:
                getattr(mo, name)(np.array([1.0, 2.0, 3.0]), 2, 1)
                v.bad(f"{name}: wrong data size raises ValueError", "size mismatch", inp, "no exception")
            except ValueError:
                pass
            except Exception as e:  # noqa
                v.bad(f"{name}: wrong data size raises ValueError", "size mismatch", inp, type(e).__name__)
            sw.case((name, "mismatch"), nontrivial=True)
        pool = [
            ((5.0,),), ((None,),), ((0.0,),),
            ((1.0, 2.0),), ((None, 3.0),),
            ((1.0,), (2.0,)), ((None,), (4.0,)),
            ((1.0, 2.0), (3.0, 4.0)), ((None, 2.0), (3.0, None)), ((None, None), (None, 6.0)), ((7.0, None), (0.0, None)),
            ((1.0, 2.0, 3.0), (4.0, 5.0, 6.0)), ((None, 2.0, None), (None, None, None)), ((None, None, 9.0), (8.0, None, None)),
        ]
        fmts3 = list(itertools.product(("csr", "csc", "coo"), repeat=3))
        if quick:
            fmts3 = [("csr", "csc", "coo"), ("csc", "csr", "csr"), ("coo", "coo", "csc")]
        for nblk in (1, 2, 3):
            for combo in itertools.product(range(len(pool)), repeat=nblk):
                if nblk == 3 and quick and (combo[0] + 2 * combo[1] + 3 * combo[2]) % 5:
                    continue
                for fa in sorted({f[:nblk] for f in fmts3}):
                    for rev in (False, True):
                        for name, fmt in (("csr_matrix_from_sparse_blocks", "csr"), ("csc_matrix_from_sparse_blocks", "csc")):
                            built = [_build(pool[i], f, rev) for i, f in zip(combo, fa)]
                            blocks = [b[0] for b in built]
                            dens = [b[1] for b in built]
                            inp = {"blocks": [pool[i] for i in combo], "formats": list(fa), "reversed_indices": rev}
                            sig = ("single block" if nblk == 1 else "several blocks") + (" unsorted indices" if rev else "")
                            ok, R = v.call(name, sig, inp, lambda: getattr(mo, name)(list(blocks)))
                            sw.case((name, combo, fa, rev), nontrivial=nblk > 1, sample=inp)
                            if ok:
                                _cmp_sparse(v, name, sig, inp, R, sl.block_diag(*dens), fmt)


# ----------------------------------------------------------------------------- entry


def run(rep):
    import porepy as pp

    mo, ao = pp.matrix_operations, pp.array_operations
    rep.under_contract(*[f"pp.matrix_operations.{n}" for n in (
        "rlencode", "rldecode", "block_diag_index", "block_diag_matrix", "slice_sparse_matrix", "slice_indices", "zero_rows", "zero_columns",
        "merge_matrices", "stack_mat", "stack_diag", "csr_matrix_from_sparse_blocks", "csc_matrix_from_sparse_blocks",
        "csr_matrix_from_dense_blocks", "csc_matrix_from_dense_blocks", "sparse_kronecker_product", "optimized_compressed_storage")],
        "pp.array_operations.expand_index_pointers", "pp.array_operations.expand_indices_nd", "pp.array_operations.expand_indices_add_increment")
    rep.assume("rlencode requires at least one column (an array with no columns raises IndexError; there is no dense equivalent to compare with)",
               "merge_matrices requires distinct line indices (the function rejects repeated ones)",
               "values are small integers stored as float64, so dense comparison is exact")
    rep.trust("numpy (repeat, kron, fancy indexing)", "scipy.sparse constructors / toarray / check_format", "scipy.linalg.block_diag")
    rep.explanation = "B only: every utility compared with its dense numpy expression on exhaustively enumerated small inputs."
    _sweep_index_helpers(rep, mo, ao)
    _sweep_unary(rep, mo)
    _sweep_binary(rep, mo)
    _sweep_blocks(rep, mo)


def replay(data):
    """Re-evaluate the recorded input natively (functions with findings; others print the record)."""
    import porepy as pp

    mo = pp.matrix_operations
    inp = data.get("inputs") or {}
    fn = (data.get("obligation") or "").split(":")[0]

    def grid(g):
        return tuple(tuple(None if v is None else float(v) for v in row) for row in g)

    try:
        if fn == "rldecode":
            got, exp = mo.rldecode(_arr(inp["A"]), _arr(inp["n"])), np.repeat(_arr(inp["A"]), _arr(inp["n"]))
            print("rldecode", inp, "->", np.asarray(got).tolist(), "np.repeat ->", exp.tolist())
            return not np.array_equal(got, exp)
        if fn == "block_diag_index":
            m, n = inp["m"], inp.get("n")
            if n is None:
                return False
            R = mo.block_diag_index(_arr(m), _arr(n))
            ei, ej, ro, co = [], [], 0, 0
            for mk, nk in zip(m, n):
                for c in range(nk):
                    for r in range(mk):
                        ei.append(ro + r)
                        ej.append(co + c)
                ro += mk
                co += nk
            print("block_diag_index", inp, "->", R, "expected", ei, ej)
            return not (np.asarray(R[0]).tolist() == ei and np.asarray(R[1]).tolist() == ej)
        if fn == "block_diag_matrix":
            sz, vals = inp["sz"], np.array(inp["vals"], dtype=float)
            R = mo.block_diag_matrix(vals.copy(), _arr(sz)).toarray()
            blocks, p = [], 0
            for s in sz:
                blocks.append(vals[p:p + s * s].reshape(s, s))
                p += s * s
            exp = sl.block_diag(*[b for b in blocks if b.size]) if any(b.size for b in blocks) else np.zeros((0, 0))
            print("block_diag_matrix", inp, "->", R.tolist(), "expected", exp.tolist())
            return R.shape != exp.shape or not np.array_equal(R, exp)
        if fn in ("merge_matrices", "stack_diag", "stack_mat"):
            fmt, rev = inp["format"], inp["reversed_indices"]
            gA, gB = grid(inp["A"]), grid(inp["B"])
            A, dA, _ = _build(gA, fmt, rev)
            B, dB, _ = _build_shape(gB, tuple(inp["shape_B"]), fmt, rev)
            if fn == "merge_matrices":
                sel = inp["lines"]
                mo.merge_matrices(A, B, np.array(sel, dtype=np.int64), fmt)
                exp = dA.copy()
                if fmt == "csr":
                    exp[list(sel), :] = dB
                else:
                    exp[:, list(sel)] = dB
                R = A
            elif fn == "stack_diag":
                R, exp = mo.stack_diag(A, B), sl.block_diag(dA, dB)
            else:
                mo.stack_mat(A, B)
                R, exp = A, (np.vstack((dA, dB)) if fmt == "csr" else np.hstack((dA, dB)))
            print(fn, "->", R.toarray().tolist(), "shape", R.shape, "expected", exp.tolist(), "shape", exp.shape)
            return R.shape != exp.shape or not np.array_equal(R.toarray(), exp)
    except Exception as e:  # noqa
        print("replay raised", type(e).__name__, e)
        return True
    print("no native replay for", fn, "- recorded inputs:", inp)
    return False
