"""C26 -- mortar projections conserve extensive and preserve intensive quantities.

Tier B.  Contracts (from the statement) on the state of a ``pp.MortarGrid`` after construction (matching) and after
every step of replacement sequences ``update_mortar`` / ``update_secondary`` / ``update_primary`` (directly and
through ``MixedDimensionalGrid.replace_subdomains_and_interfaces``), and on ``match_grids.match_1d`` (``match_2d``
in the thorough tier):

  per mortar side   integrated maps have unit column sums on the covered entities
                    (primary_to_mortar_int over covered primary faces, secondary_to_mortar_int over secondary cells
                    per side, mortar_to_primary_int and mortar_to_secondary_int over mortar cells),
                    averaged maps have unit row sums (primary_to_mortar_avg, secondary_to_mortar_avg over mortar
                    cells; mortar_to_primary_avg over covered primary faces; mortar_to_secondary_avg per side),
                    no weight on entities that are not covered;
  transposition     mortar_to_X_int == X_to_mortar_avg^T and mortar_to_X_avg == X_to_mortar_int^T (values 1e-12 and
                    identical non-zero pattern), X in {primary, secondary}.

Expected sums are the constants of the statement; which primary faces are covered, and on which geometric side they
lie, is read from the geometry / fracture tags of the (independently meshed) primary grid.  Where the weights are
determined by the statement's semantics alone (matching state, first replacement from it, and the secondary maps
right after ``update_secondary``) they are additionally compared with exact overlap fractions computed with
``fractions.Fraction`` from the known node positions; ``match_1d`` is compared with the same exact oracle.

Family: 2-D tensor grids with one axis-aligned fracture (full width; with an interior tip; both tips interior;
horizontal / vertical; dyadic and non-dyadic spacing), node sets on the fracture U1..U4 (uniform) and N2, N3
(non-uniform, non-nested), reversed node order; every sequence of up to 3 replacements from a menu of
mortar (both sides / one side / different sides), secondary and primary replacements.

Side-order family (both tiers): update_mortar / interface_map given only the second side, or both sides in the key order (RIGHT, LEFT) with
different grids per side; "per side" means the cells the MortarGrid itself reports for the side (side_grids / project_to_side_grids /
cell_volumes): per-side sums, the integrated projection of the secondary cell volumes gives the side's mortar cell volumes, a side is
coupled to the primary faces of its own geometric side only.
2-D family in arbitrary planes (both tiers; larger in thorough): structured triangle grids (row-wise / column-wise node numbering, ratios
1x1 ... 4x3, 2x5) of a square and of a parallelogram fracture embedded in horizontal, vertical and tilted planes (and at length scales
1/100 and 50 in thorough); match_2d and the update_mortar / update_secondary states of a two-sided 2-D MortarGrid compared with exact
overlap-area fractions (rational polygon clipping in the in-plane coordinates known to the harness).

Detection power (scratch copy of /repo/src with the candidate defect below repaired so that the baseline exits 0,
POREPY_SRC=<copy>, quick tier; every mutant run exited 1 with VIOLATION lines):
  M1 mortar_grid._set_projections: ``_mortar_to_primary_int`` built from ``_primary_to_mortar_int.T`` (avg/int mixed up)
       caught by "transposition: mortar_to_primary_int == primary_to_mortar_avg^T", "mortar_to_primary_int: unit column sums"
  M2 mortar_grid.update_secondary: ``_set_projections(primary=False)`` -> ``(secondary=False)`` (stale transposes)
       caught by "shapes: projections have the sizes of the current grids" / transposition clauses
  M3 match_grids.match_1d: averaged / integrated normalisations swapped
       caught by all eight sum clauses, "match_1d: weights equal the exact overlap fractions"
  M4 mortar_grid.update_primary: ``_primary_to_mortar_avg * split_matrix_int``
       caught by "primary_to_mortar_avg: unit row sums", "mortar_to_primary_int: unit column sums", exact-overlap clause
  M5 match_grids.match_grids_along_1d_mortar: positive/negative side of the new grid swapped (``both_sides_new[::-1]``)
       sums and transposes are unaffected; caught only by "primary_to_mortar_{int,avg}: exact overlap fractions on the mortar's side"

Candidate defect of the unchanged tree found by this check (kept strict; reported to the lead):
  update_primary (replace_subdomains_and_interfaces with a new 2-D grid) when some primary face carries weight in several
  mortar cells beforehand (mortar finer than / not nested in the primary faces, e.g. after update_mortar with a 3-cell
  mortar over 2 faces, or after replacing the primary by a coarser one): match_grids_along_1d_mortar takes the old
  fracture faces from the non-zeros of _primary_to_mortar_int without uniquifying them, so every such face is counted
  once per mortar cell and the primary projections come out multiplied by that multiplicity (row/column sums 2 instead
  of 1).  signature "update_primary, some face coupled to several mortar cells".

Candidate defect of the unchanged tree found by the 2-D family in arbitrary planes (kept strict; reported to the lead):
  match_grids.match_2d (pp.intersections.triangulations -> shapely / GEOS intersection of the centred, projected triangles) loses a whole
  overlap or counts a pair of cells that only touch along part of an edge, when cell edges of the two grids are collinear but not
  axis-parallel (any nested or partly nested refinement of a sheared or rotated fracture), e.g. horizontal plane z=1/2, parallelogram
  (x, y) = (u + 7/20 v, 3/20 u + 4/5 v): match_2d(new 2x2, old 4x3 structured triangles) gives weight 0 instead of 1/3 (averaged) / 1
  (integrated) for (new cell 3, old cell 5), the old cell lying inside the new one; tilted plane A, same parallelogram: match_2d(new 3x2,
  old 2x2) gives (new 10, old 3) the weight 1 although the cells share only part of an edge (row sum 2, column sum 5/3).  update_mortar /
  update_secondary inherit it (row / column sums 2, 5/3, 0; or ValueError "Check not satisfied for the primary grid").
  signatures "scaling .., <plane>, <shape>, whole overlaps lost / cells that only touch counted as overlapping" and "2-D mortar, update_.., <plane>, <shape>".
"""
from __future__ import annotations

META = {
    "level": "other",
    "engine": "pse",
    "technique": "contract-based deductive verification of the transposition clause: the real MortarGrid._set_projections, "
                 "optimized_compressed_storage, sparse_kronecker_product and the public projection accessors run on sparse-matrix proxies of "
                 "symbolic shape and content, mortar_to_X_int(nd) = X_to_mortar_avg(nd)^T and mortar_to_X_avg(nd) = X_to_mortar_int(nd)^T entry by "
                 "entry (z3, nd 1..3) plus the frame of the side not asked for; run-time contract sweep (bounded stand-in): row/column-sum and transposition postconditions of the "
                 "statement evaluated on real MortarGrid objects after every step of enumerated replacement sequences; exact rational "
                 "overlap oracle for match_1d and for the states whose weights the statement determines",
    "text": "Bounded (tier B): 1-D mortars between a 2-D tensor grid with one fracture and its 1-D fracture grid; all sequences of up to 3 "
            "replacements (mortar / secondary / primary, refinement ratios 2-4, non-nested and non-uniform node sets, one-sided mortar "
            "replacement) from enumerated menus, plus side-order operations (update_mortar / interface_map with only the second side, or with the sides "
            "in the key order (RIGHT, LEFT) and different grids per side; per-side clauses on the cells the MortarGrid reports for each side); "
            "match_1d on all ordered pairs of the node sets; 2-D mortars: match_2d and sequences of <= 2 update_mortar / update_secondary "
            "operations on structured triangle grids (row- / column-wise numbering) of a square and a parallelogram fracture in horizontal, vertical "
            "and tilted planes against exact overlap-area fractions (3 families quick, 12 incl. two other length scales thorough); horizontal-plane "
            "sum clauses of the older 2-D sweep in the thorough tier. Tier P: the transposition clause holds by construction in _set_projections for all shapes and "
            "contents; that every mutator calls it for the side it changed, and the sum clauses, are bounded (sweep). Not covered: update_primary for 2-D mortars (NotImplementedError in porepy), "
            "simplex 2-D/3-D host grids (gmsh), fractures crossed by another fracture (match_grids_along_1d_mortar rejects them).",
    "note": "covered primary faces and their geometric side are taken from the fracture_faces tags and geometry of the independently "
            "meshed primary grid (pp.meshing.tensor_grid, C25); tolerance 1e-12 absolute on weights and sums (all weights are in [0,1]); "
            "replacement grids are built from exact rational node positions",
}

import copy
import itertools
from fractions import Fraction as Fr

TOL = 1e-12

NODESETS = {
    "U1": (Fr(0), Fr(1)),
    "U2": (Fr(0), Fr(1, 2), Fr(1)),
    "U3": (Fr(0), Fr(1, 3), Fr(2, 3), Fr(1)),
    "U4": (Fr(0), Fr(1, 4), Fr(1, 2), Fr(3, 4), Fr(1)),
    "N2": (Fr(0), Fr(1, 3), Fr(1)),
    "N3": (Fr(0), Fr(1, 4), Fr(2, 3), Fr(1)),
    "U6": tuple(Fr(i, 6) for i in range(7)),
    # nodes 5e-7 away from those of U4: sliver overlaps that are shorter than match_1d's tol (1e-6 in the sweep) as lengths, but
    # larger than it as fractions of a cell -- they carry weight and must not be lost (used in the match_1d sweep only)
    "S4": (Fr(0), Fr(1, 4) + Fr(5, 10**7), Fr(1, 2), Fr(3, 4) - Fr(5, 10**7), Fr(1)),
}


def intervals(ns, rev=False):
    """Cells of a 1-D grid whose nodes are ns (ascending), in cell order; rev: nodes stored in descending order."""
    cells = [(ns[i], ns[i + 1]) for i in range(len(ns) - 1)]
    return cells[::-1] if rev else cells


def overlap(a, b):
    return max(Fr(0), min(a[1], b[1]) - max(a[0], b[0]))


def overlap_matrix(np, rows, cols, scaling):
    """Exact weights between two lists of intervals: 'int' -> |r&c|/|c| (unit column sums), 'avg' -> |r&c|/|r|."""
    M = np.zeros((len(rows), len(cols)))
    for i, r in enumerate(rows):
        for j, c in enumerate(cols):
            w = overlap(r, c)
            if w > 0:
                M[i, j] = float(w / ((c[1] - c[0]) if scaling == "int" else (r[1] - r[0])))
    return M


class Base:
    """A 2-D tensor grid with one axis-aligned fracture.  ``axis``: direction of the fracture (0: x, 1: y);
    the fracture occupies [t0, t1] along ``axis`` at cross coordinate ``c``; node-set names give the nodes on the
    fracture as fractions of [t0, t1]."""

    def __init__(self, pp, np, name, axis, t0, t1, before, after, cross_nodes, c):
        self.pp, self.np, self.name, self.axis = pp, np, name, axis
        self.t0, self.t1, self.before, self.after, self.cross_nodes, self.c = Fr(t0), Fr(t1), before, after, cross_nodes, Fr(c)
        self._prim = {}

    def along(self, setname):
        return [self.t0 + (self.t1 - self.t0) * f for f in NODESETS[setname]]

    def primary(self, setname):
        """(2-D grid, matching 1-D grid, face_cells) meshed by porepy for the node set on the fracture."""
        if setname not in self._prim:
            pp, np = self.pp, self.np
            tn = [float(x) for x in list(self.before) + self.along(setname) + list(self.after)]
            cn = [float(x) for x in self.cross_nodes]
            e0, e1, c = float(self.t0), float(self.t1), float(self.c)
            if self.axis == 0:
                frac = np.array([[e0, e1], [c, c]])
                mdg = pp.meshing.tensor_grid([frac], np.array(tn), np.array(cn))
            else:
                frac = np.array([[c, c], [e0, e1]])
                mdg = pp.meshing.tensor_grid([frac], np.array(cn), np.array(tn))
            g2, g1, intf = mdg.subdomains(dim=2)[0], mdg.subdomains(dim=1)[0], mdg.interfaces()[0]
            self._prim[setname] = (g2, g1, mdg.interface_data(intf)["face_cells"].copy(), self.face_info(g2))
        return self._prim[setname]

    def fresh_mdg(self, setname):
        pp, np = self.pp, self.np
        tn = [float(x) for x in list(self.before) + self.along(setname) + list(self.after)]
        cn = [float(x) for x in self.cross_nodes]
        e0, e1, c = float(self.t0), float(self.t1), float(self.c)
        if self.axis == 0:
            return pp.meshing.tensor_grid([np.array([[e0, e1], [c, c]])], np.array(tn), np.array(cn))
        return pp.meshing.tensor_grid([np.array([[c, c], [e0, e1]])], np.array(cn), np.array(tn))

    def grid1d(self, setname, rev=False):
        pp, np = self.pp, self.np
        t = np.array([float(x) for x in self.along(setname)])
        if rev:
            t = t[::-1].copy()
        g = pp.TensorGrid(np.arange(t.size, dtype=float))
        nodes = np.zeros((3, t.size))
        nodes[self.axis] = t
        nodes[1 - self.axis] = float(self.c)
        g.nodes = nodes
        g.compute_geometry()
        return g

    def cells1d(self, setname, rev=False):
        return intervals(self.along(setname), rev)

    def face_info(self, g2):
        """Covered (fracture) faces of a primary grid: index -> (interval along the fracture, geometric side +1/-1),
        from the grid's own tags and geometry (snapped to the known rational nodes)."""
        np = self.np
        cand = sorted(set(list(self.before) + [self.t0, self.t1] + list(self.after) + [self.t0 + (self.t1 - self.t0) * f for ns in NODESETS.values() for f in ns]))
        cf = g2.cell_faces.tocsr()
        fn = g2.face_nodes.tocsc()
        out = {}
        for f in np.where(g2.tags["fracture_faces"])[0]:
            nn = fn.indices[fn.indptr[f]:fn.indptr[f + 1]]
            ts = sorted(float(g2.nodes[self.axis, n]) for n in nn)
            snap = [min(cand, key=lambda q: abs(float(q) - t)) for t in ts]
            cells = cf.indices[cf.indptr[f]:cf.indptr[f + 1]]
            side = 1 if g2.cell_centers[1 - self.axis, cells[0]] > float(self.c) else -1
            out[int(f)] = ((snap[0], snap[-1]), side, len(cells))
        return out


# ----------------------------------------------------------------------------- the contract


def dense(m):
    return m.toarray()


def pattern(m, np):
    m = m.tocoo()
    keep = m.data != 0
    return set(zip(m.row[keep].tolist(), m.col[keep].tolist()))


def side_rows(intf):
    rows, off = [], 0
    for side, g in intf.side_grids.items():
        rows.append((side, list(range(off, off + g.num_cells))))
        off += g.num_cells
    return rows, off


def check_sums(np, intf, n_prim_faces, n_sec_cells, covered, fails, TOL=TOL):
    """The statement's clauses on one MortarGrid state.  covered: indices of covered primary faces."""
    def bad(ob, detail):
        fails.append((ob, detail))

    P_int, P_avg = intf.primary_to_mortar_int(), intf.primary_to_mortar_avg()
    S_int, S_avg = intf.secondary_to_mortar_int(), intf.secondary_to_mortar_avg()
    MP_int, MP_avg = intf.mortar_to_primary_int(), intf.mortar_to_primary_avg()
    MS_int, MS_avg = intf.mortar_to_secondary_int(), intf.mortar_to_secondary_avg()
    rows, m = side_rows(intf)
    if m != intf.num_cells or P_int.shape != (m, n_prim_faces) or P_avg.shape != (m, n_prim_faces) or S_int.shape != (m, n_sec_cells) \
            or S_avg.shape != (m, n_sec_cells) or MP_int.shape != (n_prim_faces, m) or MP_avg.shape != (n_prim_faces, m) \
            or MS_int.shape != (n_sec_cells, m) or MS_avg.shape != (n_sec_cells, m):
        bad("shapes: projections have the sizes of the current grids", f"mortar cells {m}/{intf.num_cells}, P {P_int.shape}, S {S_int.shape}, MP {MP_int.shape}, MS {MS_int.shape}")
        return None
    # transposition
    for a, b, name in ((MP_int, P_avg, "mortar_to_primary_int == primary_to_mortar_avg^T"), (MP_avg, P_int, "mortar_to_primary_avg == primary_to_mortar_int^T"),
                       (MS_int, S_avg, "mortar_to_secondary_int == secondary_to_mortar_avg^T"), (MS_avg, S_int, "mortar_to_secondary_avg == secondary_to_mortar_int^T")):
        d = float(np.max(np.abs(dense(a) - dense(b).T), initial=0.0))
        if d > TOL or pattern(a, np) != {(j, i) for i, j in pattern(b, np)}:
            bad("transposition: " + name, f"max difference {d:.3e}, patterns equal: {pattern(a, np) == {(j, i) for i, j in pattern(b, np)}}")
    D = {k: dense(v) for k, v in (("P_int", P_int), ("P_avg", P_avg), ("S_int", S_int), ("S_avg", S_avg), ("MP_int", MP_int), ("MP_avg", MP_avg), ("MS_int", MS_int), ("MS_avg", MS_avg))}
    cov = np.zeros(n_prim_faces, dtype=bool)
    cov[list(covered)] = True

    def close(x, v):
        return bool(np.all(np.abs(np.asarray(x) - v) <= TOL))

    if not close(D["P_int"].sum(axis=0)[cov], 1.0):
        bad("primary_to_mortar_int: unit column sums on covered faces", f"column sums {np.round(D['P_int'].sum(axis=0)[cov], 13).tolist()}")
    if not close(D["MP_avg"].sum(axis=1)[cov], 1.0):
        bad("mortar_to_primary_avg: unit row sums on covered faces", f"row sums {np.round(D['MP_avg'].sum(axis=1)[cov], 13).tolist()}")
    if np.any(D["P_int"][:, ~cov] != 0) or np.any(D["P_avg"][:, ~cov] != 0) or np.any(D["MP_int"][~cov, :] != 0) or np.any(D["MP_avg"][~cov, :] != 0):
        bad("coverage: no weight on uncovered primary faces", "non-zero weight on an uncovered face")
    if not close(D["P_avg"].sum(axis=1), 1.0):
        bad("primary_to_mortar_avg: unit row sums", f"row sums {np.round(D['P_avg'].sum(axis=1), 13).tolist()}")
    if not close(D["MP_int"].sum(axis=0), 1.0):
        bad("mortar_to_primary_int: unit column sums", f"column sums {np.round(D['MP_int'].sum(axis=0), 13).tolist()}")
    if not close(D["S_avg"].sum(axis=1), 1.0):
        bad("secondary_to_mortar_avg: unit row sums", f"row sums {np.round(D['S_avg'].sum(axis=1), 13).tolist()}")
    if not close(D["MS_int"].sum(axis=0), 1.0):
        bad("mortar_to_secondary_int: unit column sums", f"column sums {np.round(D['MS_int'].sum(axis=0), 13).tolist()}")
    for side, rr in rows:
        if not close(D["S_int"][rr, :].sum(axis=0), 1.0):
            bad("secondary_to_mortar_int: unit column sums per side", f"{side}: {np.round(D['S_int'][rr, :].sum(axis=0), 13).tolist()}")
        if not close(D["MS_avg"][:, rr].sum(axis=1), 1.0):
            bad("mortar_to_secondary_avg: unit row sums per side", f"{side}: {np.round(D['MS_avg'][:, rr].sum(axis=1), 13).tolist()}")
    if any(np.any(v < -TOL) for v in D.values()):
        bad("weights: non-negative", "negative weight")
    return D


def relation(a, b):
    """Relation of node set a (mortar) to node set b, both as sets of Fractions."""
    a, b = set(a), set(b)
    if a == b:
        return "matching"
    if b < a:
        return "mortar finer"
    if a < b:
        return "mortar coarser"
    return "non-nested"


class State:
    """Harness bookkeeping (exact): which node sets the three grids currently have."""

    def __init__(self, base, start, rev0=False):
        self.base = base
        self.prim = start
        self.sec = (start, rev0)
        self.mort = {"L": (start, rev0), "R": (start, rev0)}
        self.steps = 0
        self.exact = True  # all weights are determined by direct overlaps

    def copy(self):
        s = State(self.base, self.prim)
        s.sec, s.mort, s.steps, s.exact = self.sec, dict(self.mort), self.steps, self.exact
        return s

    def describe(self):
        b = self.base
        mp = sorted({relation(b.along(self.mort[k][0]), b.along(self.prim)) for k in "LR"})
        ms = sorted({relation(b.along(self.mort[k][0]), b.along(self.sec[0])) for k in "LR"})
        return "/".join(mp), "/".join(ms)


def apply_op(base, state, intf, g2, g1, op, via_mdg=None):
    """Apply one replacement to the real MortarGrid (directly, or through the md-grid when via_mdg is given).
    Returns the new (g2, g1)."""
    pp = base.pp
    MS = pp.grids.mortar_grid.MortarSides
    kind = op[0]
    if kind == "M":
        new = {}
        # the dictionary of new side grids is built in the key order of the operation ({"L", "R"}, {"R", "L"}, only one of them)
        for k, spec in op[1].items():
            if spec is not None:
                new[{"L": MS.LEFT_SIDE, "R": MS.RIGHT_SIDE}[k]] = base.grid1d(*spec)
        if via_mdg is not None:
            arg = new if op[2] == "dict" else pp.MortarGrid(1, new) if len(new) == 2 else new
            via_mdg.replace_subdomains_and_interfaces(interface_map={intf: arg})
        else:
            intf.update_mortar(new, intf.tol)
        for k in "LR":
            if op[1].get(k) is not None:
                state.mort[k] = op[1][k]
        state.exact = state.exact and state.steps == 0
    elif kind == "S":
        g_new = base.grid1d(*op[1])
        if via_mdg is not None:
            via_mdg.replace_subdomains_and_interfaces({g1: g_new})
        else:
            intf.update_secondary(g_new, intf.tol)
        g1 = g_new
        state.sec = op[1]
    elif kind == "P":
        g_new = base.primary(op[1])[0]
        if via_mdg is not None:
            g_new = g_new.copy()
            via_mdg.replace_subdomains_and_interfaces(sd_map={g2: g_new})
        else:
            intf.update_primary(g_new, g2, intf.tol)
        g2 = g_new
        state.prim = op[1]
        state.exact = state.exact and state.steps == 0
    else:
        raise AssertionError(op)
    state.steps += 1
    return g2, g1


def precondition_class(base, state, op, intf):
    """Input class of a step (used as violation signature): the operation and how the grids relate before it."""
    mp, ms = state.describe()
    kind = {"M": "update_mortar", "S": "update_secondary", "P": "update_primary"}[op[0]]
    if op[0] == "P":
        # is some primary face coupled to (carrying weight in) several mortar cells before the call?
        P = intf.primary_to_mortar_int().toarray()
        multi = bool(((P != 0).sum(axis=0) > 1).any())
        return f"{kind}, {'some face coupled to several mortar cells' if multi else 'every face coupled to one mortar cell'}"
    if op[0] == "M" and sum(1 for k in "LR" if op[1].get(k) is not None) == 1:
        kind += " one-side" if op[1].get("L") is not None else ", second side only"
    elif op[0] == "M" and [k for k in op[1] if op[1][k] is not None][0] == "R":
        kind += ", sides given in the order (RIGHT, LEFT)"
    return f"{kind}, m/p {mp}, m/s {ms}".replace("mortar ", "").replace("matching", "match")


def node_order_reversed(base, g1):
    """Whether the mesher numbered the nodes of the fracture grid in descending order along the fracture."""
    return bool(g1.nodes[base.axis, 0] > g1.nodes[base.axis, -1])


def check_state(base, state, intf, g2, g1, finfo, after_S):
    """All clauses on the current state.  Returns list of (obligation, detail)."""
    np = base.np
    fails = []
    D = check_sums(np, intf, g2.num_faces, g1.num_cells, list(finfo), fails)
    if D is None:
        return fails
    if any(v[2] != 1 for v in finfo.values()):
        fails.append(("primary grid: fracture faces are boundary faces", "harness precondition"))
    # exact overlap weights where the statement's semantics determine them
    rows, _ = side_rows(intf)
    MS = base.pp.grids.mortar_grid.MortarSides
    lab = {MS.LEFT_SIDE: "L", MS.RIGHT_SIDE: "R"}
    sec_cells = base.cells1d(*state.sec)
    # 'on each mortar side' -- the cells of a side are the ones the MortarGrid itself reports (side_grids / project_to_side_grids /
    # cell_volumes, in that order); the rows of the projections must follow the same order, whatever the key order or the subset of
    # sides the replacement grids were given in.  Holds in every state (the integrated weights are overlap / secondary volume, also
    # when composed through earlier mortar grids).
    side_sign = getattr(intf, "_verif_side_sign")
    vol_sec = np.array([float(c[1] - c[0]) for c in sec_cells])
    projs = list(intf.project_to_side_grids())
    if [lab.get(s) for s, _ in rows] not in (["L", "R"], ["R", "L"]) or len(projs) != len(rows):
        fails.append(("side grids: the mortar grid keeps its two sides", f"sides {[str(s) for s, _ in rows]}"))
        return fails
    for (side, rr), (proj, g_side) in zip(rows, projs):
        mc = base.cells1d(*state.mort[lab[side]])
        if len(mc) != len(rr):
            continue  # reported below ("side grids: replaced by the given grids")
        vol_m = np.array([float(c[1] - c[0]) for c in mc])
        pr = proj.tocsr()
        if pr.shape != (len(rr), intf.num_cells) or pr.indices.tolist() != list(rr) or float(np.max(np.abs(intf.cell_volumes[rr] - vol_m))) > TOL \
                or float(np.max(np.abs(g_side.cell_volumes - vol_m))) > TOL:
            fails.append(("per side: side_grids / project_to_side_grids / cell_volumes describe the grid that was set on the side", f"{side}: cell_volumes "
                          f"{np.round(intf.cell_volumes[rr], 12).tolist()}, grid set by the harness {np.round(vol_m, 12).tolist()}"))
        got = D["S_int"][rr, :] @ vol_sec
        if float(np.max(np.abs(got - vol_m))) > TOL:
            fails.append(("per side: the integrated projection of the secondary cell volumes gives the side's mortar cell volumes",
                          f"{side}: projected {np.round(got, 12).tolist()}, side grid {np.round(vol_m, 12).tolist()}"))
        if side_sign.get(lab[side]):
            wrong = [int(f) for f in np.where(np.abs(D["P_int"][rr, :]).sum(axis=0) + np.abs(D["P_avg"][rr, :]).sum(axis=0) > 0)[0]
                     if int(f) in finfo and finfo[int(f)][1] != side_sign[lab[side]]]
            if wrong:
                fails.append(("per side: a mortar side is coupled to the primary faces of its own geometric side only", f"{side}: faces {wrong} lie on the other side of the fracture"))
    if state.exact or after_S:
        for side, rr in rows:
            mc = base.cells1d(*state.mort[lab[side]])
            if len(mc) != len(rr):
                fails.append(("side grids: replaced by the given grids", f"{side}: {len(rr)} cells, expected {len(mc)}"))
                continue
            for nm, sc in (("S_int", "int"), ("S_avg", "avg")):
                E = overlap_matrix(np, mc, sec_cells, sc)
                d = float(np.max(np.abs(D[nm][rr, :] - E), initial=0.0))
                if d > TOL:
                    fails.append((f"secondary_to_mortar_{sc}: exact overlap fractions", f"{side}: max difference {d:.3e}"))
    if state.exact:
        # geometric side of each mortar side: the side on which the faces of the ORIGINAL matching coupling lie
        side_sign = getattr(intf, "_verif_side_sign")
        faces = sorted(finfo)
        for side, rr in rows:
            mc = base.cells1d(*state.mort[lab[side]])
            if len(mc) != len(rr):
                continue
            for nm, sc in (("P_int", "int"), ("P_avg", "avg")):
                E = np.zeros((len(rr), g2.num_faces))
                for j, f in enumerate(faces):
                    iv, sgn, _ = finfo[f]
                    if sgn != side_sign[lab[side]]:
                        continue
                    E[:, f] = overlap_matrix(np, mc, [iv], sc)[:, 0]
                d = float(np.max(np.abs(D[nm][rr, :] - E), initial=0.0))
                if d > TOL:
                    fails.append((f"primary_to_mortar_{sc}: exact overlap fractions on the mortar's side", f"{side}: max difference {d:.3e}"))
    return fails


def initial(base, start):
    """A fresh matching MortarGrid as porepy's mesher builds it (create_interfaces), without the md-grid."""
    pp = base.pp
    MS = pp.grids.mortar_grid.MortarSides
    g2, g1, fc, finfo = base.primary(start)
    intf = pp.MortarGrid(1, {MS.LEFT_SIDE: g1.copy(), MS.RIGHT_SIDE: g1.copy()}, fc)
    _tag_sides(base, intf, finfo)
    return intf, g2, g1


def _tag_sides(base, intf, finfo):
    """Record (harness attribute) on which geometric side the faces coupled to each mortar side lie initially."""
    P = intf.primary_to_mortar_int().tocsr()
    rows, _ = side_rows(intf)
    MS = base.pp.grids.mortar_grid.MortarSides
    lab = {MS.LEFT_SIDE: "L", MS.RIGHT_SIDE: "R"}
    sign = {}
    for side, rr in rows:
        s = {finfo[int(f)][1] for r in rr for f in P.indices[P.indptr[r]:P.indptr[r + 1]] if int(f) in finfo}
        sign[lab[side]] = s.pop() if len(s) == 1 else 0
    intf._verif_side_sign = sign


def menus(tier):
    U = lambda n, rev=False: (n, rev)  # noqa: E731
    quick = [
        ("M", {"L": U("U3"), "R": U("U3")}, "dict"),
        ("M", {"L": U("U4"), "R": U("U4", True)}, "mortar"),
        ("M", {"L": U("N3")}, "dict"),
        ("M", {"L": U("U1"), "R": U("N2")}, "dict"),
        ("S", U("U3")), ("S", U("N3", True)), ("S", U("U4")),
        ("P", "U4"), ("P", "N3"), ("P", "U1"),
    ]
    extra = [("M", {"R": U("U6")}, "dict"), ("M", {"L": U("U2"), "R": U("U2")}, "mortar"), ("S", U("U1")), ("S", U("U2", True)), ("P", "U3"), ("P", "U2"), ("P", "N2")]
    return quick if tier == "quick" else quick + extra


def side_order_menu(tier):
    """update_mortar calls whose dictionary of new side grids is not in the stored (LEFT, RIGHT) key order: only the second side, or
    both sides with RIGHT first (different grids per side, so that a side taken for the other one is visible)."""
    U = lambda n, rev=False: (n, rev)  # noqa: E731
    quick = [("M", {"R": U("U3")}, "dict"), ("M", {"R": U("N3"), "L": U("U4")}, "mortar")]
    extra = [("M", {"R": U("U1"), "L": U("U3", True)}, "dict")]
    return quick if tier == "quick" else quick + extra


def bases(pp, np, tier):
    half = Fr(1, 2)
    out = [
        Base(pp, np, "H: unit square, horizontal fracture across the whole domain", 0, 0, 1, (), (), (Fr(0), half, Fr(1)), half),
        Base(pp, np, "V: [0,1]x[0,2], vertical fracture from the boundary to an interior tip", 1, 0, 1, (), (Fr(3, 2), Fr(2)), (Fr(0), half, Fr(1)), half),
    ]
    if tier != "quick":
        out.append(Base(pp, np, "T: [0,3]x[0,2], horizontal fracture with both tips interior, non-dyadic spacing", 0, 1, 2, (Fr(0),), (Fr(3),), (Fr(0), Fr(7, 10), Fr(2)), Fr(7, 10)))
    return out


# ----------------------------------------------------------------------------- 2-D mortars in arbitrary planes (exact area oracle)

# name -> (origin, e1, e2); e1, e2 orthonormal with rational components, so that cell areas equal the in-plane areas
FRAMES2D = {
    "horizontal plane z=1/2": ((Fr(0), Fr(0), Fr(1, 2)), (Fr(1), Fr(0), Fr(0)), (Fr(0), Fr(1), Fr(0))),
    "vertical plane y=1/2": ((Fr(0), Fr(1, 2), Fr(0)), (Fr(1), Fr(0), Fr(0)), (Fr(0), Fr(0), Fr(1))),
    "vertical plane x=1/4": ((Fr(1, 4), Fr(0), Fr(0)), (Fr(0), Fr(1), Fr(0)), (Fr(0), Fr(0), Fr(1))),
    "tilted plane A": ((Fr(1, 5), Fr(-1, 10), Fr(2, 5)), (Fr(2, 3), Fr(1, 3), Fr(2, 3)), (Fr(-2, 3), Fr(2, 3), Fr(1, 3))),
    "tilted plane B": ((Fr(0), Fr(0), Fr(0)), (Fr(1, 3), Fr(2, 3), Fr(2, 3)), (Fr(2, 3), Fr(-2, 3), Fr(1, 3))),
}
# in-plane shape of the fracture: image of the unit square under a rational 2x2 matrix
SHAPES2D = {"square": ((Fr(1), Fr(0)), (Fr(0), Fr(1))), "parallelogram": ((Fr(1), Fr(7, 20)), (Fr(3, 20), Fr(4, 5)))}
_OVERLAP2D = {}


def _tri_clip_area(ta, tb):
    """Exact area of the intersection of two triangles (lists of three (Fraction, Fraction)); Sutherland-Hodgman."""
    if max(p[0] for p in ta) <= min(p[0] for p in tb) or max(p[0] for p in tb) <= min(p[0] for p in ta) \
            or max(p[1] for p in ta) <= min(p[1] for p in tb) or max(p[1] for p in tb) <= min(p[1] for p in ta):
        return Fr(0)

    def ccw(t):
        (ax, ay), (bx, by), (cx, cy) = t
        return list(t) if (bx - ax) * (cy - ay) - (by - ay) * (cx - ax) > 0 else [t[0], t[2], t[1]]

    poly, clip = ccw(ta), ccw(tb)
    for k in range(3):
        a, b = clip[k], clip[(k + 1) % 3]
        inp, poly = poly, []
        if not inp:
            return Fr(0)
        s = [(b[0] - a[0]) * (p[1] - a[1]) - (b[1] - a[1]) * (p[0] - a[0]) for p in inp]
        for m in range(len(inp)):
            p, q, sp, sq = inp[m], inp[(m + 1) % len(inp)], s[m], s[(m + 1) % len(inp)]
            if sp >= 0:
                poly.append(p)
            if sp * sq < 0:
                t = sp / (sp - sq)
                poly.append((p[0] + t * (q[0] - p[0]), p[1] + t * (q[1] - p[1])))
    if len(poly) < 3:
        return Fr(0)
    return abs(sum(poly[i][0] * poly[(i + 1) % len(poly)][1] - poly[(i + 1) % len(poly)][0] * poly[i][1] for i in range(len(poly)))) / 2


class Fam2D:
    """Structured triangle grids of one fracture (shape) embedded in one plane (frame) at one length scale.  A grid is named by
    spec = (nx, ny, colwise): nx x ny rectangles cut into two triangles each; colwise: the nodes are numbered column by column instead
    of row by row (the mesh is mirrored in the diagonal, the covered region is the same).  In-plane node coordinates are exact
    Fractions known to the harness; the cell-node connectivity is read from porepy's grid."""

    def __init__(self, pp, np, frame, shape, scale=Fr(1)):
        self.pp, self.np, self.frame, self.shape, self.scale = pp, np, frame, shape, Fr(scale)
        self._tri, self._grid = {}, {}

    @property
    def name(self):
        return f"{self.frame}, {self.shape}" + (f", length scale {self.scale}" if self.scale != 1 else "")

    def uv(self, spec, scale=None):
        nx, ny, colwise = spec
        A, s, out = SHAPES2D[self.shape], (self.scale if scale is None else scale), []
        for k in range((nx + 1) * (ny + 1)):
            x, y = Fr(k % (nx + 1), nx), Fr(k // (nx + 1), ny)
            if colwise:
                x, y = y, x
            out.append((s * (A[0][0] * x + A[0][1] * y), s * (A[1][0] * x + A[1][1] * y)))
        return out

    def grid(self, spec):
        pp, np = self.pp, self.np
        spec = tuple(spec)
        if spec in self._grid:
            return self._grid[spec]  # never handed to porepy for keeping: update_mortar stores copies, the initial sides are copies
        nx, ny, _ = spec
        g = pp.StructuredTriangleGrid(np.array([nx, ny]), np.array([1.0, 1.0]))
        ref = np.array([[(k % (nx + 1)) / nx for k in range(g.num_nodes)], [(k // (nx + 1)) / ny for k in range(g.num_nodes)]])
        if g.num_nodes != (nx + 1) * (ny + 1) or not np.allclose(g.nodes[:2], ref, rtol=0, atol=1e-14):
            raise AssertionError("harness precondition: node numbering of StructuredTriangleGrid")
        o, e1, e2 = FRAMES2D[self.frame]
        g.nodes = np.array([[float(o[d] + e1[d] * u + e2[d] * v) for (u, v) in self.uv(spec)] for d in range(3)])
        g.compute_geometry()
        tri = g.cell_nodes().tocsc().indices.reshape((3, g.num_cells), order="F")
        self._tri[spec] = [tuple(int(n) for n in tri[:, c]) for c in range(g.num_cells)]
        self._grid[spec] = g
        return g

    def cells(self, spec):
        """Triangles of the grid at length scale 1, in porepy's cell order."""
        if tuple(spec) not in self._tri:
            self.grid(spec)
        uv = self.uv(spec, Fr(1))
        return [[uv[n] for n in c] for c in self._tri[tuple(spec)]]

    def overlaps(self, a, b):
        """(W, area_a, area_b) as float arrays: exact overlap areas |a_i & b_j| and cell areas, at this family's length scale."""
        np = self.np
        key = (self.shape, tuple(a), tuple(b))
        if key not in _OVERLAP2D:
            ca, cb = self.cells(a), self.cells(b)
            W = [[_tri_clip_area(x, y) for y in cb] for x in ca]
            ar_a = [_tri_clip_area(x, x) for x in ca]
            ar_b = [_tri_clip_area(y, y) for y in cb]
            if any(sum(r) != v for r, v in zip(W, ar_a)) or any(sum(W[i][j] for i in range(len(ca))) != ar_b[j] for j in range(len(cb))):
                raise AssertionError("harness: the exact overlap areas do not add up to the cell areas")
            _OVERLAP2D[key] = tuple(np.array([[float(w) for w in r] for r in W]) if k == 0 else np.array([float(v) for v in (ar_a if k == 1 else ar_b)]) for k in range(3))
        s2 = float(self.scale * self.scale)
        W, ar_a, ar_b = _OVERLAP2D[key]
        return W * s2, ar_a * s2, ar_b * s2

    def expected(self, a, b, scaling):
        """Exact weights between grid a (rows) and grid b (columns): 'int' |a_i & b_j| / |b_j|, 'avg' |a_i & b_j| / |a_i|."""
        W, ar_a, ar_b = self.overlaps(a, b)
        return W / ar_b[None, :] if scaling == "int" else W / ar_a[:, None]


START2D = (2, 2, False)


def specs2d(tier):
    quick = [START2D, (3, 2, False), (2, 3, True), (1, 1, False)]
    return quick if tier == "quick" else quick + [(2, 2, True), (3, 3, True), (4, 3, False), (2, 5, True)]


def families2d(pp, np, tier):
    quick = [("vertical plane y=1/2", "square", 1), ("tilted plane A", "parallelogram", 1), ("horizontal plane z=1/2", "parallelogram", 1)]
    extra = [(f, s, 1) for f in FRAMES2D for s in SHAPES2D if (f, s, 1) not in quick] + [("tilted plane B", "parallelogram", Fr(1, 100)), ("vertical plane x=1/4", "square", 50)]
    return [Fam2D(pp, np, *x) for x in (quick if tier == "quick" else quick + extra)]


def menu2d(tier):
    B, C, D, E = (3, 2, False), (2, 3, True), (1, 1, False), (3, 3, True)
    quick = [("M", {"L": B, "R": C}), ("M", {"R": B}), ("S", C), ("S", E)]
    extra = [("M", {"R": D, "L": C}), ("M", {"L": (4, 3, False)}), ("M", {"L": E, "R": E}), ("S", (2, 2, True)), ("S", (2, 5, True))]
    return quick if tier == "quick" else quick + extra


def initial2d(fam):
    """Matching two-sided 2-D MortarGrid on the START2D grid with abstract primary faces: secondary cell c is coupled to the primary faces
    c (first side) and nc + c (second side); three more primary faces are not covered.  Returns (intf, state)."""
    pp, np = fam.pp, fam.np
    import scipy.sparse as sps

    MS = pp.grids.mortar_grid.MortarSides
    g = fam.grid(START2D)
    nc = g.num_cells
    fc = sps.csc_matrix((np.ones(2 * nc, dtype=bool), (np.r_[np.arange(nc), np.arange(nc)], np.arange(2 * nc))), shape=(nc, 2 * nc + 3))
    intf = pp.MortarGrid(2, {MS.LEFT_SIDE: g.copy(), MS.RIGHT_SIDE: g.copy()}, fc)
    # direct: the side's block of the primary / secondary maps is a single overlap matrix (not a product through earlier mortar grids)
    state = {"nc0": nc, "mort": {"L": START2D, "R": START2D}, "sec": START2D, "p_direct": {"L": True, "R": True}, "s_direct": {"L": True, "R": True}}
    return intf, state


def apply_op2d(fam, state, intf, op, tol=1e-6):
    pp = fam.pp
    MS = pp.grids.mortar_grid.MortarSides
    if op[0] == "M":
        new = {{"L": MS.LEFT_SIDE, "R": MS.RIGHT_SIDE}[k]: fam.grid(tuple(spec)) for k, spec in op[1].items()}
        intf.update_mortar(new, tol)
        for k, spec in op[1].items():
            # the product  match(new, old) * (old maps)  is a single overlap matrix iff the old maps of the side were one-to-one
            state["p_direct"][k] = state["p_direct"][k] and state["mort"][k] == START2D
            state["s_direct"][k] = state["s_direct"][k] and state["mort"][k] == state["sec"]
            state["mort"][k] = tuple(spec)
    elif op[0] == "S":
        intf.update_secondary(fam.grid(tuple(op[1])), tol)
        state["sec"] = tuple(op[1])
        state["s_direct"] = {"L": True, "R": True}
    else:
        raise AssertionError(op)


def check_state2d(fam, state, intf, tol=1e-10):
    """The statement's clauses on a two-sided 2-D MortarGrid; weights against exact overlap areas where a block is a single overlap matrix."""
    np = fam.np
    MS = fam.pp.grids.mortar_grid.MortarSides
    lab = {MS.LEFT_SIDE: "L", MS.RIGHT_SIDE: "R"}
    nc0 = state["nc0"]
    fails = []
    _, ar_sec, _ = fam.overlaps(state["sec"], state["sec"])
    D = check_sums(np, intf, 2 * nc0 + 3, len(ar_sec), list(range(2 * nc0)), fails, tol)
    if D is None:
        return fails
    rows, _ = side_rows(intf)
    projs = list(intf.project_to_side_grids())
    if [lab.get(s) for s, _ in rows] not in (["L", "R"], ["R", "L"]) or len(projs) != len(rows):
        return fails + [("side grids: the mortar grid keeps its two sides", f"sides {[str(s) for s, _ in rows]}")]
    atol = tol * max(1.0, float(fam.scale) ** 2)
    for (side, rr), (proj, g_side) in zip(rows, projs):
        k = lab[side]
        W0, ar_m, ar_0 = fam.overlaps(state["mort"][k], START2D)
        if len(ar_m) != len(rr):
            fails.append(("side grids: replaced by the given grids", f"{side}: {len(rr)} cells, expected {len(ar_m)}"))
            continue
        pr = proj.tocsr()
        if pr.shape != (len(rr), intf.num_cells) or pr.indices.tolist() != list(rr) or float(np.max(np.abs(intf.cell_volumes[rr] - ar_m))) > atol \
                or float(np.max(np.abs(g_side.cell_volumes - ar_m))) > atol:
            fails.append(("per side: side_grids / project_to_side_grids / cell_volumes describe the grid that was set on the side",
                          f"{side}: cell_volumes {np.round(intf.cell_volumes[rr], 12).tolist()}, grid set by the harness {np.round(ar_m, 12).tolist()}"))
        got = D["S_int"][rr, :] @ ar_sec
        if float(np.max(np.abs(got - ar_m))) > atol:
            fails.append(("per side: the integrated projection of the secondary cell volumes gives the side's mortar cell volumes",
                          f"{side}: projected {np.round(got, 12).tolist()}, side grid {np.round(ar_m, 12).tolist()}"))
        own = np.zeros(2 * nc0 + 3, dtype=bool)
        off = 0 if k == "L" else nc0
        own[off:off + nc0] = True
        if np.any(D["P_int"][rr][:, ~own] != 0) or np.any(D["P_avg"][rr][:, ~own] != 0):
            fails.append(("per side: a mortar side is coupled to the primary faces of its own geometric side only", f"{side}: weight on faces of the other side"))
        if state["s_direct"][k]:
            for nm, sc in (("S_int", "int"), ("S_avg", "avg")):
                d = float(np.max(np.abs(D[nm][rr, :] - fam.expected(state["mort"][k], state["sec"], sc)), initial=0.0))
                if d > tol:
                    fails.append((f"secondary_to_mortar_{sc}: exact overlap fractions", f"{side}: max difference {d:.3e}"))
        if state["p_direct"][k]:
            for nm, sc in (("P_int", "int"), ("P_avg", "avg")):
                E = np.zeros((len(rr), 2 * nc0 + 3))
                E[:, off:off + nc0] = fam.expected(state["mort"][k], START2D, sc)
                d = float(np.max(np.abs(D[nm][rr, :] - E), initial=0.0))
                if d > tol:
                    fails.append((f"primary_to_mortar_{sc}: exact overlap fractions on the mortar's side", f"{side}: max difference {d:.3e}"))
    return fails


def seq2d_inputs(fam, seq):
    ops = [[o[0], {k: list(v) for k, v in o[1].items()}] if o[0] == "M" else [o[0], list(o[1])] for o in seq]
    return {"via": "2-D MortarGrid in a plane", "frame": fam.frame, "shape": fam.shape, "scale": str(fam.scale), "ops": ops}


def run_seq2d(fam, seq):
    """Run a sequence of 2-D operations from the matching state; returns [(obligation, signature, inputs, detail)], cut at the first violating step."""
    out = []
    intf, state = initial2d(fam)
    for ob, detail in (check_state2d(fam, state, intf) if not seq else ()):  # the matching state itself is the case with the empty sequence
        out.append((ob, f"2-D mortar, matching interface, {fam.name}", seq2d_inputs(fam, ()), detail))
    for n, op in enumerate(seq):
        if out:
            break
        inputs = seq2d_inputs(fam, seq[:n + 1])
        if op[0] == "S":
            kind = "update_secondary"
        else:
            keys = list(op[1])
            kind = "update_mortar" + (", second side only" if keys == ["R"] else " one-side" if keys == ["L"] else ", sides given in the order (RIGHT, LEFT)" if keys[0] == "R" else "")
        sig = f"2-D mortar, {kind}, {fam.name}"
        try:
            apply_op2d(fam, state, intf, op)
            fails = check_state2d(fam, state, intf)
        except Exception as e:  # noqa: BLE001
            fails = [("update: raises nothing on admissible grids", f"{type(e).__name__}: {str(e)[:200]}")]
        out += [(ob, sig, inputs, detail) for ob, detail in fails]
    return out


def check_match2d(fam, a, b, scaling, tol=1e-10, match_tol=1e-6):
    """match_2d(new=a, old=b) against the exact overlap fractions.  Returns list of (obligation, detail); None when the case is skipped
    (scaling None and some positive overlap area not clearly above match_2d's tol)."""
    np, pp = fam.np, fam.pp
    W, _, _ = fam.overlaps(a, b)
    if scaling is None:
        if np.any((W > 0) & (W < 100 * match_tol)):
            return None
        E = (W > 0).astype(float)
    else:
        E = fam.expected(a, b, "avg" if scaling == "averaged" else "int")
    try:
        M = pp.match_grids.match_2d(fam.grid(a), fam.grid(b), match_tol, scaling).toarray().astype(float)
    except Exception as e:  # noqa: BLE001
        return [("match_2d: raises nothing on coplanar grids covering the same region", f"{type(e).__name__}: {str(e)[:200]}")]
    out = []
    if scaling is not None:
        sums = M.sum(axis=1) if scaling == "averaged" else M.sum(axis=0)
        if M.shape != E.shape or float(np.max(np.abs(sums - 1.0))) > tol or np.any(M < -1e-12):
            out.append(("match_2d: unit row sums (averaged) / unit column sums (integrated)", f"sums {np.round(sums, 12).tolist()}"))
    if M.shape != E.shape or float(np.max(np.abs(M - E))) > tol:
        wrong = [(int(i), int(j), round(float(M[i, j]), 9), round(float(E[i, j]), 9)) for i, j in np.argwhere(np.abs(M - E) > tol)] if M.shape == E.shape else []
        out.append(("match_2d: weights equal the exact overlap fractions", f"shape {M.shape}, wrong entries (new cell, old cell, got, exact): {wrong[:6]}{' ...' if len(wrong) > 6 else ''}"))
    return out


def deviation_kind(fam, a, b, scaling, match_tol=1e-6, tol=1e-10):
    """Input / failure class used in violation signatures: how match_2d deviates from the exact overlaps on this pair of grids."""
    np = fam.np
    try:
        M = fam.pp.match_grids.match_2d(fam.grid(a), fam.grid(b), match_tol, scaling).toarray().astype(float)
    except Exception:  # noqa: BLE001
        return "raises"
    W, _, _ = fam.overlaps(a, b)
    E = (W > 0).astype(float) if scaling is None else fam.expected(a, b, "avg" if scaling == "averaged" else "int")
    if M.shape != E.shape:
        return "wrong shape"
    bad = np.abs(M - E) > tol
    if not bad.any():
        return "agrees with the exact overlaps"
    lost, spurious = bool((bad & (M == 0)).any()), bool((bad & (E == 0)).any())
    if (bad & (M != 0) & (E != 0)).any():
        return "weights of overlapping cells wrong"
    return " and ".join(x for x, y in (("whole overlaps lost", lost), ("cells that only touch counted as overlapping", spurious)) if y)


# ----------------------------------------------------------------------------- tier P: transposition clause by construction


def case_set_projections(pp, primary, secondary, nd):
    """The real MortarGrid._set_projections (+ the real optimized_compressed_storage and the real public accessors with their
    sparse_kronecker_product) on a MortarGrid whose four stored X_to_mortar matrices are arbitrary sparse matrices of symbolic
    shape: afterwards mortar_to_X_int(nd) = X_to_mortar_avg(nd)^T and mortar_to_X_avg(nd) = X_to_mortar_int(nd)^T for every side
    that was asked for, and the other side's stored matrices are untouched."""
    import z3

    from engine.arrays import SymMat
    from engine.sym import SymBool

    def run(ctx):
        nm, nf, ncs = ctx.int("n_mortar"), ctx.int("n_primary_faces"), ctx.int("n_secondary_cells")
        ctx.assume((nm >= 1) & (nf >= 1) & (ncs >= 1))
        mg = pp.MortarGrid.__new__(pp.MortarGrid)
        mg._primary_to_mortar_int = SymMat.fresh("p2m_int", nm, nf, "csc")
        mg._primary_to_mortar_avg = SymMat.fresh("p2m_avg", nm, nf, "csc")
        mg._secondary_to_mortar_int = SymMat.fresh("s2m_int", nm, ncs, "csc")
        mg._secondary_to_mortar_avg = SymMat.fresh("s2m_avg", nm, ncs, "csc")
        stale = {}
        for side, n in (("primary", nf), ("secondary", ncs)):
            for kind in ("int", "avg"):
                stale[side, kind] = SymMat.fresh(f"stale_m2{side[0]}_{kind}", n, nm, "csr")
                setattr(mg, f"_mortar_to_{side}_{kind}", stale[side, kind])
        mg._set_projections(primary=primary, secondary=secondary)
        i, j = ctx.int("i"), ctx.int("j")
        kk = z3.IntVal(nd)
        for side, n, asked in (("primary", nf, primary), ("secondary", ncs, secondary)):
            if asked:
                for a, b in (("int", "avg"), ("avg", "int")):
                    back = getattr(mg, f"mortar_to_{side}_{a}")(nd)
                    fwd = getattr(mg, f"{side}_to_mortar_{b}")(nd)
                    rng = z3.And(i.t >= 0, i.t < n.t * kk, j.t >= 0, j.t < nm.t * kk)
                    ctx.prove(f"mortar_to_{side}_{a}(nd) has the shape of {side}_to_mortar_{b}(nd) transposed",
                              SymBool(z3.And(sym_i(back.shape[0]) == sym_i(fwd.shape[1]), sym_i(back.shape[1]) == sym_i(fwd.shape[0]),
                                             sym_i(back.shape[0]) == n.t * kk, sym_i(back.shape[1]) == nm.t * kk)))
                    ctx.prove(f"mortar_to_{side}_{a}(nd) == {side}_to_mortar_{b}(nd)^T entry by entry",
                              SymBool(z3.Implies(rng, back._entry(i.t, j.t) == fwd._entry(j.t, i.t))))
                if side == "primary":
                    rng = z3.And(i.t >= 0, i.t < n.t * kk, j.t >= 0, j.t < nm.t * kk)
                    ctx.prove("CANARY: mortar_to_primary_int(nd) == primary_to_mortar_int(nd)^T",
                              SymBool(z3.Implies(rng, mg.mortar_to_primary_int(nd)._entry(i.t, j.t) == mg.primary_to_mortar_int(nd)._entry(j.t, i.t))),
                              expect_refuted=True)
            else:
                for kind in ("int", "avg"):
                    ctx.prove(f"frame: _mortar_to_{side}_{kind} untouched when the side is not asked for",
                              SymBool(z3.BoolVal(getattr(mg, f"_mortar_to_{side}_{kind}") is stale[side, kind])))
        return "ok"

    return run


def sym_i(x):
    from engine.sym import iterm

    return iterm(x)


def prove(rep, pp):
    from engine import indexmodels, shims
    from engine.harness import run_case
    from porepy.grids import mortar_grid as mgmod
    from porepy.numerics.linalg import matrix_operations as mo

    rep.under_contract("MortarGrid._set_projections [tier P]", "MortarGrid.mortar_to_{primary,secondary}_{int,avg} / {primary,secondary}_to_mortar_{int,avg} [tier P]",
                       "matrix_operations.optimized_compressed_storage [tier P, real body]", "matrix_operations.sparse_kronecker_product [tier P, real body]")
    refuted = []
    with shims.shadow_builtins([mgmod, mo]), shims.numpy_shims(), indexmodels.index_shims():
        for primary, secondary in ((True, True), (True, False), (False, True)):
            for nd in (1, 2, 3):
                rf, _ = run_case(rep, f"_set_projections(primary={primary}, secondary={secondary}), nd={nd}", case_set_projections(pp, primary, secondary, nd))
                refuted += rf
    rep.trust(*sorted(shims.USED_MODELS))
    for name, ctx, r in refuted:
        rep.violation(name, name.split(":")[0], inputs=None, detail=f"z3 counter-model: {r['model']}"[:1500], confirmed=False,
                      solver_output=str(r["model"]))


def run(rep):
    import warnings

    import numpy as np
    import porepy as pp

    warnings.simplefilter("ignore")
    quick = rep.tier == "quick"
    prove(rep, pp)
    rep.under_contract("MortarGrid.__init__ / _init_projections / _set_projections", "MortarGrid.update_mortar", "MortarGrid.update_secondary",
                       "MortarGrid.update_primary", "MixedDimensionalGrid.replace_subdomains_and_interfaces", "porepy.grids.match_grids.match_1d",
                       "porepy.grids.match_grids.match_grids_along_1d_mortar", "porepy.grids.match_grids.match_2d (thorough tier)")
    rep.assume("requires: replacement grids cover the same fracture segment (common end points), secondary and mortar grids have the same dimension, "
               "the fracture is not crossed by another fracture",
               "covered primary faces and their geometric side are taken from the primary grid's fracture_faces tags and geometry")
    rep.trust("exact rational overlap model of 1-D grids (sidecar oracle)", "pp.meshing.tensor_grid for the primary grids (C25)",
              "exact rational triangle-overlap areas in in-plane coordinates (sidecar oracle, self-checked: overlaps add up to the cell areas)",
              "StructuredTriangleGrid cell-node connectivity and Grid.compute_geometry for the embedded 2-D grids")
    MS = pp.grids.mortar_grid.MortarSides
    all_bases = bases(pp, np, rep.tier)
    menu = menus(rep.tier)
    side_menu = side_order_menu(rep.tier)
    depth = 3
    # histories that contain a side-order operation: length <= 2 in the quick tier (as first or second operation, followed / preceded by
    # every operation of both menus), <= 3 in the thorough tier with at most one operation after the last side-order operation
    def side_history_ok(h):
        pos = [i for i, o in enumerate(h) if o in side_menu]
        return not pos or (len(h) <= 2 if quick else len(h) - 1 - pos[-1] <= 1)

    def op_json(op):
        return [op[0], {k: list(v) for k, v in op[1].items()} if op[0] == "M" else (list(op[1]) if op[0] == "S" else op[1])] + ([op[2]] if op[0] == "M" else [])

    # ------------------------------------------------------------------ sweep 1: direct update_* sequences (prefix tree)
    with rep.sweep(
        "replacement sequences on the MortarGrid",
        rule=f"for each base geometry ({'; '.join(b.name for b in all_bases)}) start from the matching MortarGrid built from porepy's own face_cells and "
             f"apply every sequence of <= {depth} operations from a menu of {len(menu)} (update_mortar both sides / one side / different grids per side, "
             f"update_secondary, update_primary; node sets U1-U6 uniform, N2/N3 non-uniform, reversed node order) plus {len(side_menu)} side-order "
             "operations (update_mortar given only the second side, or both sides in the key order (RIGHT, LEFT) with different grids; in histories of "
             f"length <= {2 if quick else 3}{'' if quick else ' with at most one operation after the last of them'}); the cells of a side are the ones "
             "the MortarGrid reports (side_grids / project_to_side_grids / cell_volumes); all clauses after every step; a "
             "history is cut at its first violating step; non-trivial when at least one grid is non-matching after the step; distinct by (base, "
             "operation sequence)",
        bound=f"sequence length <= {depth}; refinement up to 6 cells on the fracture",
        exhaustive=True,
    ) as sw:
        for base in all_bases:
            start = "U2"
            intf0, g2_0, g1_0 = initial(base, start)
            st0 = State(base, start, node_order_reversed(base, g1_0))
            fails = check_state(base, st0, intf0, g2_0, g1_0, base.primary(start)[3], False)
            sw.case(key=(base.name, ()), nontrivial=False, sample={"base": base.name, "ops": []})
            for ob, detail in fails:
                rep.violation(ob, "matching interface from the mesher", inputs={"base": base.name, "start": start, "ops": []}, detail=detail, confirmed=True)
            stack = [(intf0, st0, g2_0, g1_0, ())]
            while stack:
                intf, st, g2, g1, hist = stack.pop()
                for op in menu + side_menu:
                    h2 = hist + (op,)
                    if not side_history_ok(h2):
                        continue
                    i2, s2 = copy.deepcopy(intf), st.copy()
                    i2._verif_side_sign = intf._verif_side_sign
                    sig = precondition_class(base, st, op, intf)
                    inputs = {"base": base.name, "start": start, "ops": [op_json(o) for o in h2], "via": "MortarGrid"}
                    try:
                        ng2, ng1 = apply_op(base, s2, i2, g2, g1, op)
                    except Exception as e:  # noqa: BLE001
                        sw.case(key=(base.name, repr(h2)), nontrivial=True)
                        rep.violation({"M": "update_mortar", "S": "update_secondary", "P": "update_primary"}[op[0]] + ": raises nothing on admissible grids", sig,
                                      inputs=inputs, detail=f"{type(e).__name__}: {str(e)[:200]}", confirmed=True)
                        continue
                    fails = check_state(base, s2, i2, ng2, ng1, base.primary(s2.prim)[3], op[0] == "S")
                    mp, ms = s2.describe()
                    sw.case(key=(base.name, repr(h2)), nontrivial=(mp != "matching" or ms != "matching"), sample=inputs if len(h2) == 3 else None)
                    for ob, detail in fails:
                        rep.violation(ob, sig, inputs=inputs, detail=detail, confirmed=True)
                    if not fails and len(h2) < depth:
                        stack.append((i2, s2, ng2, ng1, h2))

    # ------------------------------------------------------------------ sweep 2: the same through the md-grid
    with rep.sweep(
        "replacement sequences through replace_subdomains_and_interfaces",
        rule="fresh md-grid from pp.meshing.tensor_grid per history; operations issued through MixedDimensionalGrid.replace_subdomains_and_interfaces "
             "(sd_map for secondary / primary, interface_map in dict or MortarGrid form, also with only the second side or with the sides in the key "
             "order (RIGHT, LEFT)); all sequences of length <= 2 (quick) / a seeded sample of "
             "length-3 sequences in addition (thorough); clauses after every step; non-trivial when a grid is non-matching after the step",
        bound="sequence length <= 2 (quick), <= 3 (thorough); first base geometry and, in thorough, all",
        exhaustive=quick,
    ) as sw:
        menu2 = menu + side_menu  # interface_map with only the second side / with the sides in the key order (RIGHT, LEFT)
        seqs = [s for n in (1, 2) for s in itertools.product(menu2, repeat=n)]
        if quick:
            seqs = [s for s in seqs if all(o in menu[:3] + menu[4:6] + menu[7:9] + side_menu for o in s)]
        else:
            seqs += rep.rng.sample(list(itertools.product(menu2, repeat=3)), 180)
        for base in (all_bases[:1] if quick else all_bases):
            for seq in seqs:
                start = "U2"
                mdg = base.fresh_mdg(start)
                g2, g1, intf = mdg.subdomains(dim=2)[0], mdg.subdomains(dim=1)[0], mdg.interfaces()[0]
                _tag_sides(base, intf, base.face_info(g2))
                st = State(base, start, node_order_reversed(base, g1))
                for n, op in enumerate(seq):
                    sig = precondition_class(base, st, op, intf)
                    inputs = {"base": base.name, "start": start, "ops": [op_json(o) for o in seq[:n + 1]], "via": "mdg"}
                    try:
                        g2, g1 = apply_op(base, st, intf, g2, g1, op, via_mdg=mdg)
                    except Exception as e:  # noqa: BLE001
                        rep.violation("replace_subdomains_and_interfaces: raises nothing on admissible grids", sig, inputs=inputs, detail=f"{type(e).__name__}: {str(e)[:200]}", confirmed=True)
                        break
                    fails = check_state(base, st, intf, g2, g1, base.face_info(g2), op[0] == "S")
                    ok_graph = mdg.interfaces() == [intf] and tuple(mdg.interface_to_subdomain_pair(intf)) == (g2, g1)
                    if not ok_graph:
                        fails.append(("replace_subdomains_and_interfaces: the interface couples the new grids", "pair not updated"))
                    for ob, detail in fails:
                        rep.violation(ob, sig, inputs=inputs, detail=detail, confirmed=True)
                    if fails:
                        break
                mp, ms = st.describe()
                sw.case(key=(base.name, repr(seq)), nontrivial=(mp != "matching" or ms != "matching"), sample={"base": base.name, "ops": [op_json(o) for o in seq]})

    # ------------------------------------------------------------------ sweep 3: match_1d against the exact oracle
    with rep.sweep(
        "match_1d",
        rule="all ordered pairs (new, old) of the node sets U1,U2,U3,U4,U6,N2,N3 x node order (ascending / descending) x scaling "
             "(averaged / integrated / None) x embedding (along x; along an oblique line in 3-D); result compared entrywise with exact overlap "
             "fractions; non-trivial when the two node sets differ",
        bound="node sets with <= 6 cells",
        exhaustive=True,
    ) as sw:
        def line_grid(ns, rev, oblique):
            t = np.array([float(x) for x in ns])
            if rev:
                t = t[::-1].copy()
            g = pp.TensorGrid(np.arange(t.size, dtype=float))
            p0, d = (np.array([0.3, -1.0, 2.0]), np.array([1.0, 2.0, -2.0])) if oblique else (np.zeros(3), np.array([1.0, 0, 0]))
            g.nodes = p0.reshape((3, 1)) + d.reshape((3, 1)) * t.reshape((1, -1))
            g.compute_geometry()
            return g

        names = ["U1", "U2", "U3", "U4", "U6", "N2", "N3"]
        for a, b in list(itertools.product(names, repeat=2)) + [("S4", "U4"), ("U4", "S4"), ("S4", "U2")]:
            for ra, rb, oblique in ((False, False, False), (True, False, False), (False, True, True), (True, True, True)):
                ga, gb = line_grid(NODESETS[a], ra, oblique), line_grid(NODESETS[b], rb, oblique)
                ca, cb = intervals(NODESETS[a], ra), intervals(NODESETS[b], rb)
                # (with scaling=None the result is the boolean "overlap longer than tol": not defined by the statement for slivers below tol)
                for scaling in (("averaged", "integrated") if "S4" in (a, b) else ("averaged", "integrated", None)):
                    inputs = {"new": a, "old": b, "new_reversed": ra, "old_reversed": rb, "oblique": oblique, "scaling": scaling}
                    sw.case(key=(a, b, ra, rb, oblique, scaling), nontrivial=a != b, sample=inputs if a != b else None)
                    sig = f"scaling {scaling}, {'identical' if a == b else relation(NODESETS[a], NODESETS[b]).replace('mortar', 'new')} node sets"
                    try:
                        M = pp.match_grids.match_1d(ga, gb, 1e-6, scaling)
                    except Exception as e:  # noqa: BLE001
                        rep.violation("match_1d: raises nothing on aligned grids with common end points", sig, inputs=inputs, detail=f"{type(e).__name__}: {e}", confirmed=True)
                        continue
                    if scaling is None:
                        E = (overlap_matrix(np, ca, cb, "avg") > 0).astype(float)
                    else:
                        E = overlap_matrix(np, ca, cb, "avg" if scaling == "averaged" else "int")
                    Md = M.toarray().astype(float)
                    if Md.shape != E.shape or float(np.max(np.abs(Md - E))) > TOL:
                        rep.violation("match_1d: weights equal the exact overlap fractions", sig, inputs=inputs,
                                      detail=f"got {np.round(Md, 6).tolist()} expected {np.round(E, 6).tolist()}", confirmed=True)

    # ------------------------------------------------------------------ sweeps 3b, 3c: 2-D mortars in arbitrary planes, exact area oracle
    fams = families2d(pp, np, rep.tier)
    specs = specs2d(rep.tier)
    with rep.sweep(
        "match_2d in horizontal, vertical and tilted planes",
        rule=f"for each family ({'; '.join(f.name for f in fams)}): structured triangle grids of the fracture (nx x ny rectangles cut in two, nodes numbered "
             f"row-wise or column-wise: {', '.join(str(list(s)) for s in specs)}), embedded in the plane; match_2d(new, old) for all ordered pairs x scaling "
             "(averaged / integrated / None) compared entrywise with exact overlap-area fractions (rational polygon clipping in in-plane coordinates), "
             "row / column sums; scaling None skipped when a positive overlap is not clearly above tol; non-trivial when the grids differ",
        bound=f"grids up to {max(s[0] * s[1] * 2 for s in specs)} cells",
        exhaustive=True,
    ) as sw:
        for fam in fams:
            for a, b in itertools.product(specs, repeat=2):
                for scaling in ("averaged", "integrated", None):
                    inputs = {"via": "match_2d", "frame": fam.frame, "shape": fam.shape, "scale": str(fam.scale), "new": list(a), "old": list(b), "scaling": scaling}
                    res = check_match2d(fam, a, b, scaling)
                    if res is None:
                        continue
                    sw.case(key=(fam.name, a, b, scaling), nontrivial=a != b, sample=inputs if a != b else None)
                    for ob, detail in res:
                        rep.violation(ob, f"scaling {scaling}, {fam.name}, {deviation_kind(fam, a, b, scaling)}", inputs=inputs, detail=detail, confirmed=True)

    m2d = menu2d(rep.tier)
    with rep.sweep(
        "2-D mortars in horizontal, vertical and tilted planes",
        rule="for each family of the previous sweep: two-sided 2-D MortarGrid, matching on the 2x2x2 triangle grid with abstract primary faces; every sequence of "
             f"<= 2 operations from a menu of {len(m2d)} (update_mortar with different grids per side / only the second side / sides in the key order (RIGHT, "
             "LEFT), update_secondary); sum, transposition and per-side clauses after every step; the blocks that are a single overlap matrix (first replacement "
             "of a side for the primary maps; after update_secondary, or mortar replaced while it matched the secondary, for the secondary maps) compared with "
             "exact overlap-area fractions",
        bound="sequence length <= 2, grids up to 24 cells",
        exhaustive=True,
    ) as sw:
        for fam in fams:
            for seq in [s for n in (0, 1, 2) for s in itertools.product(m2d, repeat=n)]:
                for ob, sig, inputs, detail in run_seq2d(fam, seq):
                    rep.violation(ob, sig, inputs=inputs, detail=detail, confirmed=True)
                sw.case(key=(fam.name, repr(seq)), nontrivial=len(seq) > 0, sample=seq2d_inputs(fam, seq) if len(seq) == 2 else None)

    # ------------------------------------------------------------------ sweep 4 (thorough): 2-D mortars, match_2d
    if not quick:
        with rep.sweep(
            "2-D mortars (match_2d)",
            rule="two-sided 2-D MortarGrid on the unit square (structured triangle grids, embedded at z=1/2, abstract primary faces); sequences of "
                 "<= 2 update_mortar / update_secondary operations with triangle grids of 1x1 ... 3x2 cells; sum and transposition clauses after every step; "
                 "match_2d row/column sums for all ordered pairs of the grids",
            bound="structured triangle grids up to 3x2x2 cells, sequence length <= 2",
            exhaustive=True,
        ) as sw:
            def tri(n):
                g = pp.StructuredTriangleGrid(np.array(n), np.array([1.0, 1.0]))
                g.nodes[2] = 0.5
                g.compute_geometry()
                return g

            shapes = [(1, 1), (2, 1), (2, 2), (1, 3), (3, 2)]
            import scipy.sparse as sps

            for a, b in itertools.product(shapes, repeat=2):
                for scaling in ("averaged", "integrated"):
                    M = pp.match_grids.match_2d(tri(a), tri(b), 1e-6, scaling).toarray()
                    sw.case(key=("match_2d", a, b, scaling), nontrivial=a != b, sample={"new": list(a), "old": list(b), "scaling": scaling})
                    sums = M.sum(axis=1) if scaling == "averaged" else M.sum(axis=0)
                    if float(np.max(np.abs(sums - 1.0))) > 1e-10 or np.any(M < -1e-12):
                        rep.violation("match_2d: unit row sums (averaged) / unit column sums (integrated)", f"scaling {scaling}", inputs={"new": list(a), "old": list(b), "scaling": scaling},
                                      detail=f"sums {np.round(sums, 12).tolist()}", confirmed=True)
            ops2 = [("M", (2, 1), (2, 2)), ("M", (1, 3), None), ("M", (3, 2), (3, 2)), ("S", (2, 2)), ("S", (1, 3)), ("S", (3, 2))]
            for seq in [s for n in (1, 2) for s in itertools.product(ops2, repeat=n)]:
                g = tri((1, 1))
                nc = g.num_cells
                fc = sps.csc_matrix((np.ones(2 * nc, dtype=bool), (np.r_[np.arange(nc), np.arange(nc)], np.arange(2 * nc))), shape=(nc, 2 * nc + 3))
                intf = pp.MortarGrid(2, {MS.LEFT_SIDE: g.copy(), MS.RIGHT_SIDE: g.copy()}, fc)
                nsec = nc
                for n, op in enumerate(seq):
                    inputs = {"ops": [list(o) for o in seq[:n + 1]], "via": "2-D MortarGrid"}
                    sig = f"2-D mortar, {'update_mortar' if op[0] == 'M' else 'update_secondary'}"
                    fails = []
                    try:
                        if op[0] == "M":
                            new = {MS.LEFT_SIDE: tri(op[1])}
                            if op[2] is not None:
                                new[MS.RIGHT_SIDE] = tri(op[2])
                            intf.update_mortar(new, 1e-6)
                        else:
                            gs = tri(op[1])
                            intf.update_secondary(gs, 1e-6)
                            nsec = gs.num_cells
                        check_sums(np, intf, 2 * nc + 3, nsec, list(range(2 * nc)), fails, 1e-10)
                    except Exception as e:  # noqa: BLE001
                        fails.append(("update: raises nothing on admissible grids", f"{type(e).__name__}: {str(e)[:200]}"))
                    for ob, detail in fails:
                        rep.violation(ob, sig, inputs=inputs, detail=detail, confirmed=True)
                    if fails:
                        break
                sw.case(key=("2d-seq", repr(seq)), nontrivial=True, sample={"ops": [list(o) for o in seq]})


def replay(data):
    import warnings

    import numpy as np
    import porepy as pp

    warnings.simplefilter("ignore")
    inp = data.get("inputs") or {}
    if inp.get("via") == "2-D MortarGrid in a plane":
        fam = Fam2D(pp, np, inp["frame"], inp["shape"], Fr(inp["scale"]))
        seq = tuple(("M", {k: tuple(v) for k, v in o[1].items()}) if o[0] == "M" else ("S", tuple(o[1])) for o in inp["ops"])
        res = run_seq2d(fam, seq)
        for r in res:
            print("replay:", r[0], "|", r[1], "|", r[3])
        return bool(res)
    if inp.get("via") == "match_2d":
        fam = Fam2D(pp, np, inp["frame"], inp["shape"], Fr(inp["scale"]))
        res = check_match2d(fam, tuple(inp["new"]), tuple(inp["old"]), inp["scaling"])
        for r in res or ():
            print("replay:", r)
        return bool(res)
    if "ops" in inp and inp.get("via") in ("MortarGrid", "mdg"):
        base = [b for b in bases(pp, np, "thorough") if b.name == inp["base"]][0]
        ops = []
        for o in inp["ops"]:
            if o[0] == "M":
                ops.append(("M", {k: (v[0], bool(v[1])) for k, v in o[1].items()}, o[2]))
            elif o[0] == "S":
                ops.append(("S", (o[1][0], bool(o[1][1]))))
            else:
                ops.append(("P", o[1]))
        if inp["via"] == "MortarGrid":
            intf, g2, g1 = initial(base, inp["start"])
            mdg = None
        else:
            mdg = base.fresh_mdg(inp["start"])
            g2, g1, intf = mdg.subdomains(dim=2)[0], mdg.subdomains(dim=1)[0], mdg.interfaces()[0]
            _tag_sides(base, intf, base.face_info(g2))
        st = State(base, inp["start"], node_order_reversed(base, g1))
        bad = False
        for op in ops:
            try:
                g2, g1 = apply_op(base, st, intf, g2, g1, op, via_mdg=mdg)
            except Exception as e:  # noqa: BLE001
                print("replay: raised", type(e).__name__, e)
                return True
            fails = check_state(base, st, intf, g2, g1, base.face_info(g2), op[0] == "S")
            for f in fails:
                print("replay:", f)
            bad = bad or bool(fails)
        return bad
    if "new" in inp and "scaling" in inp and "oblique" in inp:
        def line_grid(ns, rev):
            t = np.array([float(x) for x in ns])
            if rev:
                t = t[::-1].copy()
            g = pp.TensorGrid(np.arange(t.size, dtype=float))
            p0, d = (np.array([0.3, -1.0, 2.0]), np.array([1.0, 2.0, -2.0])) if inp["oblique"] else (np.zeros(3), np.array([1.0, 0, 0]))
            g.nodes = p0.reshape((3, 1)) + d.reshape((3, 1)) * t.reshape((1, -1))
            g.compute_geometry()
            return g

        a, b = inp["new"], inp["old"]
        M = pp.match_grids.match_1d(line_grid(NODESETS[a], inp["new_reversed"]), line_grid(NODESETS[b], inp["old_reversed"]), 1e-6, inp["scaling"]).toarray().astype(float)
        ca, cb = intervals(NODESETS[a], inp["new_reversed"]), intervals(NODESETS[b], inp["old_reversed"])
        E = (overlap_matrix(np, ca, cb, "avg") > 0).astype(float) if inp["scaling"] is None else overlap_matrix(np, ca, cb, "avg" if inp["scaling"] == "averaged" else "int")
        print("replay: match_1d", np.round(M, 6).tolist(), "expected", np.round(E, 6).tolist())
        return M.shape != E.shape or float(np.max(np.abs(M - E))) > TOL
    return False
