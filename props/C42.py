"""C42 — phase saturations and fraction derivatives are thermodynamically consistent.

Tier P : (shapes fixed by the statement) the Python source of the numba kernels (.py_func; the njit dispatchers are
         redirected to it for the run) on symbolic entries:
         * _compute_saturations for 2 phases (closed form) and the wrapper compute_saturations: s >= 0, sum s = 1,
           y_j * sum_k rho_k s_k = rho_j s_j when no phase is saturated; the unit vector of the saturated phase otherwise;
           single phase gives 1.
         * _chainrule_fractional_derivatives for 2..5 components: equals the derivative of f(x / sum x) composed with the
           oracle derivative of the normalisation (rational identity), leading entries untouched, argument not modified.
         * normalize_rows: rows sum to one (small shapes, symbolic entries).
Tier B : 2-5 phases incl. vanished and saturated phases, vectorised (numba, parallel) and scalar entry points, rational
         oracle for the defining equations; chain rule against finite differences of a composed test function.
"""
from __future__ import annotations

META = {
    "level": "other",
    "engine": "pse",
    "technique": "contract-based deductive verification of the Python source of the numba kernels on symbolic entries (z3, rational identities); numeric sweep of the compiled kernels for 2-5 phases as bounded stand-in",
    "text": "Tier P: two-phase saturations (all fractions on the simplex, positive densities), the fractional chain rule for 2-5 components and row "
            "normalisation satisfy the statement's identities for all real entries. Tier B: the compiled (numba) kernels for 2-5 phases incl. "
            "vanished / saturated phases and vectorised input, against the defining equations. The n >= 3 linear solve is only covered in tier B. "
            "Mixed tiers -> level 'other'.",
    "note": "numba compiles the verified Python source with Python semantics (fastmath as configured by the repo is assumed not to change results beyond "
            "rounding); floats as reals; requires: y on the simplex, rho > 0, 0 < eps < 1/2, at most one saturated phase, sum x != 0",
}

import itertools
import warnings

import numpy as np
import z3

from engine import oracle, shims, sym
from engine.arrays import SymArray
from engine.harness import run_case
from engine.sym import SymBool, SymReal, rterm


def case_sat2(pp, via_wrapper):
    from porepy.compositional import utils as cu

    def run(ctx):
        y0, r0, r1, eps = ctx.real("y0"), ctx.real("rho0"), ctx.real("rho1"), ctx.real("eps")
        y1 = 1 - y0
        for c in (y0 >= 0, y0 <= 1, r0 > 0, r1 > 0, eps > 0, eps < 0.5):
            ctx.assume(c)
        y = SymArray.from_concrete(np.array([y0, y1], dtype=object))
        rho = SymArray.from_concrete(np.array([r0, r1], dtype=object))
        if via_wrapper:
            with shims.patched(cu, "_compute_saturations", cu._compute_saturations.py_func):
                s = cu.compute_saturations(y, rho, eps)
        else:
            s = cu._compute_saturations.py_func(y, rho, eps)
        s0, s1 = SymReal(s.elem(0)), SymReal(s.elem(1))
        ctx.prove("saturations are non-negative", (s0 >= 0) & (s1 >= 0))
        ctx.prove("saturations sum to one", s0 + s1 == 1)
        sat0, sat1 = y0 >= 1 - eps, y1 >= 1 - eps
        mix = r0 * s0 + r1 * s1
        ctx.prove("no saturated phase: fractions are the density-weighted saturation ratios",
                  SymBool(z3.Implies(z3.Not(z3.Or(sat0.t, sat1.t)), z3.And((y0 * mix == r0 * s0).t, (y1 * mix == r1 * s1).t))))
        ctx.prove("saturated phase 0: s = (1, 0)", SymBool(z3.Implies(sat0.t, z3.And(s0.t == 1, s1.t == 0))))
        ctx.prove("saturated phase 1: s = (0, 1)", SymBool(z3.Implies(sat1.t, z3.And(s0.t == 0, s1.t == 1))))
        ctx.prove("CANARY: s0 equals y0", s0 == y0, expect_refuted=True)
        return "ok"

    return run


def case_sat1(pp):
    from porepy.compositional import utils as cu

    def run(ctx):
        r0, eps = ctx.real("rho0"), ctx.real("eps")
        ctx.assume(r0 > 0)
        ctx.assume((eps > 0) & (eps < 0.5))
        s = cu._compute_saturations.py_func(np.array([1.0]), np.array([r0], dtype=object), eps)
        ctx.prove("single phase: saturation is one", float(np.asarray(s, dtype=float)[0]) == 1.0 and np.asarray(s).shape == (1,))
        return "ok"

    return run


def case_chainrule(pp, ncomp, nlead):
    from porepy.compositional import utils as cu

    def run(ctx):
        x = np.array([ctx.real(f"x{i}") for i in range(ncomp)], dtype=object)
        df = np.array([ctx.real(f"df{i}") for i in range(nlead + ncomp)], dtype=object)
        S = x[0]
        for v in x[1:]:
            S = S + v
        ctx.assume(S != 0)
        keep = list(df)
        res = cu._chainrule_fractional_derivatives.py_func(df, x)
        ctx.prove("result has the shape of the input gradient", np.asarray(res).shape == (nlead + ncomp,))
        # oracle: d/dx_j f(xn(x)) = sum_i df_i * d xn_i / d x_j with xn_i = x_i / sum(x), differentiated independently
        xs = [rterm(v) for v in x]
        St = rterm(S)
        for j in range(ncomp):
            want = z3.RealVal(0)
            for i in range(ncomp):
                want = want + rterm(df[nlead + i]) * oracle.diff(xs[i] / St, xs[j])
            ctx.prove(f"component {j}: chain rule equals the derivative of the composed function", SymBool(rterm(res[nlead + j]) == want))
        for l in range(nlead):
            ctx.prove(f"leading derivative {l} (not w.r.t. a fraction) is unchanged", SymBool(rterm(res[l]) == rterm(df[l])))
        ctx.prove("frame: the input gradient is not modified", all(a is b for a, b in zip(keep, df)))
        ctx.prove("CANARY: derivative unchanged by normalisation", SymBool(rterm(res[nlead]) == rterm(df[nlead])), expect_refuted=True)
        return "ok"

    return run


def case_normalize(pp, N, M):
    from porepy.compositional import utils as cu

    def run(ctx):
        x = np.array([[ctx.real(f"x{i}_{j}") for j in range(M)] for i in range(N)], dtype=object)
        sums = []
        for i in range(N):
            s = x[i, 0]
            for j in range(1, M):
                s = s + x[i, j]
            ctx.assume(s != 0)
            sums.append(s)
        res = cu.normalize_rows.py_func(x)
        ctx.prove("shape preserved", np.asarray(res).shape == (N, M))
        for i in range(N):
            t = res[i, 0]
            for j in range(1, M):
                t = t + res[i, j]
            ctx.prove(f"row {i} sums to one", t == 1)
            ctx.prove(f"row {i}: entries are x_ij / row sum", SymBool(z3.And(*[(res[i, j] * sums[i] == x[i, j]).t for j in range(M)])))
        return "ok"

    return run


# ----------------------------------------------------------------------------- tier B


def _sweep(rep, pp):
    from porepy.compositional import utils as cu

    rng = rep.rng
    quick = rep.tier == "quick"
    eps = 1e-8
    with rep.sweep("saturations, chain rule, row normalisation (compiled kernels)",
                   rule="phase counts 1-5; fractions on the simplex from rational lattices incl. vanished (0) and saturated (1) phases and values within eps of "
                        "them; seeded positive densities over 4 orders of magnitude; scalar and vectorised (parallel) entry points; defining equations checked "
                        "at 1e-9; chain rule vs central differences of f(x/sum x) for seeded f; nontrivial = at least two phases present; distinct by "
                        "(n, fractions, densities)", bound="lattice denominators <= 6 (quick) / 10 (thorough)", exhaustive=False) as sw:
        den = 6 if quick else 10
        for n in (1, 2, 3, 4, 5):
            pts = [p for p in itertools.product(range(den + 1), repeat=n) if sum(p) == den]
            if len(pts) > (150 if quick else 1500):
                pts = rng.sample(pts, 150 if quick else 1500)
            cols_y, cols_r = [], []
            for p in pts:
                y = np.array(p, dtype=float) / den
                if rng.random() < 0.15 and n > 1:
                    k = rng.randrange(n)
                    y = np.zeros(n)
                    y[k] = 1 - 0.4 * eps
                    y[(k + 1) % n] = 0.4 * eps
                rho = np.array([10 ** rng.uniform(-1, 3) for _ in range(n)])
                if (y > 1 - eps).sum() > 1:
                    sw.skip()
                    continue
                try:
                    with warnings.catch_warnings():
                        warnings.simplefilter("ignore")
                        s = cu.compute_saturations(y.copy(), rho.copy(), eps)
                except Exception as e:  # noqa
                    rep.violation("compute_saturations: returns for admissible input", f"n={n} raises {type(e).__name__}", inputs={"y": y.tolist(), "rho": rho.tolist()}, detail=str(e)[:200])
                    continue
                sw.case((n, tuple(y.tolist()), tuple(np.round(rho, 6).tolist())), nontrivial=(y > 0).sum() >= 2, sample={"y": y.tolist(), "rho": rho.tolist()})
                bad = _check_sat(y, rho, s, eps)
                if bad:
                    rep.violation("compute_saturations: " + bad[0], f"n={n}, {bad[1]}", inputs={"y": y.tolist(), "rho": rho.tolist()}, detail=f"s={np.asarray(s).tolist()}")
                cols_y.append(y)
                cols_r.append(rho)
            if n > 1 and cols_y:
                Y, R = np.array(cols_y).T.copy(), np.array(cols_r).T.copy()
                try:
                    Sv = cu.compute_saturations(Y, R, eps)
                    for c in range(Y.shape[1]):
                        bad = _check_sat(Y[:, c], R[:, c], Sv[:, c], eps)
                        if bad:
                            rep.violation("compute_saturations (vectorised): " + bad[0], f"n={n}, {bad[1]}", inputs={"y": Y[:, c].tolist(), "rho": R[:, c].tolist()}, detail=f"s={Sv[:, c].tolist()}")
                            break
                except Exception as e:  # noqa
                    rep.violation("compute_saturations (vectorised): returns for admissible input", f"n={n} raises {type(e).__name__}", inputs={"n": n}, detail=str(e)[:200])
        # chain rule vs finite differences
        for n in (2, 3, 4, 5):
            for lead in (0, 2):
                for _ in range(10 if quick else 100):
                    x = np.array([rng.uniform(0.1, 1.0) for _ in range(n)])
                    c = np.array([rng.uniform(-2, 2) for _ in range(n)])
                    q = np.array([[rng.uniform(-1, 1) for _ in range(n)] for _ in range(n)])
                    f = lambda z: float(c @ z + z @ q @ z)
                    grad_n = lambda z: c + (q + q.T) @ z
                    xn = x / x.sum()
                    lead_vals = np.array([rng.uniform(-1, 1) for _ in range(lead)])
                    df = np.concatenate([lead_vals, grad_n(xn)])
                    got = cu.chainrule_fractional_derivatives(df.copy(), x.copy())
                    h = 1e-6
                    fd = np.array([(f((x + h * e) / (x + h * e).sum()) - f((x - h * e) / (x - h * e).sum())) / (2 * h) for e in np.eye(n)])
                    sw.case(("chain", n, lead, tuple(np.round(x, 6))), True)
                    if got.shape != df.shape or not np.allclose(got[lead:], fd, rtol=1e-5, atol=1e-7) or not np.array_equal(got[:lead], lead_vals):
                        rep.violation("chainrule_fractional_derivatives: equals the derivative of the composed function", f"n={n}, lead={lead}",
                                      inputs={"x": x.tolist(), "df": df.tolist()}, detail=f"{got.tolist()} vs fd {fd.tolist()}")
                    # vectorised
                    X = np.stack([x, x[::-1]], axis=1).copy()
                    DF = np.stack([df, df], axis=1).copy()
                    gv = cu.chainrule_fractional_derivatives(DF, X)
                    if not np.allclose(gv[:, 0], got, rtol=1e-12, atol=1e-14):
                        rep.violation("chainrule_fractional_derivatives (vectorised): column-wise equal to the scalar version", f"n={n}", inputs={"x": x.tolist()}, detail="")
        for _ in range(20 if quick else 200):
            N, M = rng.randint(1, 4), rng.randint(1, 5)
            A = np.array([[rng.uniform(0.1, 2) for _ in range(M)] for _ in range(N)])
            B = cu.normalize_rows(A.copy())
            sw.case(("norm", N, M, tuple(np.round(A.ravel(), 5))), True)
            if B.shape != A.shape or not np.allclose(B.sum(axis=1), 1, rtol=1e-13) or not np.allclose(B * A.sum(axis=1)[:, None], A, rtol=1e-13):
                rep.violation("normalize_rows: rows sum to one", f"shape {N}x{M}", inputs={"A": A.tolist()}, detail=str(B.tolist()))


def _check_sat(y, rho, s, eps):
    s = np.asarray(s, dtype=float)
    if s.shape != y.shape or not np.all(np.isfinite(s)):
        return ("result has the shape of the input and is finite", "shape/finite")
    if np.any(s < -1e-12):
        return ("saturations are non-negative", "negative saturation")
    if abs(s.sum() - 1) > 1e-9:
        return ("saturations sum to one", "sum")
    sat = y > 1 - eps
    if sat.any():
        e = np.zeros_like(y)
        e[np.argmax(sat)] = 1
        if not np.allclose(s, e, atol=1e-12):
            return ("a saturated phase has saturation one", "saturated phase")
        return None
    mix = float(rho @ s)
    if not np.allclose(y * mix, rho * s, rtol=1e-8, atol=1e-9 * mix):
        return ("fractions are the density-weighted saturation ratios", f"{int((y > eps).sum())} phases present")
    return None


def replay(data):
    import porepy as pp
    from porepy.compositional import utils as cu

    inp = data.get("inputs") or {}
    if "y" in inp and "rho" in inp:
        y, rho = np.array(inp["y"]), np.array(inp["rho"])
        s = cu.compute_saturations(y, rho, 1e-8)
        bad = _check_sat(y, rho, s, 1e-8)
        print("s =", s, "->", bad)
        return bad is not None
    return False


def run(rep):
    import porepy as pp
    from porepy.compositional import utils as cu

    rep.under_contract("compositional.utils._compute_saturations (py_func)", "compositional.utils.compute_saturations",
                       "compositional.utils._chainrule_fractional_derivatives (py_func)", "compositional.utils.chainrule_fractional_derivatives (tier B)",
                       "compositional.utils.normalize_rows (py_func)", "_compute_saturations_parallel / _chainrule_fractional_derivatives_parallel (tier B)")
    rep.assume("numba compiles the Python source with Python semantics; the compiled kernels are exercised in tier B",
               "requires: fractions on the simplex, densities positive, 0 < eps < 1/2, at most one saturated phase, sum of fractions non-zero")
    refuted = []
    with shims.shadow_builtins([cu]), shims.numpy_shims():
        for w in (False, True):
            rf, _ = run_case(rep, f"saturations, 2 phases ({'compute_saturations' if w else '_compute_saturations'})", case_sat2(pp, w), allowed_exceptions=(AssertionError, ValueError))
            refuted += rf
        rf, _ = run_case(rep, "saturations, 1 phase", case_sat1(pp))
        refuted += rf
        for n in (2, 3, 4, 5):
            for lead in ((0, 2) if n <= 3 else (1,)):
                rf, _ = run_case(rep, f"chain rule, {n} components, {lead} leading derivatives", case_chainrule(pp, n, lead))
                refuted += rf
        for N, M in ((1, 2), (2, 2), (2, 3), (3, 2)):
            rf, _ = run_case(rep, f"normalize_rows {N}x{M}", case_normalize(pp, N, M))
            refuted += rf
    rep.trust(*sorted(shims.USED_MODELS))
    for name, ctx, r in refuted:
        rep.violation(name, name.split(":")[0], inputs=None, detail=f"z3 counter-model: {r['model']}"[:1200], confirmed=False, solver_output=str(r["model"]))
    _sweep(rep, pp)
