"""C29 -- split_intersecting_segments_2d yields a non-crossing covering subdivision.

Tier B (bounded run-time contract sweep, exhaustive over a fixed pool).

Contract on pp.intersections.split_intersecting_segments_2d(p, e, return_argsort=True), taken from the statement:
  requires  integer end points in [0,3]^2, every segment of non-zero length, no two input segments identical as
            point sets (identical segments are a legitimate input of the function but then "the segment it is
            mapped to" is not unique; they are covered separately by the 'duplicate' variant where only geometry is
            checked).  Distinct points that occur (end points, exact intersection points) are >= 1/324 apart, the
            function's tolerance is 1e-8: all inputs are outside the tolerance band.
  ensures   (vertices)  every vertex used by an output edge is, within 1e-9, an input end point or an exact
                        intersection / overlap end point of two input segments ("splitting at intersections");
                        vertices are then snapped to these exact rational points and everything below is exact;
            (proper)    no output edge has zero length;
            (no-dup)    no two output edges are the same point pair;
            (non-cross) two output edges have either no common point or exactly one common point which is an end
                        point of both;
            (mapped)    output edge k lies inside input segment argsort[k] (both end points on it) and carries
                        exactly that segment's tag rows;
            (cover)     for every input segment the output edges lying on it tile it: their parameter intervals,
                        sorted, run 0 = t0 < t1 < ... = 1 without gap ("cover exactly the union": with (mapped)
                        the union of the output equals the union of the input).
Oracle: exact rational segment-segment intersection (orientation / collinearity / parameter intervals) written from
the definition; no part of it is derived from the code under test.

Enumeration: a fixed pool of 24 integer segments in [0,3]^2 (axis-parallel and diagonal, containing crossings,
T-junctions, partial overlaps, containments, collinear touching, shared end points, some given 'backwards').
ALL 276 pairs and ALL 2024 triples in two encodings of the same geometry -- 'shared' (coinciding end points share one
column of p) and 'separate' (every segment has its own two columns) --, ALL 10626 quadruples (quick: one encoding,
alternating with the rank; thorough: both), and the 'repeated segment' variant (a pool segment given twice, same or
reversed orientation, alone or with one further segment; geometry clauses only).  Thorough adds 20000 seeded sets of
5-7 pool segments.

Unchanged tree: every case satisfies the contract (quick and thorough).

Detection power (scratch copy of /repo/src under /var/tmp, POREPY_SRC=<copy>, one bug at a time, quick tier; each gave
exit 1 with VIOLATION lines):
  M1  coarse filter `(start_cross * end_cross < 1)` -> `< 0` (segments touching the main one are never examined)
        -> "output edges meet only at shared end points" (T-junction / overlap / collinear-touching), "cover ..." (overlap)
  M2  `order = np.argsort(dist)` -> `np.arange(dist.size)` (split points not sorted along the segment)
        -> "output edges meet only at shared end points" and "the output edges cover each input segment exactly"
  M3  `loc_tags = e[2:, ei]...` -> `e[2:, 0]...` (all edges get the tags of segment 0)
        -> "edges carry the tags of their mapped input segment"
  M4  `argsort = argsort[edge_map]` -> `argsort[: edge_map.size]` (mapping not permuted with the uniquification)
        -> "edges lie inside their mapped input segment" and the tags obligation
  M5  uniquification of edges dropped (`edge_map = np.arange(...)`)
        -> "no duplicate output edges" (overlap / repeated segment)
  M6  segments_2d: `if t_max - t_min < tol` -> `<= 1` (an overlap is reported by one point only)
        -> "output edges meet only at shared end points" and "cover ..." (overlap / repeated segment)
"""
from __future__ import annotations

import itertools
import math
from fractions import Fraction

META = {
    "level": "exploration",
    "engine": "sweep",
    "technique": "run-time contract sweep (bounded stand-in for deduction): exhaustive pairs/triples of a fixed pool of integer "
                 "segments through the real split_intersecting_segments_2d, output checked by an exact rational subdivision checker",
    "text": "Tier B only: the postcondition (vertices are intersection points, proper edges, no duplicates, pairwise non-crossing, "
            "each edge inside its mapped input segment with that segment's tags, each input segment tiled) is evaluated on the real "
            "function for every pair, triple and quadruple of a 24-segment pool (exhaustive over the pool; two point encodings), seeded "
            "sets of 5-7 segments in thorough. Deduction is not attempted (data-dependent loops over numpy index sets).",
    "note": "integer coordinates in [0,3]; exact checker in fractions.Fraction; output vertices snapped to exact candidates at 1e-9",
}

RTOL = 1e-9

POOL = [
    ((0, 0), (3, 0)), ((0, 1), (2, 1)), ((3, 1), (1, 1)), ((0, 2), (3, 2)), ((1, 2), (2, 2)),
    ((0, 0), (0, 3)), ((1, 3), (1, 0)), ((2, 0), (2, 2)), ((2, 1), (2, 3)), ((3, 0), (3, 3)),
    ((0, 0), (3, 3)), ((2, 2), (1, 1)), ((0, 3), (3, 0)), ((0, 1), (2, 3)), ((0, 0), (3, 1)),
    ((1, 3), (0, 0)), ((3, 0), (0, 2)), ((1, 0), (3, 2)), ((0, 3), (3, 2)), ((2, 2), (3, 3)),
    ((0, 2), (2, 0)), ((3, 1), (1, 3)), ((1, 1), (1, 2)), ((2, 0), (3, 3)),
]

# ----------------------------------------------------------------------------- exact 2-D oracle


def _sub(p, q):
    return (p[0] - q[0], p[1] - q[1])


def _x(u, v):
    return u[0] * v[1] - u[1] * v[0]


def _dot(u, v):
    return u[0] * v[0] + u[1] * v[1]


def seg_isect(a0, a1, b0, b1):
    """exact intersection of two closed non-degenerate segments -> (kind, points, class)"""
    d1, d2, w = _sub(a1, a0), _sub(b1, b0), _sub(b0, a0)
    n = _x(d1, d2)
    if n == 0:
        if _x(w, d1) != 0:
            return "none", (), "parallel-disjoint"
        L = Fraction(_dot(d1, d1))
        ts, te = _dot(w, d1) / L, _dot(_sub(b1, a0), d1) / L
        lo, hi = max(Fraction(0), min(ts, te)), min(Fraction(1), max(ts, te))
        if lo > hi:
            return "none", (), "collinear-disjoint"
        P = (a0[0] + lo * d1[0], a0[1] + lo * d1[1])
        if lo == hi:
            return "point", (P,), "collinear-touching"
        Q = (a0[0] + hi * d1[0], a0[1] + hi * d1[1])
        return "segment", (P, Q), "overlap"
    t1, t2 = Fraction(_x(w, d2)) / n, Fraction(_x(w, d1)) / n
    if 0 <= t1 <= 1 and 0 <= t2 <= 1:
        P = (a0[0] + t1 * d1[0], a0[1] + t1 * d1[1])
        ends = (t1 in (0, 1)) + (t2 in (0, 1))
        return "point", (P,), ("crossing" if ends == 0 else ("shared-endpoint" if ends == 2 else "T-junction"))
    return "none", (), "disjoint"


def param_on(a0, a1, q):
    """parameter of q on the segment [a0,a1] if q lies on it (exactly), else None"""
    d, w = _sub(a1, a0), _sub(q, a0)
    if _x(w, d) != 0:
        return None
    t = Fraction(_dot(w, d)) / _dot(d, d)
    return t if 0 <= t <= 1 else None


# ----------------------------------------------------------------------------- the postcondition


def check_output(segs, tags, new_pts, new_e, argsort, geometry_only=False):
    """segs: list of integer segments (input, in column order); tags: list of tag tuples per input segment.
    Returns list of (clause, detail)."""
    fails = []
    S0 = [(tuple(a), tuple(b)) for a, b in segs]
    # candidates: end points and exact pairwise intersection points
    cand = set()
    for a, b in S0:
        cand.add((Fraction(a[0]), Fraction(a[1])))
        cand.add((Fraction(b[0]), Fraction(b[1])))
    for (a0, a1), (b0, b1) in itertools.combinations(S0, 2):
        for P in seg_isect(a0, a1, b0, b1)[1]:
            cand.add((Fraction(P[0]), Fraction(P[1])))
    cand = list(cand)
    # all exact predicates below are scale invariant: work on the integer lattice K * (coordinates)
    K = math.lcm(*[c.denominator for P in cand for c in P])
    _SCALE[0] = K
    candf = [(float(c[0]), float(c[1])) for c in cand]
    S = [((a[0] * K, a[1] * K), (b[0] * K, b[1] * K)) for a, b in S0]
    n_e = new_e.shape[1]
    if new_e.shape[0] != 2 + len(tags[0]) or len(argsort) != n_e:
        return [("shape", f"edges {new_e.shape}, argsort {len(argsort)}, expected {2 + len(tags[0])} rows")]
    used = sorted({int(i) for i in new_e[:2].ravel()})
    snap = {}
    scale = 3.0
    for i in used:
        if not (0 <= i < new_pts.shape[1]):
            return [("vertices", f"edge refers to point {i} of {new_pts.shape[1]}")]
        x, y = float(new_pts[0, i]), float(new_pts[1, i])
        j = min(range(len(cand)), key=lambda j: abs(candf[j][0] - x) + abs(candf[j][1] - y))
        if not (abs(candf[j][0] - x) <= RTOL * scale and abs(candf[j][1] - y) <= RTOL * scale):
            fails.append(("vertices", f"vertex {i} = ({x!r},{y!r}) is not an input end point or exact intersection point"))
            return fails
        snap[i] = (int(cand[j][0] * K), int(cand[j][1] * K))
    E = [(snap[int(new_e[0, k])], snap[int(new_e[1, k])]) for k in range(n_e)]
    # proper
    for k, (u, v) in enumerate(E):
        if u == v:
            fails.append(("proper", f"edge {k} has zero length at {_s(u)}"))
    if fails:
        return fails
    # no duplicates
    seen = {}
    for k, (u, v) in enumerate(E):
        key = frozenset((u, v))
        if key in seen:
            fails.append(("no-dup", f"edges {seen[key]} and {k} are both {_s(u)}-{_s(v)}"))
        seen[key] = k
    # pairwise non-crossing
    for (k, (u0, u1)), (l, (v0, v1)) in itertools.combinations(enumerate(E), 2):
        if (max(u0[0], u1[0]) < min(v0[0], v1[0]) or max(v0[0], v1[0]) < min(u0[0], u1[0])
                or max(u0[1], u1[1]) < min(v0[1], v1[1]) or max(v0[1], v1[1]) < min(u0[1], u1[1])):
            continue  # disjoint bounding boxes (exact integer comparison)
        kind, pts, _ = seg_isect(u0, u1, v0, v1)
        if kind == "none":
            continue
        if kind == "segment":
            if frozenset((u0, u1)) != frozenset((v0, v1)):  # identical pairs already reported as duplicates
                fails.append(("non-cross", f"edges {k} {_s(u0)}-{_s(u1)} and {l} {_s(v0)}-{_s(v1)} overlap along {_s(pts[0])}-{_s(pts[1])}"))
            continue
        P = pts[0]
        if not (P in (u0, u1) and P in (v0, v1)):
            fails.append(("non-cross", f"edges {k} {_s(u0)}-{_s(u1)} and {l} {_s(v0)}-{_s(v1)} meet at {_s(P)}, not a common end point"))
    # mapped + tags
    if not geometry_only:
        for k, (u, v) in enumerate(E):
            i = int(argsort[k])
            if not (0 <= i < len(S)):
                fails.append(("mapped", f"edge {k} mapped to segment {i}"))
                continue
            if param_on(S[i][0], S[i][1], u) is None or param_on(S[i][0], S[i][1], v) is None:
                fails.append(("mapped", f"edge {k} {_s(u)}-{_s(v)} is not inside its mapped input segment {i} {segs[i]}"))
            if tuple(int(t) for t in new_e[2:, k]) != tuple(tags[i]):
                fails.append(("tags", f"edge {k} mapped to segment {i} carries tags {new_e[2:, k].tolist()} instead of {list(tags[i])}"))
    else:
        for k, (u, v) in enumerate(E):
            if not any(param_on(a, b, u) is not None and param_on(a, b, v) is not None for a, b in S):
                fails.append(("mapped", f"edge {k} {_s(u)}-{_s(v)} is inside no input segment"))
    # cover
    for i, (a, b) in enumerate(S):
        iv = []
        for u, v in E:
            tu, tv = param_on(a, b, u), param_on(a, b, v)
            if tu is not None and tv is not None:
                iv.append((min(tu, tv), max(tu, tv)))
        iv = sorted(set(iv))
        pos, ok = Fraction(0), True
        for lo, hi in iv:
            if lo != pos:
                ok = False
                break
            pos = hi
        if not ok or pos != 1:
            fails.append(("cover", f"input segment {i} {segs[i]} is not tiled by the output edges on it: intervals "
                                   f"{[(str(l), str(h)) for l, h in iv]}"))
    return fails


_SCALE = [1]


def _s(p):
    return f"({Fraction(p[0]) / _SCALE[0]},{Fraction(p[1]) / _SCALE[0]})"


CLAUSE = {
    "shape": "split_intersecting_segments_2d: output arrays are consistent (edge rows = 2 + tag rows, one argsort entry per edge)",
    "vertices": "split_intersecting_segments_2d: edge vertices are input end points or exact intersection points",
    "proper": "split_intersecting_segments_2d: no zero-length output edge",
    "no-dup": "split_intersecting_segments_2d: no duplicate output edges",
    "non-cross": "split_intersecting_segments_2d: output edges meet only at shared end points",
    "mapped": "split_intersecting_segments_2d: edges lie inside their mapped input segment",
    "tags": "split_intersecting_segments_2d: edges carry the tags of their mapped input segment",
    "cover": "split_intersecting_segments_2d: the output edges cover each input segment exactly",
    "raises": "split_intersecting_segments_2d: does not raise on admissible input",
}


def build_input(segs, encoding):
    """-> (p as list of columns, e as list of rows incl. two tag rows)"""
    pts, e0, e1 = [], [], []
    if encoding == "shared":
        index = {}
        for a, b in segs:
            for q in (a, b):
                if q not in index:
                    index[q] = len(pts)
                    pts.append(q)
            e0.append(index[a])
            e1.append(index[b])
    else:
        for a, b in segs:
            e0.append(len(pts))
            pts.append(a)
            e1.append(len(pts))
            pts.append(b)
    tags = [(10 + i, 7 * (i + 1) % 5) for i in range(len(segs))]
    e = [e0, e1, [t[0] for t in tags], [t[1] for t in tags]]
    return pts, e, tags


def config_class(segs):
    cl = set()
    for (a0, a1), (b0, b1) in itertools.combinations(segs, 2):
        c = seg_isect(a0, a1, b0, b1)[2]
        if c not in ("disjoint", "parallel-disjoint", "collinear-disjoint"):
            cl.add(c)
    return "+".join(sorted(cl)) or "no-contact"


def worst_class(cls):
    """the most degenerate pairwise relation present (violation signatures are kept this coarse on purpose)"""
    for c in ("overlap", "collinear-touching", "T-junction", "crossing", "shared-endpoint"):
        if c in cls.split("+"):
            return c
    return "no-contact"


def run_case(pp, segs, encoding, geometry_only=False):
    import numpy as np

    pts, e, tags = build_input(segs, encoding)
    p = np.array(pts, dtype=float).T
    ea = np.array(e, dtype=int)
    try:
        new_pts, new_e, _tag_info, argsort = pp.intersections.split_intersecting_segments_2d(p, ea, return_argsort=True)
    except Exception as ex:  # noqa: BLE001
        return [("raises", f"{type(ex).__name__}: {ex}")]
    return check_output(segs, tags, np.asarray(new_pts, dtype=float), np.asarray(new_e), np.asarray(argsort), geometry_only)


def _same_set(s, t):
    return frozenset(s) == frozenset(t)


def run(rep):
    import porepy as pp

    rep.under_contract("pp.intersections.split_intersecting_segments_2d")
    rep.trust("seg_isect / check_output (props/C29.py): exact rational subdivision checker")
    rep.assume(
        "requires: integer end points in [0,3]^2, non-zero length; pairwise distinct input segments except in the 'duplicate' "
        "variant (geometry clauses only there); default tol=1e-8, distinct relevant points are >= 1/324 apart",
        "output vertices are identified with exact rational points when within 1e-9 (relative to the box size 3)",
    )
    quick = rep.tier == "quick"
    assert len({frozenset(s) for s in POOL}) == len(POOL) == 24 and all(a != b for a, b in POOL)

    def do(sw, idx, encoding, geometry_only=False):
        segs = [POOL[i] for i in idx]
        cls = config_class(segs)
        fails = run_case(pp, segs, encoding, geometry_only)
        sw.case(key=(encoding, tuple(idx)), nontrivial=(cls != "no-contact"),
                sample={"segments": segs, "encoding": encoding, "configuration": cls})
        for clause, detail in fails[:6]:
            rep.violation(CLAUSE[clause], "input with " + worst_class(cls),
                          inputs={"segments": segs, "encoding": encoding, "geometry_only": geometry_only}, detail=detail, confirmed=True)

    with rep.sweep(
        "pairs and triples of the pool",
        rule="all 2-subsets and all 3-subsets of the fixed 24-segment pool, each encoded with shared and with separate end-point "
             "columns; non-trivial = at least two of the input segments have a common point (crossing, T-junction, overlap, "
             "collinear touching, shared end point); distinct by (encoding, subset)",
        bound="24-segment pool in [0,3]^2; 276 pairs + 2024 triples, x2 encodings",
        exhaustive=True,
    ) as sw:
        for r in (2, 3):
            for idx in itertools.combinations(range(len(POOL)), r):
                for enc in ("shared", "separate"):
                    do(sw, idx, enc)
    with rep.sweep(
        "repeated segment",
        rule="every pool segment given twice (same orientation and reversed) together with 0 or 1 further pool segment; geometry "
             "clauses only (mapping is ambiguous); always non-trivial (complete overlap)",
        bound="24 x 2 orientations x (1 + 23 partners), separate encoding",
        exhaustive=True,
    ) as sw:
        for i in range(len(POOL)):
            for rev in (False, True):
                for j in [None] + [j for j in range(len(POOL)) if j != i]:
                    a, b = POOL[i]
                    segs = [POOL[i], (b, a) if rev else (a, b)] + ([POOL[j]] if j is not None else [])
                    fails = run_case(pp, segs, "separate", geometry_only=True)
                    cls = config_class(segs)
                    sw.case(key=(i, rev, j), nontrivial=True, sample={"segments": segs, "configuration": cls})
                    for clause, detail in fails[:6]:
                        rep.violation(CLAUSE[clause], "input with a repeated segment",
                                      inputs={"segments": segs, "encoding": "separate", "geometry_only": True}, detail=detail, confirmed=True)
    with rep.sweep(
        "quadruples of the pool",
        rule="all 4-subsets of the pool; quick: encoding alternates with the subset's rank (shared for even, separate for odd), "
             "thorough: both encodings; non-trivial/distinct as above",
        bound="10626 quadruples" + (" x 1 encoding" if quick else " x 2 encodings"),
        exhaustive=True,
    ) as sw:
        for rank, idx in enumerate(itertools.combinations(range(len(POOL)), 4)):
            for enc in (("shared", "separate")[rank % 2],) if quick else ("shared", "separate"):
                do(sw, idx, enc)
    if not quick:
        n = 20000
        with rep.sweep(
            "seeded sets of 5-7",
            rule="seeded (VERIF_SEED) subsets of 5, 6 or 7 pool segments, random encoding; non-trivial/distinct as above",
            bound=f"{n} sets",
            exhaustive=False,
        ) as sw:
            for _ in range(n):
                idx = tuple(sorted(rep.rng.sample(range(len(POOL)), rep.rng.choice([5, 6, 7]))))
                do(sw, idx, rep.rng.choice(["shared", "separate"]))


def replay(data):
    import porepy as pp

    inp = data.get("inputs") or {}
    if "segments" not in inp:
        return False
    segs = [tuple(tuple(int(c) for c in q) for q in s) for s in inp["segments"]]
    fails = run_case(pp, segs, inp.get("encoding", "separate"), bool(inp.get("geometry_only")))
    for f in fails:
        print("replay:", CLAUSE[f[0]], "|", f[1])
    return bool(fails)
