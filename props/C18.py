"""C18 -- Mixed finite elements (RT0, MVEM) reproduce linear pressures exactly.

Tier B (bounded run-time contract sweep; deduction not applicable, DESIGN section 8/C18).

Contract on the real ``discretize`` + ``assemble_matrix_rhs`` + (dense) solve + ``extract_flux`` / ``extract_pressure`` of
``pp.RT0`` and ``pp.MVEM``:

requires  sd a valid simplex grid of dimension 1, 2 or 3 (line, structured triangles, structured tetrahedra; unperturbed, seeded
          node perturbation, affine image), possibly embedded in 3-D by a rigid rotation (1-D and 2-D grids); a constant SPD
          permeability K (isotropic / diagonal / full; for embedded grids the same tensor rotated with the grid, R K R^T);
          Dirichlet data p(x_f) from p(x) = a0 + a.x on *every* boundary face.
ensures   E1  extract_flux(solution)[f]  = -(K a).n_f   for every face (n_f the area-weighted normal of the grid),
          E2  extract_pressure(solution)[c] = p(x_c)    for every cell (x_c the cell centre = centroid of the simplex),
          E3  the mass matrix data[...]['mass'] is symmetric (1e-13 relative) and positive definite (dense Cholesky succeeds).
          E1/E2 are linear in (a0, a): the affine basis {1, x, y, z} covers all linear pressures (all four are needed for embedded
          grids).  Expected values in dense numpy from geometry arrays; the linear system is solved with numpy.linalg.solve.
          All comparisons are NaN-safe (a NaN flux / pressure / mass entry is a failure).

Call history.  The statement quantifies over the grid, not over what the discretisation object did before, so E1-E3 must hold on
every grid an RT0 / MVEM object is applied to.  First sweep: a fresh object per (grid, tensor) (re-used for the four basis fields).
Second sweep ("shared object"): ONE object per method discretises a chain of grids of equal cell/face/node count but different
connectivity (StructuredTriangleGrid [2,3] then [3,2], tetrahedra [2,1,1] / [1,2,1] / [1,1,2], ...), each with fresh data
dictionaries -- the way porepy uses one object for all subdomains of a mixed-dimensional grid; E1-E3 are evaluated on every grid.

Third sweep ("is_tangential"): the documented option data['is_tangential'] = True on every 1-D / 2-D grid of the first sweep (in
place and embedded): the tensor is given in the tangential frame (leading dim x dim block = lower-dimensional permeability K_t,
isotropic / diagonal / full; normal and coupling entries different, they must not enter); E1 becomes -(B K_t B^T a).n_f with B the
orthonormal tangent basis of map_grid (checked to span the tangent space; immaterial for isotropic K_t), E2/E3 unchanged.
Fourth sweep ("tensor re-used"): the arguments' history.  ONE SecondOrderTensor object in ONE data dictionary is used by a sequence
of methods (MVEM->RT0, RT0->MVEM, ...), four discretize/solve calls each (only bc_values replaced); E1-E3 with the tensor the user
specified must hold after every call, i.e. discretize must not consume / alter its argument objects.

Detection power (scratch copy, one mutant at a time, POREPY_SRC=<copy>): see MUTANTS below.
"""
from __future__ import annotations

META = {
    "level": "exploration",
    "engine": "sweep",
    "technique": "run-time contract sweep (bounded stand-in for deduction): postconditions of RT0 / MVEM discretize + assemble_matrix_rhs + solve "
                 "+ extract_flux/extract_pressure on enumerated simplex grids (1-D/2-D/3-D, perturbed, embedded) x SPD tensors, all-Dirichlet "
                 "data of the affine basis (= all linear pressures by linearity); mass matrix symmetric positive definite; evaluated with a "
                 "fresh discretisation object per grid and with one object applied to chains of same-size grids of different connectivity; "
                 "the documented option is_tangential (tensor given in the tangential frame of 1-D / 2-D grids); one SecondOrderTensor "
                 "object / data dictionary re-used by successive discretize calls of MVEM and RT0",
    "text": "Bounded assurance only on the enumerated family. Deduction not applicable (local mass matrices + sparse saddle-point solve). "
            "Covers object re-use: one RT0 / MVEM object discretising several 2-D / 3-D simplex grids of equal size in turn (fresh data "
            "dictionaries) must be exact on each of them. Covers the option data['is_tangential'] = True (tangential-frame tensors "
            "with different normal entries on in-place and embedded 1-D / 2-D grids) and argument re-use: one SecondOrderTensor object "
            "and data dictionary serving several discretize calls (MVEM and RT0 in turn, new boundary values) must give exact results "
            "with the specified tensor on every call. Not covered: unstructured (gmsh) simplex grids, Neumann/Robin data, heterogeneous "
            "K, vector sources, project_flux, re-use of one data dictionary for several grids, object re-use across 1-D grids, "
            "is_tangential combined with argument re-use, the option deviation_from_plane_tol.",
    "note": "oracle = -(K a).n_f and p(cell centre) from geometry arrays (C19); tolerance 1e-9 relative to kmax*area*|a| resp. max|p|",
}

MUTANTS = """
  M1 rt0.py discretize: reference mass scaling ``HB /= d*d*(d+1)*(d+2)`` -> ``d*d*(d+1)*(d+1)``        caught by "RT0: exact face fluxes" (all 35 grid/tensor classes)
  M2 rt0.py discretize: ``div = -sd.cell_faces.T`` -> ``+sd.cell_faces.T``                                caught by "RT0: exact cell-centre pressures"
  M3 dual_elliptic.py assemble_rhs: Dirichlet term ``-sign[is_dir] * bc_val`` -> ``+sign[is_dir] * bc_val``   caught by flux and pressure clauses of both methods
  M4 mvem.py massHdiv: stabilisation weight ``w = weight * ||inv_K||`` -> ``0``                            caught by "MVEM: mass matrix symmetric positive definite"
       (2-D/3-D classes; in 1-D the stabilisation term vanishes identically -- equivalent there)
  M5 mvem.py massHdiv: consistency term ``Pi_s^T G Pi_s`` -> ``Pi_s^T (G^T/2) Pi_s``                       caught by "MVEM: exact face fluxes"
  M6 rt0.py _compute_cell_face_to_opposite_node: the cell->opposite-node map memoised on the RT0 instance and re-used whenever its
       shape (num_cells, dim+1) matches (cache key ignores connectivity)                                  caught by "RT0: exact face fluxes" /
       "exact cell-centre pressures" in the shared-object sweep only (2-D and 3-D chains, from the second grid on; results are NaN)
  M7 rt0.py / mvem.py discretize: flag ``is_tangential`` looked up in the parameter dictionary instead of the data dictionary
       (option silently ignored, tangential tensor rotated once more)                                   caught by "exact face fluxes ... (is_tangential)"
       of both methods, embedded 1-D / 2-D grids (third sweep only)
  M8 mvem.py discretize: ``k = k.copy()`` dropped, ``k.rotate(R)`` acts on the caller's tensor           caught by "exact face fluxes ... (tensor re-used)"
       (fourth sweep only: MVEM from its second call on, RT0 after MVEM; 1-D and embedded 2-D grids)
"""

import warnings

import numpy as np

KW = "flow"


def _ob(method, clause):
    return f"{method}: {clause}"


C_FLUX = "exact face fluxes for a linear pressure with Dirichlet data"
C_PRES = "exact cell-centre pressures for a linear pressure with Dirichlet data"
C_SPD = "mass matrix symmetric positive definite"
C_RUN = "discretize/assemble/solve terminates without exception on an admissible input"
# clause suffixes of the two added families (the clause itself is unchanged; the suffix names the configuration / call history)
# (kept short: obligation + signature name the replay file, which is cut at 120 characters)
S_TAN = " (is_tangential)"    # permeability given in the tangential frame, documented option data['is_tangential'] = True
S_REUSE = " (tensor re-used)"  # the same SecondOrderTensor object and data dictionary used by successive discretize calls


# ----------------------------------------------------------------------------- grids


def _rot(axis, angle):
    axis = np.asarray(axis, dtype=float)
    axis = axis / np.linalg.norm(axis)
    W = np.array([[0, -axis[2], axis[1]], [axis[2], 0, -axis[0]], [-axis[1], axis[0], 0]])
    return np.eye(3) + np.sin(angle) * W + (1 - np.cos(angle)) * W @ W


def build_grid(pp, spec):
    kind = spec["kind"]
    if kind == "line":
        g = pp.TensorGrid(np.array(spec["x"], dtype=float))
    else:
        ctor = {"tri": pp.StructuredTriangleGrid, "tet": pp.StructuredTetrahedralGrid}[kind]
        g = ctor(np.array(spec["n"]), np.array(spec["phys"], dtype=float))
    if spec.get("nodes") is not None:
        g.nodes = np.array(spec["nodes"], dtype=float)
    with warnings.catch_warnings():
        warnings.simplefilter("ignore")
        g.compute_geometry()
    return g


def cells_valid(g):
    return bool(np.all(g.cell_volumes > 1e-10) and np.all(g.face_areas > 0))


def grid_specs(pp, rng, quick):
    base = [{"kind": "line", "x": [0, 0.5, 2.0, 2.5]}, {"kind": "line", "x": [0, 1.0]},
            {"kind": "tri", "n": [1, 1], "phys": [1.0, 1.0]}, {"kind": "tri", "n": [2, 2], "phys": [1.0, 2.0]},
            {"kind": "tri", "n": [3, 2], "phys": [3.0, 1.0]},
            {"kind": "tet", "n": [1, 1, 1], "phys": [1.0, 1.0, 1.0]}, {"kind": "tet", "n": [2, 1, 1], "phys": [2.0, 1.0, 1.5]}]
    if not quick:
        base += [{"kind": "line", "x": [0, 0.1, 0.2, 0.7, 3.0, 3.5]}, {"kind": "tri", "n": [4, 3], "phys": [1.0, 1.0]},
                 {"kind": "tet", "n": [2, 2, 2], "phys": [1.0, 1.0, 1.0]}, {"kind": "tet", "n": [1, 2, 1], "phys": [0.5, 3.0, 1.0]}]
    out = []
    for b in base:
        g0 = build_grid(pp, b)
        dim = g0.dim
        variants = [("regular", g0.nodes.copy())]
        if g0.num_nodes > 2 or dim > 1:
            h = np.min(np.diff(b["x"])) if dim == 1 else min(p / k for p, k in zip(b["phys"], b["n"]))
            for rate in ((0.1, 0.25) if quick else (0.05, 0.1, 0.2, 0.25)):
                for _ in range(20):
                    nodes = g0.nodes.copy()
                    for i in range(dim):
                        nodes[i] += np.array([rng.uniform(-rate, rate) * h for _ in range(g0.num_nodes)])
                    if cells_valid(build_grid(pp, dict(b, nodes=nodes.tolist()))) and _oriented_like(pp, b, nodes, g0):
                        variants.append((f"perturbed{rate}", nodes))
                        break
        if dim >= 2:
            A = np.array([[1, 0.3, 0.1], [0, 1, 0.2], [0.1, 0, 1.2]]) if dim == 3 else np.array([[1, 0.4, 0], [0.2, 1.1, 0], [0, 0, 1]])
            variants.append(("affine", A @ g0.nodes))
        for vname, nodes in variants:
            out.append(dict(b, nodes=np.round(nodes, 12).tolist(), variant=vname, R=None))
            if dim < 3:
                rots = [_rot([1, 1, -1], -np.pi / 4), _rot([0.2, -1, 0.5], 1.1)] + ([] if quick else [_rot([0, 1, 0], np.pi / 2), _rot([1, 0, 0], 2.5)])
                for R in rots:
                    out.append(dict(b, nodes=np.round(R @ nodes, 12).tolist(), variant=vname + "+embedded", R=np.round(R, 15).tolist()))
    return out


def shared_object_chains(pp, rng, quick):
    """Sequences of simplex grids that ONE discretisation object discretises in turn (each grid with fresh data dictionaries),
    as porepy does for mixed-dimensional problems where one object serves all subdomains.  Within a chain consecutive grids
    have the same dimension and the same number of cells/faces/nodes but a different connectivity (n = [2,3] vs [3,2] ...),
    or the same connectivity with different node coordinates, so that any per-object state keyed on less than the grid itself
    is exposed.  Every grid of a chain is an ordinary member of the statement's grid quantifier."""
    def spec(kind, n, phys, variant, R=None):
        b = {"kind": kind, "n": n, "phys": phys}
        g0 = build_grid(pp, b)
        nodes = g0.nodes.copy()
        if variant.startswith("perturbed"):
            h = min(p / k for p, k in zip(phys, n))
            for _ in range(20):
                cand = g0.nodes.copy()
                for i in range(g0.dim):
                    cand[i] += np.array([rng.uniform(-0.15, 0.15) * h for _ in range(g0.num_nodes)])
                if cells_valid(build_grid(pp, dict(b, nodes=cand.tolist()))) and _oriented_like(pp, b, cand, g0):
                    nodes = cand
                    break
            else:
                variant = "regular"
        if R is not None:
            nodes = R @ nodes
            variant += "+embedded"
        return dict(b, nodes=np.round(nodes, 12).tolist(), variant=variant, R=None if R is None else np.round(R, 15).tolist())

    R1 = _rot([1, 1, -1], -np.pi / 4)
    chains = [
        [spec("tri", [2, 3], [1.0, 1.0], "perturbed"), spec("tri", [3, 2], [1.0, 1.0], "perturbed"),
         spec("tri", [3, 2], [1.0, 1.0], "regular", R1), spec("tri", [2, 3], [2.0, 1.0], "regular")],
        [spec("tri", [1, 2], [1.0, 1.0], "regular"), spec("tri", [2, 1], [1.0, 1.0], "regular")],
        [spec("tet", [2, 1, 1], [2.0, 1.0, 1.5], "regular"), spec("tet", [1, 2, 1], [1.0, 1.0, 1.0], "perturbed"),
         spec("tet", [1, 1, 2], [1.0, 1.0, 1.0], "regular")],
    ]
    if not quick:
        chains += [
            [spec("tri", [1, 4], [1.0, 2.0], "regular"), spec("tri", [2, 2], [1.0, 1.0], "perturbed"),
             spec("tri", [4, 1], [2.0, 1.0], "regular"), spec("tri", [2, 2], [1.0, 1.0], "regular", _rot([0.2, -1, 0.5], 1.1))],
            [spec("tet", [1, 1, 2], [1.0, 1.0, 1.0], "perturbed"), spec("tet", [2, 1, 1], [1.0, 1.0, 1.0], "perturbed"),
             spec("tet", [1, 2, 1], [0.5, 3.0, 1.0], "regular")],
            [spec("tri", [4, 3], [1.0, 1.0], "perturbed"), spec("tri", [3, 4], [1.0, 1.0], "perturbed"),
             spec("tri", [2, 6], [1.0, 1.0], "regular"), spec("tri", [6, 2], [1.0, 1.0], "regular")],
        ]
    return chains


def _oriented_like(pp, b, nodes, g0):
    """perturbed cells keep positive orientation: every face stays on the same side of its cell centre"""
    g = build_grid(pp, dict(b, nodes=nodes.tolist()))
    cf = g.cell_faces.tocoo()
    d = g.face_centers[:, cf.row] - g.cell_centers[:, cf.col]
    return bool(np.all(np.sum(d * g.face_normals[:, cf.row], axis=0) * cf.data > 0))


def tensor_family(dim):
    if dim == 1:
        return [("iso", np.diag([2.5, 1.0, 1.0])), ("iso-small", np.diag([0.1, 1.0, 1.0]))]
    if dim == 2:
        c, s = np.cos(0.6), np.sin(0.6)
        R = np.array([[c, -s, 0], [s, c, 0], [0, 0, 1]])
        # (the last two: the same physics in other units -- permeabilities of order 1e9 and 1e-9)
        return [("iso", np.diag([2.5, 2.5, 1.0])), ("diag", np.diag([1.0, 10.0, 1.0])), ("full", R @ np.diag([5.0, 0.5, 1.0]) @ R.T),
                ("iso-1e9", np.diag([2.5e9, 2.5e9, 1.0e9])), ("full-1e-9", 1e-9 * (R @ np.diag([5.0, 0.5, 1.0]) @ R.T))]
    Q, _ = np.linalg.qr(np.array([[1.0, 0.3, -0.2], [0.4, 1.0, 0.5], [-0.1, 0.2, 1.0]]))
    return [("iso", np.diag([2.5, 2.5, 2.5])), ("diag", np.diag([1.0, 10.0, 0.1])), ("full", Q @ np.diag([4.0, 1.0, 0.25]) @ Q.T)]


def tangential_tensor_family(dim, quick):
    """SPD 3x3 tensors in the tangential frame of a 1-D / 2-D grid (option is_tangential): the leading dim x dim block is the
    lower-dimensional permeability, the remaining (normal, tangential-normal) entries are deliberately different and must not
    enter the result.  'tan-iso*' have an isotropic tangential block, for which the expected flux -k_t a.n_f does not depend on
    which orthonormal tangent basis the library uses."""
    if dim == 1:
        fam = [("tan-iso kt=2.5 kn=40", np.diag([2.5, 40.0, 40.0])), ("tan-iso kt=0.1 kn=7", np.diag([0.1, 7.0, 3.0]))]
        if not quick:
            fam += [("tan kt=2.5 coupled", np.array([[2.5, 0.8, -0.5], [0.8, 40.0, 1.0], [-0.5, 1.0, 30.0]])),
                    ("tan-iso kt=3e9 kn=1", np.diag([3.0e9, 1.0, 1.0]))]
        return fam
    c, s = np.cos(0.6), np.sin(0.6)
    Q = np.array([[c, -s], [s, c]])
    full = np.zeros((3, 3))
    full[:2, :2] = Q @ np.diag([5.0, 0.5]) @ Q.T
    full[2, 2] = 20.0
    coupled = full.copy()
    coupled[0, 2] = coupled[2, 0] = 0.3
    coupled[1, 2] = coupled[2, 1] = -0.2
    fam = [("tan-iso kt=2.5 kn=40", np.diag([2.5, 2.5, 40.0])), ("tan-full coupled", coupled)]
    if not quick:
        fam += [("tan-diag", np.diag([1.0, 10.0, 0.05])), ("tan-full", full), ("tan-full-1e-9", 1e-9 * full),
                ("tan-iso kt=0.1 kn=7", np.diag([0.1, 0.1, 7.0]))]
    return fam


def make_tensor(pp, K3, nc):
    o = np.ones(nc)
    return pp.SecondOrderTensor(K3[0, 0] * o, kyy=K3[1, 1] * o, kzz=K3[2, 2] * o, kxy=K3[0, 1] * o, kxz=K3[0, 2] * o, kyz=K3[1, 2] * o)


# ----------------------------------------------------------------------------- contract


def new_discretization(pp, method):
    return {"RT0": pp.RT0, "MVEM": pp.MVEM}[method](KW)


def tangent_frame(pp, g):
    """Orthonormal basis B (3 x dim) of the tangent space of a 1-D / 2-D grid in which a 'tangential' tensor is expressed: the
    local coordinates of pp.map_geometry.map_grid, y = (R x)[active].  Which orthonormal tangent basis is used is a convention of
    the library (it is the frame 'the fracture plane' of the docstrings refers to); that B IS an orthonormal basis of the tangent
    space is checked here independently (projector from an SVD of the centred nodes).  Returns None if that check fails."""
    with warnings.catch_warnings():
        warnings.simplefilter("ignore")
        _, _, _, Rm, active, _ = pp.map_geometry.map_grid(g)
    B = np.asarray(Rm, dtype=float)[np.asarray(active, dtype=bool), :].T
    v = g.nodes - g.nodes.mean(axis=1, keepdims=True)
    U, sv, _ = np.linalg.svd(v)
    if B.shape != (3, g.dim) or not sv[g.dim - 1] > 1e-8 or not np.all(sv[g.dim:] < 1e-9 * sv[0]):
        return None
    P = U[:, : g.dim] @ U[:, : g.dim].T
    if not (np.abs(B.T @ B - np.eye(g.dim)).max() < 1e-10 and np.abs(B @ B.T - P).max() < 1e-9):
        return None
    return B


def evaluate(pp, method, spec, K, discr=None, tangential=False, shared=None):
    """Evaluate E1-E3 for one (grid, tensor).  ``discr`` = the discretisation object to use; None = a freshly constructed one.
    Passing an object that has already discretised other grids is how the 'shared object' sweep exercises the statement for
    every grid an object is applied to (the statement quantifies over the grid, not over the object's call history).

    ``tangential``: K is the tensor in the tangential frame of a 1-D / 2-D grid (leading dim x dim block = the lower-dimensional
    permeability; the other entries must not enter) and the documented option data['is_tangential'] = True is set.
    ``shared``: a dictionary owned by the caller; the grid, ONE SecondOrderTensor object and ONE data dictionary are created on
    the first use and re-used by every later discretize call made through the same ``shared`` (only bc_values is replaced)."""
    if shared is not None and "g" in shared:
        g = shared["g"]
    else:
        g = build_grid(pp, spec)
    nf, nc = g.num_faces, g.num_cells
    K = np.asarray(K, dtype=float)
    suffix = (S_TAN if tangential else "") + (S_REUSE if shared is not None else "")
    if tangential:
        B = tangent_frame(pp, g)
        if B is None:
            return [(_ob(method, C_RUN + suffix), "map_grid did not return an orthonormal basis of the tangent space of the grid")]
        Kpass = K  # handed over as it is: already in the tangential frame
        Kt = 0.5 * (K[: g.dim, : g.dim] + K[: g.dim, : g.dim].T)
        K3 = B @ Kt @ B.T  # the tensor that must act on the (ambient) pressure gradient
        kmax = np.abs(Kt).max()
    else:
        R = np.eye(3) if spec.get("R") is None else np.asarray(spec["R"], dtype=float)
        K3 = R @ K @ R.T  # the tensor in the coordinates the (possibly embedded) grid lives in
        K3 = 0.5 * (K3 + K3.T)
        Kpass = K3
        kmax = np.abs(K).max()
    bf = g.get_all_boundary_faces()
    bc = pp.BoundaryCondition(g, bf, ["dir"] * bf.size)
    if discr is None:
        discr = new_discretization(pp, method)
    if shared is not None and "tensor" not in shared:
        shared["g"] = g
        shared["tensor"] = make_tensor(pp, Kpass, nc)
        shared["values0"] = shared["tensor"].values.copy()
        shared["data"] = None
        shared["calls"] = []
    xc, xf, nrm = g.cell_centers, g.face_centers, g.face_normals
    L = max(1.0, np.abs(g.nodes).max())
    bad = []
    mass_checked = False
    for a0, a in [(1.0, np.zeros(3))] + [(0.0, np.eye(3)[i]) for i in range(3)]:
        p = lambda x: a0 + a @ x  # noqa: E731
        bcv = np.zeros(nf)
        bcv[bf] = p(xf[:, bf])
        if shared is None:
            data = pp.initialize_data({}, KW, {"bc": bc, "bc_values": bcv, "second_order_tensor": make_tensor(pp, Kpass, nc)})
        else:
            if shared["data"] is None:
                shared["data"] = pp.initialize_data({}, KW, {"bc": bc, "bc_values": bcv, "second_order_tensor": shared["tensor"]})
                shared["data"][pp.PARAMETERS][KW]["second_order_tensor"] = shared["tensor"]  # the very same object
            data = shared["data"]
            data[pp.PARAMETERS][KW]["bc_values"] = bcv
        if tangential:
            data["is_tangential"] = True  # 'stored in the data dictionary' (docstrings of RT0.discretize / MVEM.discretize)
        hist = ""
        if shared is not None:
            vals = shared["tensor"].values
            same = vals.shape == shared["values0"].shape and np.array_equal(vals, shared["values0"])
            hist = (f" [discretize call #{len(shared['calls']) + 1} with this tensor object / data dictionary, earlier calls: "
                    f"{_runs(shared['calls']) or 'none'}; tensor values before the call "
                    + ("as specified" if same else "NOT as specified (changed by an earlier discretize)") + "]")
            shared["calls"].append(method)
        try:
            with warnings.catch_warnings():
                warnings.simplefilter("ignore")
                discr.discretize(g, data)
                A, rhs = discr.assemble_matrix_rhs(g, data)
                x = np.linalg.solve(A.toarray(), rhs)
                q = discr.extract_flux(g, x, data)
                pc = discr.extract_pressure(g, x, data)
        except Exception as e:
            return bad + [(_ob(method, C_RUN + suffix), f"{type(e).__name__}: {e}" + hist)]
        if not mass_checked:
            mass_checked = True
            Mm = data[pp.DISCRETIZATION_MATRICES][KW][discr.mass_matrix_key].toarray()
            asym = np.abs(Mm - Mm.T).max()
            if Mm.shape != (nf, nf) or not asym <= 1e-13 * np.abs(Mm).max():  # 'not <=' so that NaN counts as a failure
                bad.append((_ob(method, C_SPD + suffix), f"shape {Mm.shape}, max |M - M^T| = {asym:.3e} (max |M| {np.abs(Mm).max():.3e})" + hist))
            else:
                try:
                    np.linalg.cholesky(0.5 * (Mm + Mm.T))
                except np.linalg.LinAlgError:
                    bad.append((_ob(method, C_SPD + suffix), f"Cholesky failed; smallest eigenvalue {np.linalg.eigvalsh(0.5 * (Mm + Mm.T)).min():.3e}" + hist))
        darcy = -(K3 @ a) @ nrm
        pmax = 1.0 if a0 else L
        tol = 1e-9 * max(kmax * g.face_areas.max(), 1e-300) * max(1.0, L)
        err = np.abs(q - darcy)
        if q.shape != (nf,) or not err.max() <= tol:  # NaN-safe
            f = int(err.argmax())
            bad.append((_ob(method, C_FLUX + suffix), f"a0={a0} grad={a.tolist()}: face {f} flux {q[f]!r} expected {darcy[f]!r} (tol {tol:.1e})" + hist))
        perr = np.abs(pc - p(xc))
        if pc.shape != (nc,) or not perr.max() <= 1e-9 * pmax:  # NaN-safe
            c = int(perr.argmax())
            bad.append((_ob(method, C_PRES + suffix), f"a0={a0} grad={a.tolist()}: cell {c} pressure {pc[c]!r} expected {p(xc)[c]!r}" + hist))
    return bad


def _runs(calls):
    """['MVEM','MVEM','RT0'] -> 'MVEM x2, RT0 x1'"""
    out = []
    for m in calls:
        if out and out[-1][0] == m:
            out[-1][1] += 1
        else:
            out.append([m, 1])
    return ", ".join(f"{m} x{k}" for m, k in out)


def evaluate_sequence(pp, sequence, spec, K, upto=None):
    """The re-use scenario: ONE SecondOrderTensor object in ONE data dictionary on one grid; the methods of ``sequence`` (fresh
    discretisation objects) discretise / solve in turn, each for the four basis fields (new bc_values only).  Returns one list of
    E1-E3 failures per method of the sequence (``upto``: stop after that many)."""
    shared = {}
    out = []
    for m in sequence[: upto or len(sequence)]:
        out.append(evaluate(pp, m, spec, K, shared=shared))
    return out


def _gname(spec):
    return f"{spec['kind']}{spec.get('n', len(spec.get('x', [])) - 1)}"


def _dim(spec):
    return 1 if spec["kind"] == "line" else len(spec["n"])


def run(rep):
    import porepy as pp

    rep.under_contract("pp.RT0.discretize", "pp.MVEM.discretize", "DualElliptic.assemble_matrix_rhs", "DualElliptic.extract_flux",
                       "DualElliptic.extract_pressure")
    rep.trust("grid geometry arrays (face_normals, face_centers, cell_centers) -- property C19", "numpy.linalg.solve / cholesky",
              "pp.map_geometry.map_grid: choice of the orthonormal tangent basis for is_tangential tensors (orthonormality and span are "
              "re-checked against an SVD of the nodes; the choice is immaterial for isotropic tangential blocks)")
    rep.assume("flux unknowns are normal fluxes integrated over the face, positive along the face normal; for embedded grids the tensor "
               "is given in the ambient coordinates (R K R^T), as in porepy's own tests",
               "discretize(sd, data) with a fresh data dictionary must not depend on which grids the same object discretised before "
               "(the statement is for any grid; one object serves all subdomains in porepy's mixed-dimensional assembly)",
               "with data['is_tangential'] = True the leading dim x dim block of the tensor is the permeability in the local coordinates "
               "of pp.map_geometry.map_grid (the 'fracture plane' frame of the docstrings); all other entries are irrelevant",
               "the 'constant permeability' of the statement is the tensor the user specified: a SecondOrderTensor / data dictionary "
               "passed to discretize may be passed again (re-discretisation after new boundary data, second method for comparison)")
    quick = rep.tier == "quick"
    rng = rep.rng
    with rep.sweep(
        "RT0 / MVEM linear exactness",
        rule="methods {RT0, MVEM} x simplex grids {non-uniform line, structured triangles, structured tetrahedra} x {regular, seeded node "
             "perturbation, affine image} x {in place, rigidly rotated into 3-D (1-D and 2-D grids)} x constant SPD K {isotropic, diagonal, "
             "full}; all-Dirichlet data of the complete affine basis {1,x,y,z} (= all linear pressures by linearity); distinct by (method, "
             "grid nodes, tensor); non-trivial = perturbed / affine / embedded grid or anisotropic K",
        bound="1-D <= 5 cells, 2-D <= 4x3x2 triangles, 3-D <= 48 tetrahedra; perturbation <= 0.25 h; " + ("2" if quick else "4") + " rotations",
        exhaustive=False,
    ) as sw:
        specs = grid_specs(pp, rng, quick)
        for spec in specs:
            g = build_grid(pp, spec)
            if not cells_valid(g):
                sw.skip()
                continue
            for tname, K in tensor_family(g.dim):
                for method in ("RT0", "MVEM"):
                    key = (method, _gname(spec), spec["variant"], hash(str(spec["nodes"])), tname)
                    trivial = spec["variant"] == "regular" and tname == "iso"
                    sw.case(key, nontrivial=not trivial,
                            sample={"method": method, "grid": {k: v for k, v in spec.items() if k not in ("nodes", "R")}, "K": tname})
                    for ob, detail in evaluate(pp, method, spec, K):
                        rep.violation(ob, f"{_dim(spec)}d {spec['variant']} K={tname}", detail=detail, confirmed=True,
                                      inputs={"method": method, "grid": spec, "K": np.asarray(K).tolist()})

    with rep.sweep(
        "RT0 / MVEM linear exactness, one discretisation object applied to several grids in turn",
        rule="methods {RT0, MVEM} x chains of 2-D / 3-D simplex grids of equal cell, face and node count but different connectivity "
             "(structured [a,b] vs [b,a] ...; regular / perturbed / embedded) x K {isotropic, full}; ONE object per (method, chain, K) "
             "discretises the grids in chain order, each with fresh data dictionaries, and E1-E3 are evaluated on every grid exactly as "
             "in the first sweep; distinct by (method, chain, position, tensor); non-trivial = the object has discretised another grid "
             "before (position >= 1)",
        bound=("3" if quick else "6") + " chains of 2-4 grids, <= 24 triangles / 12 tetrahedra per grid",
        exhaustive=False,
    ) as sw:
        for ci, chain in enumerate(shared_object_chains(pp, rng, quick)):
            dim = _dim(chain[0])
            tensors = [t for t in tensor_family(dim) if t[0] in ("iso", "full")]
            for tname, K in tensors:
                for method in ("RT0", "MVEM"):
                    discr = new_discretization(pp, method)
                    history = []
                    for pos, spec in enumerate(chain):
                        if not cells_valid(build_grid(pp, spec)):
                            sw.skip()
                            continue
                        sw.case((method, "shared", ci, pos, _gname(spec), spec["variant"], tname), nontrivial=pos > 0,
                                sample={"method": method, "chain": [_gname(s) + " " + s["variant"] for s in chain], "position": pos, "K": tname})
                        for ob, detail in evaluate(pp, method, spec, K, discr=discr):
                            rep.violation(ob, f"{dim}d K={tname} shared object, {'first grid' if not history else 'after a same-size grid'}",
                                          detail=f"grid #{pos} of chain {[_gname(s) for s in chain]}: " + detail, confirmed=True,
                                          inputs={"method": method, "grid": spec, "K": np.asarray(K).tolist(), "history": list(history)})
                        history.append(spec)

    with rep.sweep(
        "RT0 / MVEM linear exactness, permeability given in the tangential frame (option is_tangential)",
        rule="methods {RT0, MVEM} x the 1-D and 2-D grids of the first sweep (regular / perturbed / affine; in place and rigidly rotated "
             "into 3-D) x SPD tensors given in the tangential frame with data['is_tangential'] = True: leading dim x dim block = "
             "lower-dimensional permeability {isotropic, diagonal, full}, normal and tangential-normal entries different from it "
             "(they must not enter); expected flux -(B K_t B^T a).n_f with B the orthonormal tangent basis of map_grid (verified to "
             "span the tangent space; irrelevant for isotropic K_t); E1-E3 as in the first sweep; distinct by (method, grid nodes, "
             "tensor); non-trivial = 1-D, embedded or non-regular grid",
        bound="grids of the first sweep with dim < 3; " + ("2" if quick else "4 (1-D) / 6 (2-D)") + " tangential tensors per dimension",
        exhaustive=False,
    ) as sw:
        for spec in specs:
            dim = _dim(spec)
            if dim == 3:
                continue
            g = build_grid(pp, spec)
            if not cells_valid(g) or tangent_frame(pp, g) is None:
                sw.skip()
                continue
            emb = "embedded" in spec["variant"]
            for tname, K in tangential_tensor_family(dim, quick):
                for method in ("RT0", "MVEM"):
                    sw.case((method, "tangential", _gname(spec), spec["variant"], hash(str(spec["nodes"])), tname),
                            nontrivial=dim == 1 or spec["variant"] != "regular",
                            sample={"method": method, "grid": {k: v for k, v in spec.items() if k not in ("nodes", "R")}, "K": tname,
                                    "is_tangential": True})
                    for ob, detail in evaluate(pp, method, spec, K, tangential=True):
                        rep.violation(ob, f"{dim}d {'emb' if emb else 'flat'} {tname.split(' ')[0]}",
                                      detail=f"{spec['variant']}, tensor {tname} given in the tangential frame with "
                                             "data['is_tangential'] = True: " + detail, confirmed=True,
                                      inputs={"method": method, "grid": spec, "K": np.asarray(K).tolist(), "tangential": True})

    sequences = [("MVEM", "RT0"), ("RT0", "MVEM")] + ([] if quick else [("MVEM", "MVEM", "RT0"), ("RT0", "RT0", "MVEM", "RT0")])
    with rep.sweep(
        "RT0 / MVEM linear exactness, one SecondOrderTensor object / data dictionary re-used by successive discretisations",
        rule="method sequences {MVEM->RT0, RT0->MVEM, ...} x grids of the first sweep (" + ("regular and 0.1-perturbed" if quick else "all")
             + " variants; in place and embedded; 1-D/2-D/3-D) x K {isotropic, full}: the user builds ONE SecondOrderTensor and ONE data "
             "dictionary; every method of the sequence (fresh object) discretises / assembles / solves four times (the affine basis; only "
             "bc_values is replaced between calls), so the sequence covers MVEM after MVEM, RT0 after MVEM, RT0 after RT0 and MVEM "
             "after RT0; E1-E3 with the tensor the user specified are evaluated after every call; distinct by (sequence, position, grid "
             "nodes, tensor); non-trivial = every case (from the second call on the arguments have been used before)",
        bound=("2" if quick else "4") + " sequences; grids as in the first sweep" + (" restricted to the variants regular / perturbed0.1" if quick else ""),
        exhaustive=False,
    ) as sw:
        for spec in specs:
            dim = _dim(spec)
            if quick and spec["variant"].split("+")[0] not in ("regular", "perturbed0.1"):
                continue
            if not cells_valid(build_grid(pp, spec)):
                sw.skip()
                continue
            tensors = [t for t in tensor_family(dim) if t[0] in (("iso",) if dim == 1 else ("full",) if quick and dim == 3 else ("iso", "full"))]
            for tname, K in tensors:
                for seq in sequences:
                    results = evaluate_sequence(pp, seq, spec, K)
                    for pos, (method, bad) in enumerate(zip(seq, results)):
                        sw.case(("reuse", "->".join(seq), pos, _gname(spec), spec["variant"], hash(str(spec["nodes"])), tname),
                                sample={"sequence": list(seq), "position": pos, "K": tname,
                                        "grid": {k: v for k, v in spec.items() if k not in ("nodes", "R")}})
                        prev = "after " + seq[pos - 1] if pos else "first"
                        for ob, detail in bad:
                            rep.violation(ob, f"{dim}d {'emb' if 'embedded' in spec['variant'] else 'flat'} {tname} {prev}",
                                          detail=f"{spec['variant']}, ONE SecondOrderTensor object / data dictionary used by the sequence "
                                                 f"{'->'.join(seq)} (4 calls each), method #{pos}: " + detail, confirmed=True,
                                          inputs={"method": method, "grid": spec, "K": np.asarray(K).tolist(), "sequence": list(seq),
                                                  "position": pos})


def replay(data):
    import porepy as pp

    inp = data["inputs"]
    if inp.get("sequence"):  # re-used tensor object / data dictionary: re-run the sequence up to the failing method
        bad = evaluate_sequence(pp, inp["sequence"], inp["grid"], inp["K"], upto=inp["position"] + 1)[inp["position"]]
        for b in bad:
            print("replay:", b)
        return bool(bad)
    discr = None
    if inp.get("history"):  # the same object first discretises the earlier grids of the chain
        discr = new_discretization(pp, inp["method"])
        for h in inp["history"]:
            evaluate(pp, inp["method"], h, inp["K"], discr=discr)
    bad = evaluate(pp, inp["method"], inp["grid"], inp["K"], discr=discr, tangential=bool(inp.get("tangential")))
    for b in bad:
        print("replay:", b)
    return bool(bad)
