#!/bin/bash
# Builds /verif/.venv offline: python 3.12 venv layered over /venv (the repo's own
# environment, untouched) plus z3-solver and cvc5 wheels from the offline wheelhouse.
set -e
cd "$(dirname "$0")"
V=.venv
if [ -x $V/bin/python ] && $V/bin/python -c "import z3, cvc5, porepy, jsonschema" 2>/dev/null; then
  echo "setup: $V already usable"; exit 0
fi
rm -rf $V
/venv/bin/python -m venv $V
SP=$($V/bin/python -c "import sysconfig; print(sysconfig.get_paths()['purelib'])")
echo "import site; site.addsitedir('/venv/lib/python3.12/site-packages')" > $SP/_repo_venv.pth
PIP_NO_INDEX=1 $V/bin/python -m pip install --quiet --no-index --no-deps --find-links /opt/veriftools/wheels z3-solver cvc5 jsonschema jsonschema_specifications referencing rpds_py attrs
$V/bin/python -c "import z3, cvc5, porepy, numpy, jsonschema; print('setup ok: z3', z3.get_version_string(), 'numpy', numpy.__version__, 'porepy', porepy.__file__)"
